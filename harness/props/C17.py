"""C17 — identifiers in the outputs are unique, collision-free and functional."""
import collections
import os
import re
import shutil
import types

import vlib
import pipeline as P
from gen import ids as G

ID = "C17"
HAVE_INPUT = os.path.exists(os.path.join(vlib.LEAN, "IsoVerif", "Props", "C17Input.lean"))
HAVE_PRINTER = os.path.exists(os.path.join(vlib.LEAN, "IsoVerif", "Props", "C17Printer.lean"))
PROPS = ["IsoVerif/Props/C17.lean"] + (["IsoVerif/Props/C17Printer.lean"] if HAVE_PRINTER else []) + \
    (["IsoVerif/Props/C17Input.lean"] if HAVE_INPUT else [])
TARGETS = ["IsoVerif.Props.C17"] + (["IsoVerif.Props.C17Printer"] if HAVE_PRINTER else []) + \
    (["IsoVerif.Props.C17Input"] if HAVE_INPUT else [])
GEN_DEPS = ["Constants"]
LEVEL = "proof"
RULE = ("in-process call histories against the real classes of src/id_policy.py (stub genedb; references with exon_id on "
        "CDS / UTR / codon records also through real gffutils databases built with the options of src/gtf2db.py), the real "
        "construct_fl_isoforms / generate_monoexon_from_clustered (stubbed heuristics, real id code) and the real "
        "GFFPrinter.dump; exhaustive strings of length <= 3 over an 8-letter alphabet for int()/split + seeded random "
        "reference id lists, event histories and get_id histories; pipeline runs on synthetic multi-chromosome data "
        "(second run uses the first run's extended_annotation.gtf as reference) whose printed exon_id sequence is "
        "replayed through the model; a case is non-trivial when the model returns a non-error, non-empty value and "
        "model == implementation; distinct by (op, input); the input check: check_gtf_duplicates on the GTF text of seeded record "
        "lists (exon-only and complete files, ids on several sequences, repeated records, ids that look like renamed ones) "
        "and real gffutils databases of them (check_db_sequences, printed / located transcripts per sequence); pipeline "
        "scenarios rotate input form (GTF, GFF3, .db), threads 1/2/4, --check_canonical, --count_exons, 2-3 generations, "
        "transcript_models.gtf fed back, a run without --genedb, ambiguous sequence names; the shared-id annotations are "
        "followed through IsoQuant's own corrected GTF")
TRUSTED = ["stub genedb: region(seqid, start, featuretype) yields the features of that chromosome and type "
           "(gffutils behaviour assumed, exercised for real in the pipeline runs)",
           "Gen/Constants.lean tn_* are the TranscriptNaming constants of src/common.py (re-extracted every run)",
           "gffutils.create_db (options of src/gtf2db.py): one gene / transcript feature per id, the record when there is one, "
           "else inferred with the sequence of one of its lines (checked on every generated database); relations as written "
           "by _populate_from_lines"]
ASSUMPTIONS = ["input check model: parsed fields of well-formed data lines (no blank inside an id, gene records carry no transcript_id); "
               "a string used as gene_id on one line and as transcript_id on another (one key space in gffutils) and mRNA-typed "
               "records of a GTF (audit2-C GAP-1) are outside the database model (docs/C17.md F8)",
               "a user who passes --no_gtf_check has switched the input check off: the shared-id scenarios are not run with it",
               "ids are ASCII (Python int() also accepts non-ASCII digits / spaces; the model does not)",
               "ids are shorter than CPython's 4300-digit int() limit",
               "CPython int / str(int) / '%d' semantics = Lean Nat.toDigits 10",
               "reading rule: transcript ids are compared with transcript ids, gene ids with gene ids (GTF attributes)",
               "reading rule: the reference's own exon_id attributes are functional and injective ON ITS EXON RECORDS (otherwise "
               "'preserve reference ids' and 'distinct exons, distinct ids' contradict each other)",
               "reading rule: 'exon IDs present in the reference are preserved' speaks about exon records; an exon_id value on a "
               "CDS / codon / UTR record is an id present in the reference (never issued to another interval) but the printed "
               "CDS / codon / UTR line need not repeat it (GENCODE puts the id of the containing exon there; IsoQuant numbers the "
               "interval itself)"]

QUICK = lambda ctx: ctx.tier == "quick"


# ------------------------------------------------------------------------------------------------
# real code adapters

def _impl():
    vlib.repo_on_path()
    import logging
    lg = logging.getLogger("IsoQuant")      # GFFPrinter warnings about the generated malformed models
    lg.setLevel(logging.CRITICAL)
    if not lg.handlers:
        lg.addHandler(logging.NullHandler())
    import src.id_policy as IP
    import src.graph_based_model_construction as GB
    import src.gene_info as GI
    import src.intron_graph as IG
    import src.isoform_assignment as IA
    import src.transcript_printer as TP
    return IP, GB, GI, IG, IA, TP


class StubUnavailable(Exception):
    """the stubbed part of GraphBasedModelConstructor no longer fits (interface drift, not an id defect)"""


def make_constructor(chr_id, distributor):
    IP, GB, GI, IG, IA, TP = _impl()
    c = object.__new__(GB.GraphBasedModelConstructor)
    c.gene_info = types.SimpleNamespace(chr_id=chr_id, gene_strands=collections.defaultdict(lambda: "+"))
    c.id_distributor = distributor
    c.params = types.SimpleNamespace(min_novel_count=2, min_known_count=1, require_monointronic_polya=False,
                                     report_canonical_strategy=GB.StrandnessReportingLevel.all,
                                     use_technical_replicas=False)
    c.transcript_model_storage = []
    c.transcript_read_ids = collections.defaultdict(list)
    c.internal_counter = collections.defaultdict(int)
    c.read_assignment_counts = collections.defaultdict(int)
    c.known_isoforms_in_graph = {}
    c.known_introns = set()
    c.strand_detector = types.SimpleNamespace(get_strand=lambda *a: "+", get_clean_strand=lambda *a: "+")
    c.profile_constructor = types.SimpleNamespace(construct_profiles=lambda *a: None)
    c.assigner = types.SimpleNamespace(assign_to_isoform=lambda tid, prof: types.SimpleNamespace(
        assignment_type=IA.ReadAssignmentType.inconsistent, isoform_matches=[]))
    return c


def run_events_impl(chr_id, distributor, events):
    """drive the real id-creating code of graph_based_model_construction.py with one candidate per event"""
    IP, GB, GI, IG, IA, TP = _impl()
    c = make_constructor(chr_id, distributor)
    models = []
    pos = 1000
    for ev in events:
        c.transcript_model_storage = []
        pos += 1000
        if ev["kind"] in ("fl_discard", "fl_novel"):
            path = ((IG.VERTEX_read_start, pos), (pos + 100, pos + 200), (IG.VERTEX_read_end, pos + 300))
            count = 0 if ev["kind"] == "fl_discard" else 5
            c.path_storage = types.SimpleNamespace(fl_paths=[path], paths={path: count}, paths_to_reads={path: []})
            g = ev.get("gene")
            c.select_reference_gene = (lambda *a, _g=g: _g)
            c.known_introns = {(pos + 100, pos + 200)} if ev.get("nic") else set()
            try:
                c.construct_fl_isoforms()
            except (AttributeError, TypeError, KeyError) as ex:
                raise StubUnavailable("construct_fl_isoforms: %s: %s" % (type(ex).__name__, ex))
        else:
            reads = [types.SimpleNamespace(corrected_exons=[(pos, pos + 300)], read_id="r%d_%d" % (pos, i), read_group="g")
                     for i in range(3)]
            if not ev["valid"]:
                c.transcript_model_storage = [types.SimpleNamespace(exon_blocks=[(pos - 10, pos + 400)], transcript_id="blocker")]
            try:
                c.generate_monoexon_from_clustered({pos + 300: reads}, True)
            except (AttributeError, TypeError, KeyError) as ex:
                raise StubUnavailable("generate_monoexon_from_clustered: %s: %s" % (type(ex).__name__, ex))
        for m in c.transcript_model_storage:
            if getattr(m, "transcript_id", None) != "blocker":
                models.append([m.transcript_id, m.gene_id])
    return {"models": models, "value": distributor.value}


def make_distributor(genedb_ids, chrom, rng=None):
    IP = _impl()[0]
    if genedb_ids is None:
        return IP.ExcludingIdDistributor(None, chrom)
    return IP.ExcludingIdDistributor(G.stub_ids_db(chrom, genedb_ids["genes"], genedb_ids["transcripts"], rng), chrom)


def make_storage(kw):
    IP = _impl()[0]
    dist = IP.SimpleIDDistributor() if kw["dist"] is None else make_distributor(kw["dist"], kw["chr"])
    if kw["genedb"] is None:
        db = None
    elif kw.get("real_db") and kw["genedb"]:      # (gffutils refuses to build a database from no lines at all)
        db = G.real_record_db(kw["chr"], kw["genedb"])      # a real gffutils database (options of src/gtf2db.py)
    else:
        db = G.stub_exon_db(kw["chr"], kw["genedb"])
    return IP.FeatureIdStorage(dist, db, kw["chr"], "exon")


def impl_call(op, kw):
    IP, GB, GI, IG, IA, TP = _impl()
    try:
        if op == "py_int":
            return int(kw["s"])
        if op == "py_split":
            return kw["s"].split(kw["sep"])
        if op in ("gene_number", "transcript_number"):
            db = G.stub_ids_db("c", [kw["id"]] if op == "gene_number" else [], [kw["id"]] if op == "transcript_number" else [])
            d = IP.ExcludingIdDistributor(db, "c")
            f = sorted(d.forbidden_ids)
            return f[0] if f else None
        if op in ("fmt_transcript", "fmt_gene", "fmt_exon"):
            d = IP.SimpleIDDistributor()
            n = kw["n"]
            if op == "fmt_exon":
                d.value = n - 1
                st = IP.FeatureIdStorage(d)
                st.get_id(kw["chr"], (1, 2), "+")
                return st.get_id(kw["chr"], (1, 2), "+")
            if op == "fmt_transcript":
                d.value = n - 1
                r = run_events_impl(kw["chr"], d, [{"kind": "fl_novel", "gene": "G", "nic": kw["nic"]}])
                return r["models"][0][0]
            d.value = n - 2
            r = run_events_impl(kw["chr"], d, [{"kind": "fl_novel", "gene": None, "nic": False}])
            return r["models"][0][1]
        if op == "increments":
            d = make_distributor(kw["genedb"], kw.get("chr", "c"))
            return [d.increment() for _ in range(kw["n"])]
        if op == "events":
            d = make_distributor(kw["genedb"], kw["chr"])
            return run_events_impl(kw["chr"], d, kw["events"])
        if op == "exon_history":
            st = make_storage(kw)
            return [st.get_id(c[0], (c[1], c[2]), c[3]) for c in kw["calls"]]
        if op == "dump":
            return impl_dump(kw)
        if op == "check_gtf":
            return impl_check_gtf(kw["recs"])
        if op == "db_of":
            return impl_db_of(kw["recs"], kw["chrs"])[0]
    except StubUnavailable:
        raise
    except Exception as ex:      # whatever the real code raises is the error value of the call
        return {"error": "error", "exc": type(ex).__name__}
    raise RuntimeError("unknown op " + op)


# ------------------------------------------------------------------------------------------------
# the input check on the real code: check_gtf_duplicates on the GTF text of a record list; the gffutils database of the
# text (options of src/gtf2db.py, gene / transcript records inferred) and check_db_sequences on it

def impl_check_gtf(recs):
    _impl()
    import src.gtf2db as GD
    d = vlib.scratch_dir("isoverif_c17_in_")
    try:
        path = os.path.join(d, "ann.gtf")
        with open(path, "w") as f:
            f.write(G.records_text(recs))
        ok, corrected, _, _ = GD.check_gtf_duplicates(path)
        out = []
        for l in corrected.split("\n"):
            if l.strip():
                a = l.split("\t")[8]
                g = re.search(r'gene_id "([^"]*)"', a).group(1)
                t = re.search(r'transcript_id "([^"]*)"', a)
                out.append([g, t.group(1) if t else None])
        return {"ok": bool(ok), "out": out}
    finally:
        shutil.rmtree(d, ignore_errors=True)


def impl_db_of(recs, chrs):
    """-> (model-shaped answer of the real database, {gseq, tseq} = the sequences gffutils gave the features, problems)"""
    _impl()
    import src.gtf2db as GD
    d = vlib.scratch_dir("isoverif_c17_db_")
    try:
        gtf = os.path.join(d, "ann.gtf")
        with open(gtf, "w") as f:
            f.write(G.records_text(recs))
        dbf = os.path.join(d, "ann.db")
        G.gtf_to_db(gtf, dbf, complete=False)
        import gffutils
        db = gffutils.FeatureDB(dbf)
        genes = sorted([f.id, f.seqid] for f in db.features_of_type("gene"))
        trs = sorted([f.id, f.seqid] for f in db.features_of_type(("transcript", "mRNA")))
        try:
            # (a tree without the check accepts every database)
            getattr(GD, "check_db_sequences", lambda _: None)(dbf)
            accepted = True
        except SystemExit:
            accepted = False
        printed = [[c, sorted(t.id for g in db.region(seqid=c, start=1, featuretype="gene")
                              for t in db.children(g, featuretype=("transcript", "mRNA")))] for c in chrs]
        located = [[c, sorted(t.id for t in db.region(seqid=c, start=1, featuretype=("transcript", "mRNA")))] for c in chrs]
        bad = []
        for fid, seq in genes:
            if seq not in {r[0] for r in recs if r[2] == fid}:
                bad.append("gene feature %s on %s, a sequence none of its lines lies on" % (fid, seq))
        for fid, seq in trs:
            if seq not in {r[0] for r in recs if r[1] != "gene" and r[3] == fid}:
                bad.append("transcript feature %s on %s, a sequence none of its lines lies on" % (fid, seq))
        rel = [tuple(x) for x in db.execute("SELECT p.id, p.seqid, c.id, c.seqid FROM relations r JOIN features p ON p.id = r.parent "
                                            "JOIN features c ON c.id = r.child WHERE r.level = 1")]
        return ({"accepted": accepted, "genes": genes, "transcripts": trs, "printed": printed, "located": located},
                {"gseq": genes, "tseq": trs}, {"admissible": bad, "relations": rel})
    finally:
        shutil.rmtree(d, ignore_errors=True)


def canon_db(mo):
    """model answer with the set-like parts sorted (gffutils / sqlite row order is not part of the model)"""
    if not isinstance(mo, dict) or "printed" not in mo:
        return mo
    return {"accepted": mo["accepted"], "genes": sorted(mo["genes"]), "transcripts": sorted(mo["transcripts"]),
            "printed": [[c, sorted(l)] for c, l in mo["printed"]], "located": [[c, sorted(l)] for c, l in mo["located"]]}


def input_cases(ctx):
    """check_gtf on random record lists; db_of on those gffutils can build a database of (no repeated gene / transcript record:
    merge_strategy="error"), the sequences of the inferred features being read off the real database"""
    rng = ctx.rng
    cases = []
    for i in range(400 if QUICK(ctx) else 4000):
        recs = G.rand_gtf_records(rng)
        cases.append(("check_gtf", {"track": True, "recs": recs}))
        if i % 4 == 0:
            ids = [(r[1] == "gene", r[2] if r[1] == "gene" else r[3]) for r in recs if r[1] != "exon"]
            if len(ids) != len(set(ids)) or {r[2] for r in recs} & {r[3] for r in recs} or any(r[1] == "mRNA" for r in recs):
                continue        # (one key space for gene and transcript features in gffutils: not the model's `Db`;
                #                  an mRNA-typed record of a GTF gets the id mRNA_<n>: audit2-C GAP-1, property C12)
            try:
                _, seqs, prob = impl_db_of(recs, G.IN_SEQS)
            except Exception as ex:       # gffutils refuses the file
                ctx.count("db_of_not_built:" + type(ex).__name__)
                continue
            if prob["admissible"]:
                ctx.disagree("db_of_admissible", {"recs": recs}, None, prob["admissible"])
                continue
            cases.append(("db_of", {"recs": recs, "chrs": G.IN_SEQS, "gseq": seqs["gseq"], "tseq": seqs["tseq"]}))
    return cases


def check_input_case(recs):
    """the property at the input check of the real code: an annotation that check_gtf_duplicates accepts gives a database
    in which every level-1 relation joins features of one sequence (what the per-chromosome id allocation and the
    concatenation of the per-chromosome output blocks rely on); a database check_db_sequences accepts prints, on every
    sequence, only transcripts located there"""
    fails = []
    ok = impl_check_gtf(recs)["ok"]
    ids = [(r[1] == "gene", r[2] if r[1] == "gene" else r[3]) for r in recs if r[1] != "exon"]
    if any(r[1] == "mRNA" for r in recs):
        return fails        # mRNA-typed GTF records: audit2-C GAP-1 (C12)
    # docs/C17.md F8 (known finding `id_used_as_gene_and_transcript`): one string as gene_id of one line and transcript_id of another
    # is one key in gffutils; such inputs are judged like any other, the failure carries the kind of the finding's class
    KIND = "id_used_as_gene_and_transcript" if {r[2] for r in recs} & {r[3] for r in recs} else "input_check_accepts_inconsistent_annotation"
    if len(ids) != len(set(ids)):
        if ok:
            fails.append((KIND, "a repeated gene / transcript record is accepted: %s" % recs))
        return fails
    try:
        ans, _, prob = impl_db_of(recs, G.IN_SEQS)
    except Exception:       # gffutils refuses the file
        return fails
    split = [r for r in prob["relations"] if r[1] != r[3]]
    if ok and split:
        fails.append((KIND,
                      "check_gtf_duplicates accepts, but %s (%s) is a child of %s (%s)" % (split[0][2], split[0][3], split[0][0], split[0][1])))
    if ans["accepted"]:
        loc = dict((c, set(l)) for c, l in ans["located"])
        for c, l in ans["printed"]:
            if not set(l) <= loc[c]:
                fails.append((KIND,
                              "check_db_sequences accepts, but %s prints %s, located elsewhere" % (c, sorted(set(l) - loc[c]))))
                break
    return fails


# ------------------------------------------------------------------------------------------------
# GFFPrinter.dump on the real class (stub gene_info, real TranscriptModel, real FeatureIdStorage)

def impl_dump(kw):
    """kw: chr, genedb (exon reference or None), dumps=[{printer: 0|1, gene_chr, gene_regions: {gid: [s,e]} | None,
    models: [{chr, strand, tid, gid, exons, other: [[s,e,type]]}]}]  -> per dump the list of printed id lines"""
    IP, GB, GI, IG, IA, TP = _impl()
    d = vlib.scratch_dir("isoverif_c17_dump_")
    try:
        st = make_storage({"dist": None, "genedb": kw["genedb"], "chr": kw["chr"]})
        printers = [TP.GFFPrinter(d, "p%d" % i, st, gtf_suffix=".gtf", output_r2t=False) for i in range(2)]
        sizes = [0, 0]
        out = []
        for dump in kw["dumps"]:
            pr = printers[dump["printer"]]
            regions = None if dump["gene_regions"] is None else {g: (a, b) for g, a, b in dump["gene_regions"]}
            gi = types.SimpleNamespace(chr_id=dump["gene_chr"], feature_attributes={}, sources={},
                                       empty=(lambda r=regions: r is None),
                                       get_gene_regions=(lambda r=regions: {k: tuple(v) for k, v in (r or {}).items()}))
            models = [GI.TranscriptModel(m["chr"], m["strand"], m["tid"], m["gid"], [tuple(e) for e in m["exons"]],
                                         GI.TranscriptModelType.novel_not_in_catalog,
                                         other_features=[tuple(o) for o in m["other"]]) for m in dump["models"]]
            try:
                pr.dump(gi, models)
                err = None
            except Exception as ex:
                err = type(ex).__name__
            pr.out_gff.flush()
            recs = P.parse_gtf(pr.model_fname)
            new = recs[sizes[dump["printer"]]:]
            sizes[dump["printer"]] = len(recs)
            if err:
                out.append({"error": "error"})
                break       # the model stops at the first assertion as well
            out.append([gtf_id_line(r) for r in new])
        for pr in printers:
            pr.out_gff.close()
            pr.output_r2t = False
        return out
    finally:
        shutil.rmtree(d, ignore_errors=True)


def gtf_id_line(r):
    a = r["attrs"]
    if r["feature"] == "gene":
        return ["gene", r["start"], r["end"], r["strand"], a.get("gene_id"), None, None]
    if r["feature"] == "transcript":
        return ["transcript", r["start"], r["end"], r["strand"], a.get("gene_id"), a.get("transcript_id"), None]
    return [r["feature"], r["start"], r["end"], r["strand"], a.get("gene_id"), a.get("transcript_id"),
            [int(a.get("exon_number", "0")), a.get("exon_id")]]


# ------------------------------------------------------------------------------------------------
# correspondence

def gen_cases(ctx):
    rng = ctx.rng
    quick = QUICK(ctx)
    cases = []
    # int() and split: exhaustive small universe + random
    small = G.all_small_strings(G.INT_ALPHABET_SMALL, 3)
    ctx.extra["int_universe"] = {"alphabet": G.INT_ALPHABET_SMALL, "max_len": 3, "count": len(small)}
    for s in small:
        cases.append(("py_int", {"s": s}))
    for s in G.all_small_strings([".", "_", "a", "1"], 4):
        cases.append(("py_split", {"s": s, "sep": "."}))
        cases.append(("py_split", {"s": s, "sep": "_"}))
    for _ in range(600 if quick else 6000):
        cases.append(("py_int", {"s": G.rand_int_string(rng)}))
    for n in list(range(0, 130)) + [10 ** k for k in range(3, 25)] + [10 ** k - 1 for k in range(3, 25)] + \
            [rng.randint(0, 10 ** 30) for _ in range(100)]:
        cases.append(("py_int", {"s": str(n)}))
    # single-id parse
    for _ in range(400 if quick else 4000):
        chrom = rng.choice(G.CHROMS)
        cases.append(("gene_number", {"id": G.rand_gene_id(rng, chrom)}))
        cases.append(("transcript_number", {"id": G.rand_transcript_id(rng, chrom)}))
    # formatting with large numbers and odd chromosome names (through the real construction code)
    for _ in range(60 if quick else 600):
        chrom = rng.choice(G.CHROMS)
        n = rng.choice([rng.randint(2, 30), rng.randint(2, 10 ** 6), 10 ** rng.randint(1, 20)])
        cases.append(("fmt_transcript", {"n": n, "chr": chrom, "nic": rng.random() < 0.5}))
        cases.append(("fmt_gene", {"n": n, "chr": chrom}))
        cases.append(("fmt_exon", {"n": n, "chr": chrom}))
    # increment histories and event histories against reference id lists
    for _ in range(300 if quick else 3000):
        chrom = rng.choice(G.CHROMS)
        genes, transcripts = G.rand_ref_ids(rng, chrom)
        gdb = None if rng.random() < 0.05 else {"genes": genes, "transcripts": transcripts}
        cases.append(("increments", {"genedb": gdb, "n": rng.randint(0, 40)}))
        cases.append(("events", {"genedb": gdb, "chr": chrom, "events": G.rand_events(rng)}))
    # get_id histories
    for _ in range(400 if quick else 4000):
        chrom = rng.choice(G.CHROMS + [""] if rng.random() < 0.05 else G.CHROMS)
        feats = G.rand_exon_reference(rng, chrom)
        genedb = None if rng.random() < 0.1 else feats
        dist = None
        if rng.random() < 0.2:
            g, t = G.rand_ref_ids(rng, chrom)
            dist = {"genes": g, "transcripts": t}
        calls = G.rand_calls(rng, chrom, feats)
        if rng.random() < 0.1:      # a call for another chromosome through the same storage
            calls = [(rng.choice(G.CHROMS),) + tuple(c[1:]) if rng.random() < 0.3 else c for c in calls]
        cases.append(("exon_history", {"dist": dist, "genedb": genedb, "chr": chrom, "calls": calls}))
    # non-functional / non-injective references (last record wins) are part of the modelled behaviour too
    for _ in range(60 if quick else 600):
        chrom = rng.choice(G.CHROMS)
        feats = G.rand_exon_reference(rng, chrom, n_max=6)
        for e in list(feats):
            if rng.random() < 0.5:
                feats.append({"start": e["start"], "end": e["end"], "strand": e["strand"],
                              "attr": [rng.choice(["%s.1" % chrom, "%s.2" % chrom, "Q"])]})
        cases.append(("exon_history", {"dist": None, "genedb": feats, "chr": chrom, "calls": G.rand_calls(rng, chrom, feats)}))
    # references that carry exon_id on records of other types as well (GENCODE; every extended_annotation.gtf written by
    # IsoQuant): CDS / UTR / codon records next to the exon records; stub genedb and REAL gffutils databases
    for i in range(300 if quick else 3000):
        chrom = rng.choice(G.CHROMS)
        recs = G.rand_record_reference(rng, chrom)
        dist = None
        if rng.random() < 0.15:
            g, t = G.rand_ref_ids(rng, chrom)
            dist = {"genes": g, "transcripts": t}
        kw = {"dist": dist, "genedb": recs, "chr": chrom, "calls": G.rand_calls(rng, chrom, recs)}
        if i % 5 == 0 and chrom:
            kw["real_db"] = True
            kw["genedb"] = [dict(e, attr=e["attr"] or None) for e in recs]      # GTF text cannot hold an empty value list
        cases.append(("exon_history", kw))
    # GFFPrinter.dump
    if HAVE_PRINTER:
        from gen import ids_printer as GP
        for _ in range(150 if quick else 1500):
            cases.append(("dump", GP.rand_dump_case(rng)))
        for _ in range(80 if quick else 800):
            cases.append(("dump", GP.rand_dump_case(rng, records=True)))
    if HAVE_INPUT:
        cases += input_cases(ctx)
    return cases


def nontrivial(op, kw, mo):
    if vlib.is_err(mo):
        return False
    if op in ("gene_number", "transcript_number"):
        return mo is not None
    if op in ("increments", "exon_history", "py_split", "dump"):
        return len(mo) > 0
    if op == "events":
        return len(mo["models"]) > 0
    if op == "check_gtf":
        return len(mo["out"]) > 1
    if op == "db_of":
        return any(l for _, l in mo["printed"])
    return True


def correspondence(ctx):
    cases = gen_cases(ctx)
    lines = [vlib.req("C17." + op, **kw) for op, kw in cases]
    outs = ctx.driver.run(lines)
    stub_bad = None
    for (op, kw), mo in zip(cases, outs):
        ctx.evaluations += 1
        ctx.count("op:" + op)
        if isinstance(mo, dict) and "driver_error" in mo:
            ctx.disagree(op, kw, mo, None)
            continue
        if op == "db_of":
            mo = canon_db(mo)
        try:
            io = vlib.canon(impl_call(op, kw))
        except StubUnavailable as ex:
            stub_bad = str(ex)
            ctx.count("stub_unavailable")
            continue
        ctx.traces_validated += 1
        if vlib.is_err(mo):
            ctx.count("model_error")
        if not vlib.same(mo, io):
            ctx.disagree(op, kw, mo, io)
        elif nontrivial(op, kw, mo):
            ctx.mark_nontrivial([op, kw])
            if op == "events":
                for ev in kw["events"]:
                    ctx.count("event:" + ev["kind"])
            if op == "check_gtf":
                ctx.count("check_gtf:" + ("accepted" if mo["ok"] else "rejected"))
            if op == "db_of":
                ctx.count("db_of:" + ("accepted" if mo["accepted"] else "rejected"))
            if op == "exon_history":
                ctx.count("exon_history_calls", len(kw["calls"]))
                if any(e.get("type", "exon") != "exon" and e["attr"] for e in kw["genedb"] or []):
                    ctx.count("exon_history_ref_with_non_exon_ids" + ("_real_gffutils" if kw.get("real_db") else ""))
        if len(ctx.samples) < 8 and ctx.rng.random() < 0.004:
            ctx.sample({"op": op, "input": vlib.canon(kw), "model": mo, "impl": io})
    if stub_bad:
        ctx.notes.append("construction stubs no longer fit the real class (%s): formatting is then tied by the "
                         "pipeline-level correspondence only" % stub_bad)
    pipeline_correspondence(ctx)
    if not ctx.samples and cases:
        ctx.sample({"op": cases[0][0], "input": vlib.canon(cases[0][1]), "model": outs[0]})


# ------------------------------------------------------------------------------------------------
# pipeline runs (shared by correspondence and oracle; cached per check run)

_RUNS = {}


def scenario_seeds(ctx):
    n = 4 if QUICK(ctx) else 30
    return [TOY_SEED, TOY_SUBSET_SEED, TWO_CHR_GENE_SEED, TWO_CHR_GENE_DB_SEED, TWO_CHR_TID_DB_SEED] + \
        [ctx.seed * 7 + i for i in range(n)]


TOY_SEED = -1      # scenario id of the toy data of the repository (real annotation with exon_id, CDS, UTR features)
TOY_SUBSET_SEED = -2       # the same, run 1 sees every third read only: run 2 (reference = run 1's extended annotation,
#                            whose CDS / codon / UTR lines carry exon_ids of their own) has many NEW exons to number
TWO_CHR_GENE_SEED = -3     # one gene_id AND one transcript_id on two chromosomes, gene / transcript records inferred by gffutils
#                            (no --complete_genedb); GTF input, followed through IsoQuant's own <name>.corrected.gtf
TWO_CHR_GENE_DB_SEED = -4  # one gene_id on two chromosomes, the annotation given as a gffutils database (options of src/gtf2db.py)
TWO_CHR_TID_DB_SEED = -5   # gene ids distinct per sequence, one transcript_id on both (the shape of the corrected GTF), as database


def run_toy(seed=TOY_SEED):
    key = (seed, P.REPO)
    if key in _RUNS:
        return _RUNS[key]
    d = P.scratch("isoverif_c17_toy_")
    res = {"seed": seed, "runs": [], "chroms": ["chr9"], "error": None}
    try:
        paths = P.copy_toy(os.path.join(d, "data"))
        if not all(k in paths for k in ("bam", "ref", "gtf")):
            res["error"] = "toy data missing"
            return res
        p1 = paths
        if seed == TOY_SUBSET_SEED:
            import pysam
            sub = os.path.join(d, "data", "third.bam")
            with pysam.AlignmentFile(paths["bam"]) as src, pysam.AlignmentFile(sub, "wb", template=src) as out:
                for i, r in enumerate(src):
                    if i % 3 == 0:
                        out.write(r)
            pysam.index(sub)
            p1 = dict(paths, bam=sub)
        rc, log = P.run_isoquant(os.path.join(d, "out1"), P.std_args(p1, threads=2), home=os.path.join(d, "home"))
        if rc != 0:
            res["error"] = "toy run1 rc=%s: %s" % (rc, log[-800:])
            return res
        of1 = P.out_files(os.path.join(d, "out1"))
        res["runs"].append(collect_run(paths["gtf"], of1))
        ref2 = os.path.join(d, "data", "prev_extended.gtf")
        shutil.copy(of1["S.extended_annotation.gtf"], ref2)
        p2 = dict(paths, gtf=ref2)
        rc, log = P.run_isoquant(os.path.join(d, "out2"), P.std_args(p2, threads=2), home=os.path.join(d, "home"))
        if rc != 0:
            res["error"] = "toy run2 rc=%s: %s" % (rc, log[-800:])
            return res
        res["runs"].append(collect_run(ref2, P.out_files(os.path.join(d, "out2"))))
        return res
    finally:
        _RUNS[key] = res
        shutil.rmtree(d, ignore_errors=True)


PLANS = [
    # the reference of generation 1 in the form `form`; `gens` generations, each on the extended annotation of the one before
    # (the last one sees all reads); `last_complete`: the last generation with / without --complete_genedb; `tm_feedback`: one
    # more run whose reference is the transcript_models.gtf of generation 1; `no_genedb`: one more run without annotation
    dict(pool=0, threads=1, flags=["--check_canonical"], form="gtf", gens=3, last_complete=True, tm_feedback=False, no_genedb=False),
    dict(pool=1, threads=4, flags=["--count_exons"], form="db", gens=2, last_complete=True, tm_feedback=True, no_genedb=False),
    dict(pool=2, threads=2, flags=[], form="gff3", gens=3, last_complete=False, tm_feedback=False, no_genedb=False),
    dict(pool=0, threads=2, flags=[], form="gtf", gens=2, last_complete=True, tm_feedback=False, no_genedb=True),
]


def scenario_plan(seed):
    return PLANS[seed % len(PLANS)]


def run_scenario(seed, keep=False):
    """pipeline runs of one synthetic scenario, options / input form / number of generations rotated by `scenario_plan`:
    generation 1 = visible annotation + reads of a subset of genes; every further generation uses the
    extended_annotation.gtf of the one before as reference and sees more reads (the last one all of them).
    Returns dict with parsed reference / output records per run (cached)."""
    if seed in (TOY_SEED, TOY_SUBSET_SEED):
        return run_toy(seed)
    if seed in SHARED_VARIANTS:
        return run_two_chr_gene(seed)
    key = (seed, P.REPO)
    if key in _RUNS:
        return _RUNS[key]
    plan = scenario_plan(seed)
    sc = G.build_scenario(seed, n_chroms=3 if seed % 2 else 2, genes_per_chrom=4, name_pool=G.NAME_POOLS[plan["pool"]])
    d = P.scratch("isoverif_c17_pipe_")
    res = {"seed": seed, "runs": [], "chroms": sc["chroms"], "error": None, "plan": plan, "labels": []}
    home = os.path.join(d, "home")
    try:
        extra = (["--report_novel_unspliced", "true"] if seed % 3 == 0 else []) + plan["flags"]
        # generation g of n sees the reads of the genes with index <= what the filter lets through
        filters = {2: [r"_[13]_[abc]_", None], 3: [r"_[13]_[abc]_", r"_3_[abc]_", None]}[plan["gens"]]

        def one_run(label, data, ref_gtf, form, complete=True, genedb=True):
            """ref_gtf: the annotation as GTF text file (what `ref` is parsed from); handed over in the form `form`"""
            ann = ref_gtf
            if genedb and form == "db":
                ann = os.path.join(os.path.dirname(ref_gtf), "ann_%s.db" % label)
                G.gtf_to_db(ref_gtf, ann, complete=complete)
            elif genedb and form == "gff3":
                ann = data["gff3"]
            args = P.std_args(dict(data, gtf=ann), threads=plan["threads"], genedb=genedb, extra=extra)
            if not complete:
                args = [a for a in args if a != "--complete_genedb"]
            out = os.path.join(d, "out_" + label)
            rc, log = P.run_isoquant(out, args, home=home)
            if rc != 0:
                res["error"] = "%s rc=%s: %s" % (label, rc, log[-800:])
                return None
            of = P.out_files(out)
            res["runs"].append(collect_run(ref_gtf if genedb else None, of))
            res["labels"].append(label)
            return of

        prev = None
        of1 = None
        for g, flt in enumerate(filters, 1):
            data = G.write_scenario(sc, os.path.join(d, "data%d" % g),
                                    read_filter=(lambda r, f=flt: not re.search(f, r["name"])) if flt else None)
            if prev is None:
                of = one_run("gen1", data, data["gtf"], plan["form"])
                of1 = of
            else:
                ref = os.path.join(d, "data%d" % g, "prev_extended.gtf")
                shutil.copy(prev["S.extended_annotation.gtf"], ref)
                last = g == len(filters)
                of = one_run("gen%d" % g, data, ref, "db" if plan["form"] == "db" else "gtf",
                             complete=plan["last_complete"] if last else True)
            if of is None:
                return res
            prev = of
        if plan["tm_feedback"]:
            ref = os.path.join(d, "data%d" % len(filters), "prev_models.gtf")
            shutil.copy(of1["S.transcript_models.gtf"], ref)
            if one_run("tm_feedback", data, ref, "gtf") is None:
                return res
        if plan["no_genedb"]:
            if one_run("no_genedb", data, None, "gtf", genedb=False) is None:
                return res
        return res
    finally:
        _RUNS[key] = res
        shutil.rmtree(d, ignore_errors=True)


SHARED_VARIANTS = {
    # seed: (share the transcript_id as well, form of the annotation handed to --genedb)
    -3: (True, "gtf"),       # TWO_CHR_GENE_SEED
    -4: (False, "db"),       # TWO_CHR_GENE_DB_SEED
    -5: (True, "db"),        # TWO_CHR_TID_DB_SEED
}


def shared_id_annotation(path, share_transcript, rename_second_gene=False):
    """rewrites the scenario annotation in the style of the UCSC / RefSeq GTFs: no gene / transcript records (gffutils
    infers them; the run is made without --complete_genedb), gene_id SHARED on two chromosomes (PAR genes, alternative
    haplotypes) and - `share_transcript` - the same transcript_id TSHARED for the `_a` isoform of the two loci, as these
    files have it.  `rename_second_gene`: the gene of the second sequence is called SHARED.<seq> (exactly what the
    <name>.corrected.gtf written by IsoQuant contains)"""
    lines = []
    with open(path) as f:
        for l in f:
            c = l.rstrip("\n").split("\t")
            if c[2] in ("gene", "transcript"):
                continue
            second = 'gene_id "G1_1"' in c[8]
            c[8] = c[8].replace('gene_id "G0_1"', 'gene_id "SHARED"').replace(
                'gene_id "G1_1"', 'gene_id "SHARED%s"' % ("." + c[0] if rename_second_gene and second else ""))
            if share_transcript:
                c[8] = c[8].replace('transcript_id "T0_1_a"', 'transcript_id "TSHARED"').replace(
                    'transcript_id "T1_1_a"', 'transcript_id "TSHARED"')
            if c[2] == "exon":
                c[8] += ' exon_id "E%s_%s_%s";' % (c[0], c[3], c[4])
            lines.append("\t".join(c))
    with open(path, "w") as f:
        f.write("\n".join(lines) + "\n")


REJECTED = re.compile(r"is used on several sequences|lies on another sequence")


def loud_rejection(rc, log):
    """the run stopped before any output was written and the log names the id that is used on several sequences"""
    return rc != 0 and bool(REJECTED.search(log)) and ("SHARED" in log)


def run_two_chr_gene(seed=None):
    """one gene_id (and, variant, one transcript_id) on two chromosomes in a reference without gene / transcript records.
    DESIGN section 6, C03 rule (d): such an annotation is malformed and must be rejected by the input check - whatever form it
    is given in (GTF, gffutils database).  A rejected GTF comes with <name>.corrected.gtf, which IsoQuant tells the user to
    check / use: the scenario follows that advice (at most 3 times) and the run on the corrected file is held to the
    whole property.  Outcomes: `rejected_loudly` (every step rejected and named the id) or the parsed outputs of the
    first accepted run together with the annotation that run was given."""
    seed = TWO_CHR_GENE_SEED if seed is None else seed
    key = (seed, P.REPO)
    if key in _RUNS:
        return _RUNS[key]
    share_t, form = SHARED_VARIANTS[seed]
    sc = G.build_scenario(11, n_chroms=2, genes_per_chrom=3, exon_id_attrs=False, isoquant_style_ref=False)
    d = P.scratch("isoverif_c17_g2_")
    res = {"seed": seed, "runs": [], "chroms": sc["chroms"], "error": None, "steps": []}
    try:
        p = G.write_scenario(sc, os.path.join(d, "data"), cds=False)
        shared_id_annotation(p["gtf"], share_t, rename_second_gene=(share_t and form == "db"))
        gtf = p["gtf"]
        for step in range(4):
            ann = gtf
            if form == "db":
                ann = os.path.join(d, "data", "ann%d.db" % step)
                G.gtf_to_db(gtf, ann, complete=False)
            args = [a for a in P.std_args(dict(p, gtf=ann), threads=2) if a != "--complete_genedb"]
            out = os.path.join(d, "out%d" % step)
            rc, log = P.run_isoquant(out, args, home=os.path.join(d, "home"))
            if rc == 0:
                res["steps"].append("accepted")
                res["runs"].append(collect_run(gtf, P.out_files(out)))
                return res
            if not loud_rejection(rc, log):
                res["error"] = "run rc=%s: %s" % (rc, log[-800:])
                return res
            res["steps"].append("rejected")
            corrected = [os.path.join(out, fn) for fn in sorted(os.listdir(out)) if ".corrected." in fn] if os.path.isdir(out) else []
            if not corrected or step == 3:
                # (a database input has no corrected version; the message asks for the GTF)
                res["rejected_loudly"] = True
                return res
            gtf = os.path.join(d, "data", "ann.corrected%d.gtf" % step)
            shutil.copy(corrected[0], gtf)
        return res
    finally:
        _RUNS[key] = res
        shutil.rmtree(d, ignore_errors=True)


def collect_run(ref_gtf, of):
    return {"ref": P.parse_gtf(ref_gtf) if ref_gtf else [],
            "tm": P.parse_gtf(of["S.transcript_models.gtf"]) if "S.transcript_models.gtf" in of else [],
            "ext": P.parse_gtf(of["S.extended_annotation.gtf"]) if "S.extended_annotation.gtf" in of else []}


def exon_key(r):
    return (r["chr"], r["start"], r["end"], r["strand"])


def chrom_order(recs):
    seen = []
    for r in recs:
        if r["chr"] not in seen:
            seen.append(r["chr"])
    return seen


NOVEL_T = re.compile(r"^transcript(\d+)\.")
NOVEL_G = re.compile(r"_(\d+)$")


def pipeline_correspondence(ctx):
    """the exon_id sequence printed by the real pipeline for a chromosome (transcript_models part, then
    extended_annotation part: both printers share the chromosome's storage) equals the model's answer to the
    same call history; every novel transcript / gene id equals the model's format of (number, chromosome)"""
    for seed in scenario_seeds(ctx):
        res = run_scenario(seed)
        if res["error"]:
            ctx.notes.append("pipeline scenario %d failed: %s" % (seed, res["error"]))
            ctx.disagree("pipeline_run", {"seed": seed}, None, res["error"][:300])
            continue
        for ri, run in enumerate(res["runs"]):
            # (a reference without gene / transcript records: gffutils infers them from the exon records)
            ref_t = {r["attrs"].get("transcript_id") for r in run["ref"] if r["feature"] in ("transcript", "mRNA", "exon")}
            ref_g = {r["attrs"].get("gene_id") for r in run["ref"] if r["feature"] in ("gene", "exon")}
            lines, meta = [], []
            for chrom in sorted({r["chr"] for r in run["ref"] + run["tm"] + run["ext"]}):
                # the records of every type that carry exon_id, in file order (+ the exon records without one)
                feats = [{"start": r["start"], "end": r["end"], "strand": r["strand"], "type": r["feature"],
                          "attr": [r["attrs"]["exon_id"]] if "exon_id" in r["attrs"] else None}
                         for r in run["ref"] if (r["feature"] == "exon" or "exon_id" in r["attrs"]) and r["chr"] == chrom]
                printed = [r for r in run["tm"] + run["ext"] if r["chr"] == chrom and "exon_id" in r["attrs"]]
                lines.append(vlib.req("C17.exon_history", dist=None, genedb=feats, chr=chrom,
                                      calls=[list(exon_key(r)) for r in printed]))
                meta.append(("exon_history", {"seed": seed, "run": ri, "chr": chrom}, [r["attrs"]["exon_id"] for r in printed]))
            for recs in (run["tm"], run["ext"]):
                for r in recs:
                    if r["feature"] == "transcript" and r["attrs"]["transcript_id"] not in ref_t:
                        tid = r["attrs"]["transcript_id"]
                        m = NOVEL_T.match(tid)
                        n = int(m.group(1)) if m else 0
                        lines.append(vlib.req("C17.fmt_transcript", n=n, chr=r["chr"], nic=tid.endswith(".nic")))
                        meta.append(("fmt_transcript", {"seed": seed, "run": ri, "id": tid}, tid))
                    if r["feature"] == "gene" and r["attrs"]["gene_id"] not in ref_g:
                        gid = r["attrs"]["gene_id"]
                        m = NOVEL_G.search(gid)
                        n = int(m.group(1)) if m else 0
                        lines.append(vlib.req("C17.fmt_gene", n=n, chr=r["chr"]))
                        meta.append(("fmt_gene", {"seed": seed, "run": ri, "id": gid}, gid))
            outs = ctx.driver.run(lines)
            for (op, inp, impl), mo in zip(meta, outs):
                ctx.evaluations += 1
                ctx.traces_validated += 1
                ctx.count("pipeline:" + op)
                if mo != impl:
                    ctx.disagree("pipeline_" + op, inp, mo if op != "exon_history" else first_diff(mo, impl), impl if op != "exon_history" else None)
                elif impl:
                    ctx.mark_nontrivial(["pipeline_" + op, inp])


def first_diff(mo, impl):
    if not isinstance(mo, list):
        return mo
    for i, (a, b) in enumerate(zip(mo, impl)):
        if a != b:
            return {"index": i, "model": a, "impl": b}
    return {"len_model": len(mo), "len_impl": len(impl)}


# ------------------------------------------------------------------------------------------------
# oracle: the property itself on the real code

def check_ids_inproc(chrom, genes, transcripts, events):
    """-> list of (kind, detail) for one reference + event history on the real code"""
    d = make_distributor({"genes": genes, "transcripts": transcripts}, chrom)
    r = run_events_impl(chrom, d, events)
    fails = []
    tids = [m[0] for m in r["models"]]
    dup = [t for t, c in collections.Counter(tids).items() if c > 1]
    if dup:
        fails.append(("transcript_id_duplicate", "novel transcript id issued twice: %s" % dup[:3]))
    # genes created for the models (an event with gene=None creates one)
    new_genes = []
    it = iter(r["models"])
    for ev in events:
        if ev["kind"] == "fl_discard" or (ev["kind"] == "monoexon" and not ev["valid"]):
            continue
        m = next(it)
        if ev["kind"] == "monoexon" or ev.get("gene") is None:
            new_genes.append(m[1])
    dup = [t for t, c in collections.Counter(new_genes).items() if c > 1]
    if dup:
        fails.append(("gene_id_duplicate", "new gene id issued twice: %s" % dup[:3]))
    col = [t for t in tids if t in set(transcripts)] + [g for g in new_genes if g in set(genes)]
    if col:
        fails.append(("novel_id_collides_with_reference", "novel id equals a reference id of the chromosome: %s" % col[:3]))
    return fails


def ref_maps(chrom, feats):
    """the reference ids of the EXON records (docs/C17.md §3: `exon_id` names the exon; "preserved" and "distinct" are
    read on the exon records): key -> ids, id -> keys"""
    by_key, by_id = collections.defaultdict(set), collections.defaultdict(set)
    for e in feats or []:
        if e["attr"] and e.get("type", "exon") == "exon":
            k = (chrom, e["start"], e["end"], e["strand"])
            by_key[k].add(e["attr"][0])
            by_id[e["attr"][0]].add(k)
    return by_key, by_id


def ref_any(chrom, feats):
    """every exon_id value of the chromosome's reference records of ANY feature type: (chr, id) -> {key: feature type}"""
    res = {}
    for e in feats or []:
        if e["attr"]:
            res.setdefault((chrom, e["attr"][0]), {}).setdefault((chrom, e["start"], e["end"], e["strand"]), e.get("type", "exon"))
    return res


def check_exon_history(ids_by_call, ref_by_key, ref_by_id, ref_all=None):
    """ids_by_call: list of (key, id).  Property: same key <-> same id; reference ids preserved; an interval without a
    reference id of its own (no exon record with exon_id) gets an id that no reference record of its chromosome - of any
    feature type - carries.  A reference that is itself not functional / injective at a key or id is outside the domain
    for that key / id."""
    fails = []
    for k, i in ids_by_call:
        # (an interval that is given the very id a non-exon record of the SAME interval carries in the reference is no
        # collision: the id still names that interval)
        if k not in ref_by_key and ref_all and (k[0], i) in ref_all and k not in ref_all[(k[0], i)]:
            other, ft = sorted(ref_all[(k[0], i)].items())[0]
            fails.append(("exon_id_collides_with_reference",
                          "new id %r of %s is the exon_id of the reference %s record %s" % (i, k, ft, other)))
            break
    k2i, i2k = collections.defaultdict(set), collections.defaultdict(set)
    for k, i in ids_by_call:
        k2i[k].add(i)
        i2k[i].add(k)
    bad = {k: sorted(map(str, v)) for k, v in k2i.items() if len(v) > 1}
    if bad:
        k = sorted(bad)[0]
        fails.append(("exon_id_not_functional", "exon %s printed with ids %s" % (k, bad[k])))
    for i, ks in sorted(i2k.items(), key=lambda x: str(x[0])):
        if len(ks) > 1:
            if len(ref_by_id.get(i, ())) > 1 and ks <= ref_by_id[i]:
                continue        # the reference itself gives this id to several exons
            fails.append(("exon_id_not_injective", "id %r carried by distinct exons %s" % (i, sorted(ks)[:3])))
            break
    for k, v in k2i.items():
        r = ref_by_key.get(k)
        if r and len(r) == 1 and v != r:
            fails.append(("exon_id_reference_not_preserved", "exon %s has reference id %s, printed %s" % (k, sorted(r), sorted(map(str, v)))))
            break
    return fails


def check_storage_inproc(chrom, feats, calls, real_db=False):
    st = make_storage({"dist": None, "genedb": feats, "chr": chrom, "real_db": real_db})
    got = [(tuple(c), st.get_id(c[0], (c[1], c[2]), c[3])) for c in calls]
    rk, ri = ref_maps(chrom, feats)
    return check_exon_history(got, rk, ri, ref_any(chrom, feats))


def check_cross_chr_inproc(ca, cb, feats_a, feats_b, calls_a, calls_b):
    sa = make_storage({"dist": None, "genedb": feats_a, "chr": ca})
    sb = make_storage({"dist": None, "genedb": feats_b, "chr": cb})
    ga = [(tuple(c), sa.get_id(c[0], (c[1], c[2]), c[3])) for c in calls_a]
    gb = [(tuple(c), sb.get_id(c[0], (c[1], c[2]), c[3])) for c in calls_b]
    rka, ria = ref_maps(ca, feats_a)
    rkb, rib = ref_maps(cb, feats_b)
    rk = dict(rka)
    rk.update(rkb)
    ri = collections.defaultdict(set)
    for m in (ria, rib):
        for i, ks in m.items():
            ri[i] |= ks
    return check_exon_history(ga + gb, rk, ri)


def transcript_blocks(recs):
    """the transcript lines of an output GTF, each with the exon lines that follow it (GFFPrinter writes a transcript
    line and then its exon / CDS / ... lines), so that two transcript lines with one id stay two transcripts"""
    blocks = []
    for r in recs:
        if r["feature"] == "transcript":
            blocks.append((r, []))
        elif r["feature"] == "exon" and blocks and blocks[-1][0]["attrs"].get("transcript_id") == r["attrs"].get("transcript_id") \
                and blocks[-1][0]["chr"] == r["chr"]:
            blocks[-1][1].append((r["start"], r["end"]))
        elif r["feature"] == "exon":
            blocks.append((None, [(r["start"], r["end"])]))      # an exon line outside its transcript's block
    return blocks


def check_outputs(run):
    """the property on the GTFs of one pipeline run -> list of (kind, detail).  The reference is indexed by
    (sequence, id): nothing here assumes that the reference ids are globally unique (DESIGN section 6, C03 rule (d): an id used
    on several sequences must have been rejected, so a run that got this far is held to the statement as it stands)"""
    fails = []
    ref_t, ref_g = {}, {}
    ref_ex = collections.defaultdict(list)
    tid_chrs, gene_chrs = collections.defaultdict(set), collections.defaultdict(set)
    for r in run["ref"]:
        a = r["attrs"]
        if r["feature"] in ("transcript", "mRNA"):
            ref_t[(r["chr"], a.get("transcript_id"))] = r["strand"]
        elif r["feature"] == "gene":
            ref_g.setdefault(a.get("gene_id"), r["chr"])
        elif r["feature"] == "exon":
            ref_ex[(r["chr"], a.get("transcript_id"))].append((r["start"], r["end"]))
        if r["feature"] != "gene" and "transcript_id" in a:
            tid_chrs[a["transcript_id"]].add(r["chr"])
        if "gene_id" in a:
            gene_chrs[a["gene_id"]].add(r["chr"])
    # a reference without gene / transcript records (gffutils infers them)
    for r in run["ref"]:
        if r["feature"] == "exon":
            ref_t.setdefault((r["chr"], r["attrs"].get("transcript_id")), r["strand"])
    for g, cs in gene_chrs.items():
        ref_g.setdefault(g, sorted(cs)[0])
    t_gene = {(r["chr"], r["attrs"].get("transcript_id")): r["attrs"].get("gene_id") for r in run["ref"] if r["feature"] == "exon"}
    rk, ri, rall = collections.defaultdict(set), collections.defaultdict(set), {}
    for r in run["ref"]:
        if "exon_id" in r["attrs"]:
            rall.setdefault((r["chr"], r["attrs"]["exon_id"]), {}).setdefault(exon_key(r), r["feature"])
        if r["feature"] == "exon" and "exon_id" in r["attrs"]:
            rk[exon_key(r)].add(r["attrs"]["exon_id"])
            ri[r["attrs"]["exon_id"]].add(exon_key(r))
    for name in ("tm", "ext"):
        recs = run[name]
        tids = [r["attrs"]["transcript_id"] for r in recs if r["feature"] == "transcript"]
        dup = sorted(t for t, c in collections.Counter(tids).items() if c > 1)
        if dup:
            fails.append(("transcript_id_duplicate", "%s: transcript_id on several transcript lines: %s" % (name, dup[:3])))
        gids = [r["attrs"]["gene_id"] for r in recs if r["feature"] == "gene"]
        dup = sorted(t for t, c in collections.Counter(gids).items() if c > 1)
        if dup:
            fails.append(("gene_id_duplicate", "%s: gene_id on several gene lines: %s" % (name, dup[:3])))
        # an output transcript that carries a reference id must be that reference transcript
        blocks = transcript_blocks(recs)
        if any(b[0] is None for b in blocks):
            fails.append(("transcript_id_duplicate", "%s: exon lines outside the block of their transcript line" % name))
        for r, out_ex in blocks:
            if r is None:
                continue
            t = r["attrs"]["transcript_id"]
            if t not in tid_chrs:
                continue
            here = (r["chr"], t)
            if here in ref_t and ref_t[here] == r["strand"] and sorted(ref_ex[here]) == sorted(out_ex):
                continue
            home = sorted(tid_chrs[t])
            g = t_gene.get((home[0], t))
            if len(home) > 1:
                fails.append(("reference_transcript_on_two_chromosomes",
                              "%s: transcript line %s on %s (%d exons) is none of the reference transcripts of that id "
                              "(the id occurs on %s with %s exons)"
                              % (name, t, r["chr"], len(out_ex), home, [len(ref_ex[(c, t)]) for c in home])))
                break
            if here not in ref_t and len(gene_chrs.get(g, ())) > 1:
                fails.append(("reference_gene_on_two_chromosomes",
                              "%s: reference transcript %s of %s is printed on %s (its gene_id %s occurs on %s)"
                              % (name, t, home[0], r["chr"], g, sorted(gene_chrs[g]))))
                break
            fails.append(("novel_id_collides_with_reference",
                          "%s: transcript %s differs from the reference transcript of that id" % (name, t)))
            break
        # genes: a reference gene id must stay on its chromosome; an IsoQuant-made gene is one locus
        g_tr = collections.defaultdict(list)
        for r, _ in blocks:
            if r is not None:
                g_tr[r["attrs"]["gene_id"]].append((r["chr"], r["start"], r["end"]))
        for g, trs in sorted(g_tr.items()):
            if g in ref_g and any(c not in gene_chrs.get(g, ()) for c, _, _ in trs):
                fails.append(("novel_id_collides_with_reference", "%s: gene %s of %s has transcripts on %s"
                              % (name, g, ref_g[g], sorted({c for c, _, _ in trs}))))
                break
            if g.startswith("novel_gene_"):
                if len({c for c, _, _ in trs}) > 1:
                    fails.append(("gene_id_duplicate", "%s: gene %s spans several chromosomes" % (name, g)))
                    break
                iv = sorted((a, b) for _, a, b in trs)
                end = iv[0][1]
                for a, b in iv[1:]:
                    if a > end:
                        fails.append(("gene_id_duplicate", "%s: gene id %s names two separate loci (%s)" % (name, g, iv[:4])))
                        break
                    end = max(end, b)
    calls = [(exon_key(r), r["attrs"]["exon_id"]) for r in run["tm"] + run["ext"] if "exon_id" in r["attrs"]]
    fails += check_exon_history(calls, rk, ri, rall)
    return fails


def py_validate(ex):
    ex = [tuple(e) for e in ex]
    return ex == sorted(ex) and all(0 < x[0] <= x[1] for x in ex)


def check_dump_case(case):
    """the property at the printer: every valid model is printed exactly once per dump, a gene line at most once
    per printer, and the exon_id column over both printers is functional / injective / reference-preserving"""
    out = impl_dump(case)
    fails = []
    gene_lines = {0: [], 1: []}
    calls = []
    for dump, lines in zip(case["dumps"], out):
        if vlib.is_err(lines):
            break
        want = sorted(m["tid"] for m in dump["models"] if py_validate(m["exons"]))
        got = sorted(l[5] for l in lines if l[0] == "transcript")
        if want != got:
            fails.append(("transcript_id_duplicate", "dump printed transcripts %s for valid models %s" % (got, want)))
        gene_lines[dump["printer"]] += [l[4] for l in lines if l[0] == "gene"]
        chr_of = {m["tid"]: m["chr"] for m in dump["models"]}
        for l in lines:
            if l[6] is not None:
                calls.append(((chr_of.get(l[5], case["chr"]), l[1], l[2], l[3]), l[6][1]))
    for p, gl in gene_lines.items():
        dup = sorted(g for g, c in collections.Counter(gl).items() if c > 1)
        if dup:
            fails.append(("gene_id_duplicate", "printer %d wrote the gene line of %s more than once" % (p, dup[:3])))
    rk, ri = ref_maps(case["chr"], case["genedb"])
    return fails + check_exon_history(calls, rk, ri, ref_any(case["chr"], case["genedb"]))


def replay_known_cross_chr():
    """known finding `reference_id_on_other_chromosome` on the real classes: the reference carries
    `transcript1.chrA.nnic` / exon_id `chrA.1` on chrB; chrA's own distributor / storage do not see them"""
    IP = _impl()[0]
    db = G.StubDB({"chrB": [G.StubFeature("transcript", "transcript1.chrA.nnic"),
                            G.StubFeature("exon", "e", 1, 2, "+", {"exon_id": ["chrA.1"]})], "chrA": []})
    d = IP.ExcludingIdDistributor(db, "chrA")
    r = run_events_impl("chrA", d, [{"kind": "fl_novel", "gene": "G", "nic": False}])
    st_a = IP.FeatureIdStorage(IP.SimpleIDDistributor(), db, "chrA", "exon")
    st_b = IP.FeatureIdStorage(IP.SimpleIDDistributor(), db, "chrB", "exon")
    ea = st_a.get_id("chrA", (5, 9), "+")
    eb = st_b.get_id("chrB", (1, 2), "+")
    hit = []
    if r["models"] and r["models"][0][0] == "transcript1.chrA.nnic":
        hit.append("novel transcript of chrA gets transcript1.chrA.nnic, an id the reference uses on chrB")
    if str(ea) == str(eb):
        hit.append("new exon of chrA and reference exon of chrB both carry exon_id %s" % ea)
    return hit


def oracle_case(case):
    k = case["level"]
    if k == "ids":
        return check_ids_inproc(case["chr"], case["genes"], case["transcripts"], case["events"])
    if k == "storage":
        return check_storage_inproc(case["chr"], case["genedb"], case["calls"], case.get("real_db", False))
    if k == "cross_chr":
        return check_cross_chr_inproc(case["a"], case["b"], case["feats_a"], case["feats_b"], case["calls_a"], case["calls_b"])
    if k == "dump":
        return check_dump_case(case["case"])
    if k == "input":
        return check_input_case(case["recs"])
    if k == "pipeline":
        res = run_scenario(case["seed"])
        # a run that aborts is a broken tie (recorded by pipeline_correspondence), not by itself an id failure;
        # the outputs that do exist are still checked
        fails = []
        for ri, run in enumerate(res["runs"]):
            fails += [(kind, "run %d: %s" % (ri + 1, det)) for kind, det in check_outputs(run)]
        return fails
    if k == "known_cross_chr":
        return [("reference_id_on_other_chromosome", h) for h in replay_known_cross_chr()]
    raise RuntimeError("unknown oracle case " + k)


def oracle(ctx, disagreements, broken):
    rng = ctx.rng
    quick = QUICK(ctx)
    n = 0
    stub_ok = True

    def run(case):
        nonlocal n, stub_ok
        n += 1
        try:
            fails = oracle_case(case)
        except StubUnavailable as ex:
            if stub_ok:
                ctx.notes.append("oracle: construction stubs unavailable (%s)" % ex)
            stub_ok = False
            return
        except Exception as ex:
            # the id code is total on these inputs (theorems increment_terminates / get_id_terminates); an exception
            # of the real code on a well-formed history is a concrete failure
            fails = [("id_code_raises", "%s: %s" % (type(ex).__name__, str(ex)[:300]))]
        seen = set()
        for kind, det in fails:
            if kind not in seen:
                seen.add(kind)
                ctx.fail(kind, case, det)

    # 1. the disagreeing inputs first
    for d in disagreements:
        inp = d["input"]
        if d["op"] == "events":
            g = inp["genedb"] or {"genes": [], "transcripts": []}
            run({"level": "ids", "chr": inp["chr"], "genes": g["genes"], "transcripts": g["transcripts"], "events": inp["events"]})
        elif d["op"] == "exon_history" and inp.get("dist") is None:
            run({"level": "storage", "chr": inp["chr"], "genedb": inp["genedb"], "calls": inp["calls"],
                 "real_db": bool(inp.get("real_db"))})
        elif d["op"] == "dump":
            run({"level": "dump", "case": inp})
        elif d["op"] in ("check_gtf", "db_of", "db_of_admissible"):
            run({"level": "input", "recs": inp["recs"]})
        elif d["op"].startswith("pipeline_") and "seed" in inp:
            run({"level": "pipeline", "seed": inp["seed"]})
        if len(ctx.failures) > 20:
            break
    # 2. normal generators, independent of the driver
    for _ in range(400 if quick else 4000):
        chrom = rng.choice(G.CHROMS)
        genes, transcripts = G.rand_ref_ids(rng, chrom, n_max=10)
        if rng.random() < 0.5:      # a reference written by an earlier run: ids of the novel shape with small numbers
            transcripts += ["transcript%d.%s.%s" % (rng.randint(1, 12), chrom, rng.choice(["nic", "nnic"])) for _ in range(rng.randint(1, 6))]
            genes += ["novel_gene_%s_%d" % (chrom, rng.randint(1, 12)) for _ in range(rng.randint(1, 4))]
        run({"level": "ids", "chr": chrom, "genes": genes, "transcripts": transcripts, "events": G.rand_events(rng, 10)})
        if len(ctx.failures) > 20:
            break
    for _ in range(600 if quick else 6000):
        chrom = rng.choice(G.CHROMS)
        feats = G.rand_exon_reference(rng, chrom, isoquant_style=0.6)
        run({"level": "storage", "chr": chrom, "genedb": feats, "calls": G.rand_calls(rng, chrom, feats)})
        if len(ctx.failures) > 20:
            break
    # references with exon_id on CDS / UTR / codon records (GENCODE style and IsoQuant's own extended annotations);
    # every fourth one through a real gffutils database
    for i in range(400 if quick else 4000):
        chrom = rng.choice(G.CHROMS)
        recs = G.rand_record_reference(rng, chrom)
        case = {"level": "storage", "chr": chrom, "genedb": recs, "calls": G.rand_calls(rng, chrom, recs)}
        if i % 4 == 0:
            case["real_db"] = True
            case["genedb"] = [dict(e, attr=e["attr"] or None) for e in recs]
        run(case)
        if len(ctx.failures) > 20:
            break
    for _ in range(200 if quick else 2000):
        a, b = rng.sample(G.CHROMS, 2)
        fa = G.rand_exon_reference(rng, a, isoquant_style=0.5)
        fb = G.rand_exon_reference(rng, b, isoquant_style=0.5)
        ids_a = {e["attr"][0] for e in fa if e["attr"]}
        fb = [e for e in fb if not (e["attr"] and e["attr"][0] in ids_a)]      # reference injective across chromosomes
        run({"level": "cross_chr", "a": a, "b": b, "feats_a": fa, "feats_b": fb,
             "calls_a": G.rand_calls(rng, a, fa, 12), "calls_b": G.rand_calls(rng, b, fb, 12)})
        if len(ctx.failures) > 20:
            break
    if HAVE_PRINTER:
        from gen import ids_printer as GP
        for i in range(230 if quick else 2300):
            run({"level": "dump", "case": GP.rand_dump_case(rng, records=i % 3 == 2)})
            if len(ctx.failures) > 20:
                break
    for _ in range(150 if quick else 1500):
        run({"level": "input", "recs": G.rand_gtf_records(rng)})
        if len(ctx.failures) > 20:
            break
    # the witness of known finding id_used_as_gene_and_transcript (F8), replayed on the real check on every run
    run({"level": "input", "recs": [["c", "exon", "G1.1", "T1"]] * 3 + [["chr1.1", "exon", "T1", "T2"]] * 2})
    # 3. the real pipeline
    for seed in scenario_seeds(ctx):
        run({"level": "pipeline", "seed": seed})
    # 4. the listed finding is replayed on the real classes on every run
    run({"level": "known_cross_chr"})
    # 5. the input of the Lean theorem exon_id_collision_orig_witness on the real class through a real gffutils database
    #    (the code before the repair fails here: the new exon 300-400 gets c.2, the exon_id of the reference CDS 120-180)
    run({"level": "storage", "chr": "c", "real_db": True, "calls": [["c", 300, 400, "+"], ["c", 100, 200, "+"], ["c", 120, 180, "+"]],
         "genedb": [{"start": 100, "end": 200, "strand": "+", "attr": ["c.1"], "type": "exon"},
                    {"start": 120, "end": 180, "strand": "+", "attr": ["c.2"], "type": "CDS"}]})
    ctx.extra["oracle_cases"] = n


def matches_finding(failure, entry):
    return failure["kind"] == entry.get("kind")


def replay(ctx, failure):
    try:
        fails = oracle_case(failure["input"])
    except StubUnavailable:
        return False
    except Exception:
        return failure["kind"] == "id_code_raises"
    return any(kind == failure["kind"] for kind, _ in fails)
