"""C11 extension — reflection of the read-strand decision (Model/Canonical.lean, C18): `AlignmentCollector.
get_assignment_strand`, `StrandDetector.get_strand / get_clean_strand`.
Theorems: lean/IsoVerif/Props/C11Strand.lean.  Real code: src/alignment_processor.py get_assignment_strand,
src/gene_info.py StrandDetector, src/common.py get_intron_strand (on really reverse-complemented references).

Universe: ALL 16 tail combinations (external / internal polyA / polyT present or −1) x ALL assignment types x matched
transcript strands ([], +, −, +−) x unspliced / spliced reads whose introns carry canonical sites of either strand, mixed
or none."""
import itertools

import vlib
from gen import c11gen as T
from props.c11ext import Rel

PROPS = ["IsoVerif/Props/C11Strand.lean"]
TARGETS = ["IsoVerif.Props.C11Strand"]

_COMP = str.maketrans("ACGTacgt", "TGCAtgca")
FLIP = {"+": "-", "-": "+", ".": "."}


def revcomp(s):
    return s.translate(_COMP)[::-1]


def _c18():
    from props import C18 as M
    return M


def _tl(l):
    return [tuple(x) for x in l]


def mirror_read_op(L, op):
    """twin of `mirrorStrandInfo` (Model/C11SymStrand.lean)"""
    return dict(op, matches=[FLIP[s] for s in op["matches"]],
                epa=T.mirror_pos(L, op["ept"]), ipa=T.mirror_pos(L, op["ipt"]),
                ept=T.mirror_pos(L, op["epa"]), ipt=T.mirror_pos(L, op["ipa"]),
                introns=[list(x) for x in T.mirror_l(L, _tl(op["introns"]))])


def _model(kw):
    return vlib.req("C18.detector", seq=kw["seq"], ops=[kw["op"]])


def _first(v):
    return v if vlib.is_err(v) or not isinstance(v, dict) or "out" not in v else v["out"][0]


def _impl(kw):
    return _first(_c18().impl_detector({"seq": kw["seq"], "ops": [kw["op"]]}))


def _site_votes_mirrored(kw):
    """hypothesis (a) of `mirror_dual_getAssignmentStrand`, evaluated on the real `get_intron_strand`"""
    import src.common as C
    seq, L = kw["seq"], len(kw["seq"])
    rc = revcomp(seq)
    return all(C.get_intron_strand(T.mirror_iv(L, tuple(it)), rc) == FLIP[C.get_intron_strand(tuple(it), seq)]
               for it in kw["op"]["introns"])


def _domain(par, kw):
    L = len(kw["seq"])
    op = kw["op"]
    if any(p != -1 and L + 1 - p == -1 for p in (op["epa"], op["ipa"], op["ept"], op["ipt"])):
        # `assignment_strand_sentinel_witness`
        return "witness" if kw.get("_witness") else False
    return _site_votes_mirrored(kw)


RELS = [
    Rel("M.assignment_strand", "mirror_dual_getAssignmentStrand",
        model=_model, impl=_impl,
        tin=lambda par, kw: {"seq": revcomp(kw["seq"]), "op": mirror_read_op(len(kw["seq"]), kw["op"])},
        tout=lambda par, kw, v: FLIP[_first(v)],
        domain=_domain,
        eq=lambda a, b: vlib.same(_first(a), _first(b)),
        nontrivial=lambda kw, v: _first(v) in ("+", "-")),
]

SITES = {"+": ("GT", "AG"), "-": ("CT", "AC"), ".": ("AA", "TT"), "m+": ("GC", "AG"), "m-": ("GT", "AT")}


def _locus(rng, kinds):
    """a reference with one intron per entry of `kinds` (canonical on '+', on '-', or not at all)"""
    seq = "".join(rng.choice("ACGT") for _ in range(rng.randint(6, 20)))
    introns = []
    for k in kinds:
        l, r = SITES[k]
        body = "".join(rng.choice("CG") for _ in range(rng.randint(4, 12)))
        a = len(seq) + 1
        seq += l + body + r
        introns.append([a, len(seq)])
        seq += "".join(rng.choice("ACGT") for _ in range(rng.randint(5, 15)))
    if rng.random() < 0.2:
        seq = seq.lower()
    return seq, introns


def cases(ctx):
    rng = ctx.rng
    quick = ctx.tier == "quick"
    IA = __import__("src.isoform_assignment", fromlist=["x"])
    atypes = [t.name for t in IA.ReadAssignmentType]
    ctx.extra["xstrand_universe"] = {"tail_combinations": 16, "assignment_types": len(atypes), "match_lists": 4,
                                     "intron_kinds": "0..3 introns over {+, -, none, minor +, minor -}"}
    out = []
    tails = list(itertools.product([False, True], repeat=4))
    intron_sets = [[], ["+"], ["-"], ["."], ["+", "-"], ["+", "+", "-"], ["-", ".", "-"], ["m+"], ["m-", "+"], [".", "."]]
    for ta in tails:
        for at in atypes:
            for matches in ([], ["+"], ["-"], ["+", "-"]):
                if quick and rng.random() < 0.5 and not (ta[0] or ta[2]) == (ta[1] or ta[3]):
                    continue
                kinds = rng.choice(intron_sets)
                seq, introns = _locus(rng, kinds)
                L = len(seq)
                pos = [rng.randint(1, L) if x else -1 for x in ta]
                nex = 1 if rng.random() < 0.5 else len(introns) + 1
                op = {"k": "read", "matches": matches, "atype": at, "epa": pos[0], "ept": pos[1], "ipa": pos[2],
                      "ipt": pos[3], "nexons": nex, "introns": introns if nex > 1 else (introns if rng.random() < 0.3 else [])}
                out.append(("M.assignment_strand", {"L": L}, {"seq": seq, "op": op}))
    # the witness of the sentinel hypothesis: a polyA tail at L + 2
    seq = "ACGTACGTAC"
    out.append(("M.assignment_strand", {"L": 10},
                {"seq": seq, "_witness": True,
                 "op": {"k": "read", "matches": [], "atype": "intergenic", "epa": 12, "ept": -1, "ipa": -1, "ipt": -1,
                        "nexons": 1, "introns": []}}))
    return out


def transformation_checks(ctx):
    """`mirrorStrandInfo` = the harness's mirror_read_op (through C11.T.mirror_strand_info)"""
    rng = ctx.rng
    lines, exp = [], []
    for _ in range(30):
        op = {"k": "read", "matches": [rng.choice("+-.") for _ in range(rng.randint(0, 3))], "atype": "ambiguous",
              "epa": rng.choice([-1, rng.randint(0, 90)]), "ept": rng.choice([-1, rng.randint(0, 90)]),
              "ipa": rng.choice([-1, rng.randint(0, 90)]), "ipt": rng.choice([-1, rng.randint(0, 90)]),
              "nexons": rng.randint(1, 3), "introns": [[rng.randint(1, 40), rng.randint(41, 80)] for _ in range(rng.randint(0, 3))]}
        L = rng.randint(80, 200)
        lines.append(vlib.req("C11.T.mirror_strand_info", L=L, read=op))
        exp.append(vlib.canon({x: v for x, v in mirror_read_op(L, op).items() if x != "k"}))
    outs = ctx.driver.run(lines)
    for ln, mo, io in zip(lines, outs, exp):
        ctx.evaluations += 1
        ctx.count("op:T.mirror_strand_info")
        ctx.traces_validated += 1
        if mo != io:
            ctx.disagree("T.mirror_strand_info", ln, mo, io)
