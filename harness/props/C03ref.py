"""C03 — reference transcripts the pipeline cannot digest or does not visit (model: lean/IsoVerif/Model/GtfRef.lean, driver
prefix `C03R.`; theorems: Props/C03Ref.lean).  Called from props/C03.py.

correspondence (real gffutils databases over several chromosomes, with transcript records WITHOUT exon records, annotated
chromosomes absent from the FASTA, FASTA chromosomes without annotation, exon-only GTFs with one gene_id on two chromosomes):
  ref_isoforms     keys of GeneInfo.all_isoforms_exons == the transcripts with exon records; from_reference_transcript on an
                   exon-less id raises KeyError in model and code
  joiner_tables    gene_introns / gene_to_transcripts after TranscriptToGeneJoiner.__init__ (model: the REPAIRED loop;
                   on the pinned tree the real constructor raises KeyError for an exon-less transcript -> disagreement)
  extended_run     task list = DatasetProcessor.get_chr_list() over the FASTA keys; per task create_extended_storage + dump on a
                   fresh real printer == the model's block of that chromosome
  exon_check       the exon block of gtf2db.check_gtf_duplicates (Model/GtfCheck.lean, theorems Props/C03Check.lean): gtf_correct,
                   the exon lines of the corrected annotation, the warning per line - on GTF files with duplicated exon lines,
                   overlapping / nested / touching exons, equal coordinates in different transcripts, any line order
oracle: (a) in-process: model construction's joiner on the GeneInfo of every generated annotation must not abort;
(a2) in-process: an annotation the REAL input check accepts is loaded (real gffutils database, real create_extended_storage
+ GFFPrinter) and every transcript written must have sorted, non-overlapping exons; a rejected one must come with a corrected
annotation without repeated exon lines;
(b) real pipeline on gen/refsets.py scenarios: exonless, ann_only_chrom, fasta_only_chrom, gene_two_chroms, dup_exon_line,
overlap_exons.
"""
import io
import logging
import os
import random
import re
import shutil
import types

import vlib
import pipeline as P
from gen import refsets as R

STRANDS = "+-."
_n = [0]


def _mods():
    vlib.repo_on_path()
    import src.transcript_printer as TP
    import src.gene_info as GI
    import src.graph_based_model_construction as GB
    import src.id_policy as IDP
    import src.dataset_processor as DP
    return TP, GI, GB, IDP, DP


class Interner:
    def __init__(self):
        self.d = {}

    def __call__(self, s):
        if s not in self.d:
            self.d[s] = len(self.d)
        return self.d[s]

    def name(self, i):
        return [k for k, v in self.d.items() if v == i][0]


def make_db(ra, scratch):
    import gffutils
    _n[0] += 1
    gtf = os.path.join(scratch, "ra%d.gtf" % _n[0])
    with open(gtf, "w") as f:
        f.write(R.run_annotation_gtf(ra))
    complete = not ra["inferred"]
    db = gffutils.create_db(gtf, ":memory:", force=True, keep_order=True, merge_strategy="error", sort_attribute_values=True,
                            disable_infer_transcripts=complete, disable_infer_genes=complete)
    os.remove(gtf)
    return db


def chr_code(name):
    return int(name[1:])


def model_ann(ra, db, it_g, it_t, kd):
    """the model's ChrAnn list: gene records (which chromosome, region, order) as the real database returns them for
    `region(seqid=c, start=1, featuretype='gene')` (trusted gffutils), transcripts from the GENERATED annotation"""
    by_gene = {}
    for c, genes in ra["chroms"].items():
        for g in genes:
            for t in g["transcripts"]:
                by_gene.setdefault(g["gid"], []).append((c, g["strand"], t))
    anns = []
    for c in sorted(set(db.seqids())):
        gl = list(db.region(seqid=c, start=1, featuretype="gene"))
        if not gl:
            continue
        regions, txs = [], []
        for g in gl:
            regions.append((it_g(g.id), (g.start, g.end)))
            for (tc, strand, t) in sorted(by_gene.get(g.id, []), key=lambda x: x[2]["span"][0]):
                txs.append({"tid": it_t(t["tid"]), "gid": it_g(g.id), "seqid": chr_code(tc), "strand": STRANDS.index(strand),
                            "exons": t["exons"], "other": [(a, b, kd["CDS"]) for a, b in t["cds"]]})
        anns.append({"chr": chr_code(c), "regions": regions, "txs": txs})
    return anns


def real_lines(printer_path, it_g, it_t):
    from props import C03
    raw = C03.lines_of_gtf(printer_path, intern=False)
    res = []
    for l in raw:
        l = list(l)
        l[1] = chr_code(l[1])
        si = 4 if l[0] != "feat" else 5
        l[si] = STRANDS.index(l[si])
        if l[0] == "gene":
            l[5] = it_g(l[5])
        elif l[0] == "tx":
            l[5], l[6] = it_g(l[5]), it_t(l[6])
        else:
            l[6], l[7] = it_g(l[6]), it_t(l[7])
        res.append(l)
    return res


def real_joiner_tables(gene_info, it_g, it_t):
    TP, GI, GB, IDP, DP = _mods()
    try:
        j = GB.TranscriptToGeneJoiner([], gene_info)
    except KeyError as ex:
        return {"error": "error", "exc": "KeyError %s" % ex}
    return {"introns": sorted([it_g(g), sorted(vlib.canon(list(s)))] for g, s in j.gene_introns.items()),
            "g2t": sorted([it_g(g), sorted(it_t(t) for t in s)] for g, s in j.gene_to_transcripts.items())}


def canon_tables(t):
    return {"introns": sorted([g, sorted(vlib.canon(s))] for g, s in t["introns"]),
            "g2t": sorted([g, sorted(s)] for g, s in t["g2t"])}


def run_case(ctx, rng, scratch):
    """one generated run: annotation over several chromosomes + FASTA key set + novel models"""
    from props import C03
    TP, GI, GB, IDP, DP = _mods()
    kd = C03.kinds()
    ra = R.run_annotation(rng)
    db = make_db(ra, scratch)
    it_g, it_t = Interner(), Interner()
    anns = model_ann(ra, db, it_g, it_t, kd)
    inp_desc = {"run_annotation": ra}
    # ---- the chromosome-wide GeneInfo of every annotated chromosome: isoform keys, from_reference on exon-less ids, joiner tables
    for a in anns:
        cname = "c%d" % a["chr"]
        gl = list(db.region(seqid=cname, start=1, featuretype="gene"))
        gi = GI.GeneInfo(gl, db, prepare_profiles=False)
        mo = ctx.driver.run([vlib.req("C03R.isoforms", ann=a), vlib.req("C03R.joiner_tables", ann=a)])
        ctx.evaluations += 2
        ctx.traces_validated += 2
        ctx.count("op:ref_isoforms")
        ctx.count("op:joiner_tables")
        exonless = [t for t in a["txs"] if not t["exons"]]
        if exonless:
            ctx.count("annotation_with_exonless_transcript")
        real_iso = sorted(it_t(t) for t in gi.all_isoforms_exons.keys())
        if sorted(mo[0]) != real_iso:
            ctx.disagree("ref_isoforms", {"ann": a}, sorted(mo[0]), real_iso)
        else:
            ctx.mark_nontrivial(["ref_isoforms", a])
        for t in exonless[:2]:
            m1 = ctx.driver.run([vlib.req("C03R.from_reference", ann=a, isoform=t["tid"])])[0]
            try:
                GI.TranscriptModel.from_reference_transcript(gi, it_t.name(t["tid"]))
                r1 = "ok"
            except KeyError:
                r1 = {"error": "error"}
            ctx.evaluations += 1
            ctx.count("op:from_reference_exonless")
            ctx.count("model_error")
            if not (vlib.is_err(m1) and vlib.is_err(r1)):
                ctx.disagree("from_reference_exonless", {"ann": a, "isoform": t["tid"]}, m1, r1)
        real_t = real_joiner_tables(gi, it_g, it_t)
        model_t = canon_tables(mo[1]["fixed"])
        if vlib.is_err(real_t) or model_t != real_t:
            ctx.disagree("joiner_tables", {"ann": a, "gtf": R.run_annotation_gtf(ra), "chr": cname, "inferred": ra["inferred"]},
                         model_t, real_t)
        else:
            ctx.mark_nontrivial(["joiner_tables", a])
            if exonless:
                ctx.count("joiner_tables_with_exonless_agree")
        # the pinned loop of the model aborts exactly when there is an exon-less record (ids are distinct)
        if vlib.is_err(mo[1]["orig"]) != bool(exonless):
            ctx.disagree("joiner_tables_orig_model", {"ann": a}, mo[1]["orig"], "aborts iff exon-less: %s" % bool(exonless))
    # ---- the run: tasks = keys of the FASTA
    stub = types.SimpleNamespace(reference_record_dict={n: "A" * ln for n, ln in ra["fasta"]})
    tasks = DP.DatasetProcessor.get_chr_list(stub)
    novel_m = []
    real_blocks = []
    err = None
    for c in tasks:
        real_novel = [GI.TranscriptModel(c, n["strand"], n["tid"], n["gid"], [tuple(e) for e in n["exons"]],
                                         GI.TranscriptModelType.novel_not_in_catalog) for n in ra["novel"].get(c, [])]
        novel_m.append((chr_code(c), [{"chr": chr_code(c), "strand": STRANDS.index(n["strand"]), "tid": it_t(n["tid"]),
                                       "gid": it_g(n["gid"]), "exons": n["exons"], "known": False, "other": []}
                                      for n in ra["novel"].get(c, [])]))
        _n[0] += 1
        printer = TP.GFFPrinter(scratch, "x%d" % _n[0], IDP.FeatureIdStorage(IDP.SimpleIDDistributor()), output_r2t=False)
        try:
            all_models, gene_info = TP.create_extended_storage(db, c, stub.reference_record_dict[c], real_novel)
            printer.dump(gene_info, all_models)
        except (AssertionError, IndexError, KeyError) as ex:
            err = {"error": "error", "exc": type(ex).__name__}
        printer.out_gff.close()
        if not err:
            real_blocks.append([chr_code(c), real_lines(printer.model_fname, it_g, it_t)])
        os.remove(printer.model_fname)
        if err:
            break
    minp = {"fasta": [chr_code(c) for c in tasks], "ann": anns, "novel": novel_m}
    mo = ctx.driver.run([vlib.req("C03R.extended_run", **minp)])[0]
    ctx.evaluations += 1
    ctx.traces_validated += 1
    ctx.count("op:extended_run")
    ann_chroms = {a["chr"] for a in anns}
    fasta_chroms = {chr_code(c) for c in tasks}
    if ann_chroms - fasta_chroms:
        ctx.count("run:annotated_chromosome_not_in_fasta")
    if fasta_chroms - ann_chroms:
        ctx.count("run:fasta_chromosome_without_annotation")
    if ra["shared"]:
        ctx.count("run:gene_id_on_two_chromosomes")
    if vlib.is_err(mo) or err:
        if not (vlib.is_err(mo) and err):
            ctx.disagree("extended_run", inp_desc, mo, err or "ok")
        return
    a = [[c, C03.canon_tx_blocks(ls)] for c, ls in mo]
    b = [[c, C03.canon_tx_blocks(ls)] for c, ls in real_blocks]
    if a != b:
        ctx.disagree("extended_run", inp_desc, a, b)
    elif any(ls for _, ls in mo):
        ctx.mark_nontrivial(["extended_run", minp])
        if len(ctx.samples) < 6 and rng.random() < 0.05:
            ctx.sample({"op": "extended_run", "input": {"fasta": minp["fasta"], "annotated": sorted(ann_chroms)},
                        "model_blocks": [[c, len(ls)] for c, ls in mo]})


class _LogCapture:
    """the WARNING lines the input check logs (the harness silences the IsoQuant logger: C03.py sets it to CRITICAL)"""

    def __enter__(self):
        self.lg = logging.getLogger("IsoQuant")
        self.level = self.lg.level
        self.propagate = self.lg.propagate
        self.buf = io.StringIO()
        self.h = logging.StreamHandler(self.buf)
        self.h.setLevel(logging.WARNING)
        self.lg.addHandler(self.h)
        self.lg.setLevel(logging.WARNING)
        self.lg.propagate = False
        return self

    def __exit__(self, *a):
        self.lg.removeHandler(self.h)
        self.lg.setLevel(self.level)
        self.lg.propagate = self.propagate

    def lines(self):
        return [l for l in self.buf.getvalue().split("\n") if l]


def real_input_check(gtf_text, scratch, name="chk.gtf"):
    """-> dict(correct, corrected (text or None), warnings) of the real gtf2db.check_gtf_duplicates"""
    vlib.repo_on_path()
    import src.gtf2db as G2
    _n[0] += 1
    p = os.path.join(scratch, "%d_%s" % (_n[0], name))
    with open(p, "w") as f:
        f.write(gtf_text)
    try:
        with _LogCapture() as cap:
            ok, corrected, out_name, meta = G2.check_gtf_duplicates(p)
        return {"correct": bool(ok), "corrected": corrected, "warnings": cap.lines(), "meta": meta}
    finally:
        os.remove(p)


_DUP_RE = re.compile(r"Duplicated exon (-?\d+)-(-?\d+) of transcript (\S+) on line (\d+)")
_OVL_RE = re.compile(r"Exon (-?\d+)-(-?\d+) of transcript (\S+) overlaps another exon of this transcript, line (\d+)")


def exon_lines_of_text(text):
    res = []
    for l in (text or "").split("\n"):
        p = l.split("\t")
        if len(p) >= 9 and p[2] == "exon":
            m = re.search(r'transcript_id "T(\d+)', p[8])
            res.append([int(p[0][1:]), int(m.group(1)), [int(p[3]), int(p[4])]])
    return res


def exon_check_case(ctx, case, scratch, tag):
    text, where = R.exon_line_gtf(case)
    got = real_input_check(text, scratch)
    verd = {}
    for w in got["warnings"]:
        m = _DUP_RE.search(w)
        if m:
            verd[int(m.group(4))] = "dup"
        m = _OVL_RE.search(w)
        if m:
            verd[int(m.group(4))] = "overlap"
    other = [w for w in got["warnings"] if not (_DUP_RE.search(w) or _OVL_RE.search(w))]
    real = {"correct": got["correct"], "kept": exon_lines_of_text(got["corrected"]), "verdicts": [verd.get(n, "ok") for n in where]}
    lines = [{"seq": s_, "tid": t, "iv": [a, b]} for (s_, t, a, b) in case["lines"]]
    mo = ctx.driver.run([vlib.req("C03R.exon_check", lines=lines)])[0]
    ctx.evaluations += 1
    ctx.count("op:exon_check")
    ctx.count("exon_check:%s" % tag)
    if other:
        # a warning of another part of the check (not expected for these files): the comparison of the flag would be moot
        ctx.count("exon_check:other_warning")
        return
    model = {"correct": mo["correct"], "kept": mo["kept"], "verdicts": mo["verdicts"]}
    for v in set(model["verdicts"]):
        ctx.count("exon_check_model:%s" % v)
    if real == {"correct": mo["orig_correct"], "kept": mo["orig_kept"], "verdicts": ["ok"] * len(lines)} and real != model:
        ctx.count("exon_check:real_equals_pinned_model")
    # the same lines as a GFF3 file (exon records name their transcript by Parent): flag and warnings (no corrected copy)
    t3, where3 = R.exon_line_gff3(case)
    if t3 is not None and lines:
        got3 = real_input_check(t3, scratch, name="chk.gff3")
        v3 = {}
        for w in got3["warnings"]:
            m = _DUP_RE.search(w) or _OVL_RE.search(w)
            if m:
                v3[int(m.group(4))] = "dup" if _DUP_RE.search(w) else "overlap"
        real3 = {"correct": got3["correct"], "verdicts": [v3.get(n, "ok") for n in where3]}
        ctx.evaluations += 1
        ctx.count("op:exon_check_gff3")
        if real3 != {"correct": model["correct"], "verdicts": model["verdicts"]}:
            ctx.disagree("exon_check_gff3", {"case": case, "gtf": t3, "gff3": True}, {"correct": model["correct"], "verdicts": model["verdicts"]}, real3)
    if real != model:
        ctx.disagree("exon_check", {"case": case, "gtf": text}, model, real)
    elif lines:
        ctx.mark_nontrivial(["exon_check", case["lines"]])
        if not model["correct"]:
            ctx.count("exon_check:rejected_agree")
        if len(ctx.samples) < 8 and not model["correct"] and len(lines) < 7:
            ctx.sample({"op": "exon_check", "input": case["lines"], "model": model})


WITNESS_EXON_LINES = [
    {"lines": [(1, 1, 2001, 2300), (1, 1, 2601, 3000), (1, 1, 2601, 3000), (1, 1, 3501, 3800)], "records": True},   # Props/C03Check dupLines
    {"lines": [(1, 1, 2001, 2300), (1, 1, 2250, 3000), (1, 1, 3501, 3800)], "records": True},                       # ovlLines
    {"lines": [(1, 1, 2001, 2300), (1, 1, 2301, 3000)], "records": True},                                             # touching: accepted
    {"lines": [(1, 1, 10, 20), (2, 1, 10, 20), (1, 2, 10, 20)], "records": False},                                   # same coordinates, other keys
    {"lines": [(1, 1, 30, 40), (1, 1, 10, 35)], "records": False},                                                   # overlap met in descending order
    {"lines": [], "records": False},
]


def correspondence(ctx):
    rng = ctx.rng
    scratch = vlib.scratch_dir("isoverif_c03ref_")
    try:
        for _ in range(60 if ctx.tier == "quick" else 600):
            run_case(ctx, rng, scratch)
        for c in WITNESS_EXON_LINES:
            exon_check_case(ctx, c, scratch, "witness")
        for _ in range(150 if ctx.tier == "quick" else 2500):
            exon_check_case(ctx, R.exon_line_case(rng), scratch, "random")
    finally:
        shutil.rmtree(scratch, ignore_errors=True)


# ------------------------------------------------------------------------------------------------------------------
# oracle


def oracle_joiner_on_annotation(gtf_text, cname, inferred):
    """the property's quantifier is every annotation: the joiner of model construction (run for every locus with reads) must
    digest the GeneInfo of an annotation with an exon-less transcript record; -> detail or None"""
    import gffutils
    TP, GI, GB, IDP, DP = _mods()
    d = vlib.scratch_dir("isoverif_c03refj_")
    try:
        gtf = os.path.join(d, "a.gtf")
        with open(gtf, "w") as f:
            f.write(gtf_text)
        db = gffutils.create_db(gtf, ":memory:", force=True, keep_order=True, merge_strategy="error", sort_attribute_values=True,
                                disable_infer_transcripts=not inferred, disable_infer_genes=not inferred)
    finally:
        shutil.rmtree(d, ignore_errors=True)
    gl = list(db.region(seqid=cname, start=1, featuretype="gene"))
    gi = GI.GeneInfo(gl, db, prepare_profiles=False)
    missing = sorted(set(gi.gene_id_map) - set(gi.all_isoforms_introns))
    try:
        GB.TranscriptToGeneJoiner([], gi).join_transcripts()
    except KeyError as ex:
        return "TranscriptToGeneJoiner raises KeyError %s (transcript records without exon records: %s)" % (ex, missing[:3])
    return None


def oracle_checked_annotation(gtf_text, inferred, gff3=False):
    """C03 on the reference path, in-process, for ANY annotation text: if the real input check accepts the file, the real
    database + create_extended_storage + GFFPrinter must write only transcripts with sorted, non-overlapping exons; if it
    rejects the file, the corrected annotation it offers must not repeat an exon line.  -> list of (kind, detail)"""
    import gffutils
    from props import C03
    TP, GI, GB, IDP, DP = _mods()
    fails = []
    d = vlib.scratch_dir("isoverif_c03refc_")
    try:
        got = real_input_check(gtf_text, d, name="chk.gff3" if gff3 else "chk.gtf")
        if not got["correct"]:
            if got["corrected"]:
                again = real_input_check(got["corrected"], d)
                if any(_DUP_RE.search(w) for w in again["warnings"]):
                    fails.append(("corrected_annotation_repeats_exon", "; ".join(again["warnings"][:2])))
            return fails
        gtf = os.path.join(d, "a.gff3" if gff3 else "a.gtf")
        with open(gtf, "w") as f:
            f.write(gtf_text)
        try:
            db = gffutils.create_db(gtf, ":memory:", force=True, keep_order=True, merge_strategy="error", sort_attribute_values=True,
                                    disable_infer_transcripts=not inferred, disable_infer_genes=not inferred)
        except Exception as ex:      # gffutils refuses the file (e.g. one transcript id on two sequences): no run, nothing to check
            return [("__skipped__", type(ex).__name__)]
        for c in sorted(set(db.seqids())):
            _n[0] += 1
            printer = TP.GFFPrinter(d, "c%d" % _n[0], IDP.FeatureIdStorage(IDP.SimpleIDDistributor()), output_r2t=False)
            try:
                all_models, gene_info = TP.create_extended_storage(db, c, "A" * 10, [])
                printer.dump(gene_info, all_models)
            except (AssertionError, IndexError, KeyError) as ex:
                fails.append(("extended_annotation_aborts", "%s on %s" % (type(ex).__name__, c)))
            printer.out_gff.close()
            recs = P.parse_gtf(printer.model_fname)
            os.remove(printer.model_fname)
            fails += [(k, det) for k, det in C03.validate_records(recs, None, "extended(in-process)")
                      if k in ("exons_overlap", "exons_unsorted", "exon_coordinates", "transcript_record_span")]
        return fails
    finally:
        shutil.rmtree(d, ignore_errors=True)


def scenario_view(sc):
    """the dataset as the C03 validator reads it: reference genes restricted to what CAN be in the output annotation
    (gene on a chromosome of the FASTA, transcripts with exon records)"""
    fasta = set(sc.fasta_names())
    genes = [g for g in sc.all_genes() if g["chr"] in fasta]
    return types.SimpleNamespace(genes=genes, reads=sc.ds.reads, chroms={n: sc.ds.chroms[n] for n in sc.fasta_names()})


def warning_lines(log):
    return [l for l in log.split("\n") if re.search(r"\b(WARNING|ERROR|CRITICAL)\b", l)]


def run_scenario(spec):
    """-> (fails, info); spec = {'scenario': name, 'seed': n, 'threads': k}"""
    from props import C03
    sc = R.build(spec["scenario"], spec["seed"])
    d = P.scratch("isoverif_c03refp_")
    try:
        paths = R.write(sc, os.path.join(d, "in"))
        args = P.std_args(paths, threads=spec.get("threads", 2), genedb=sc.with_annotation)
        if not sc.complete_genedb:
            args = [a for a in args if a != "--complete_genedb"]
        rc, log = P.run_isoquant(os.path.join(d, "out"), args)
        info = {"rc": rc, "scenario": sc.name}
        warns = warning_lines(log)
        if sc.shared_gene and rc != 0 and any(sc.shared_gene in l for l in warns):
            # the input is rejected loudly, naming the gene id: nothing is printed, nothing to check
            info["rejected"] = True
            return [], info
        if sc.bad_exon_tx and rc != 0 and any(sc.bad_exon_tx[0] in l and "xon" in l for l in warns):
            # the annotation is rejected loudly, naming the transcript whose exon records are malformed
            info["rejected"] = True
            if sc.bad_exon_tx[1] != "dup":
                return [], info
            # a repeated line is something the check can correct: the corrected annotation it wrote must run, and give TU with
            # the first copy of every exon
            corr = [os.path.join(dp, fn) for dp, _, fns in os.walk(os.path.join(d, "out")) for fn in fns if ".corrected." in fn]
            if not corr:
                return [("corrected_annotation_missing", "rc=%s, no *.corrected.* file under the output folder" % rc)], info
            kept = os.path.join(d, "in", os.path.basename(corr[0]))
            shutil.copy(corr[0], kept)
            paths = dict(paths, gtf=kept)
            sc.exon_lines = {}
            args = P.std_args(paths, threads=spec.get("threads", 2), genedb=True)
            if not sc.complete_genedb:
                args = [a for a in args if a != "--complete_genedb"]
            shutil.rmtree(os.path.join(d, "out"))
            rc, log = P.run_isoquant(os.path.join(d, "out"), args)
            warns = warning_lines(log)
            info["rc_corrected"] = rc
        if rc != 0:
            tb = [l for l in log.split("\n") if l.startswith(("KeyError", "IndexError", "ValueError", "AssertionError")) or "Error:" in l]
            return [("pipeline_crash", "scenario %s rc=%s %s" % (sc.name, rc, "; ".join(tb[-2:]) or log[-300:]))], info
        of = P.out_files(os.path.join(d, "out"))
        files = {}
        for fn, p in of.items():
            if fn.endswith(".transcript_models.gtf"):
                files["transcript_models"] = p
            elif fn.endswith(".extended_annotation.gtf"):
                files["extended_annotation"] = p
        if "transcript_models" not in files:
            return [("transcript_models_missing", str(sorted(of)))], info
        fai = C03.fai_lengths(paths["ref"])
        fails = C03.check_outputs(scenario_view(sc), files, sc.with_annotation, fai)
        tables = {k: C03.tx_table(P.parse_gtf(p)) for k, p in files.items()}
        info["transcripts"] = {k: len(v) for k, v in tables.items()}
        # (1) a transcript record without exon records cannot be a record of a well-formed file: it must be absent, and the
        #     log must say so
        for (c, gid, st, tid, s, e, cds) in sc.exonless:
            for k, t in tables.items():
                if tid in t:
                    fails.append(("exonless_transcript_printed", "%s holds %s" % (k, tid)))
            if not any(tid in l for l in warns):
                fails.append(("exonless_transcript_dropped_silently", "no warning names %s" % tid))
        # (2) reference transcripts on a chromosome that is not in the FASTA cannot be reproduced (no task, no chromosome
        #     length); reading rule docs/C03.md §10: they are outside "every reference transcript" ONLY IF the log names the
        #     chromosome in a warning
        fasta = set(sc.fasta_names())
        for g in sc.all_genes():
            if g["chr"] in fasta:
                continue
            for tid, _ in g["transcripts"]:
                if tid in tables.get("extended_annotation", {}):
                    continue
                if not any(re.search(r"(^|[\s,:])%s($|[\s,.;])" % re.escape(g["chr"]), l) for l in warns):
                    fails.append(("reference_chromosome_dropped_silently",
                                  "reference transcript %s (gene %s, chromosome %s: in the annotation, not in the FASTA) is missing from "
                                  "extended_annotation.gtf and no warning names the chromosome" % (tid, g["gene_id"], g["chr"])))
        # (3) one gene_id on two chromosomes: every reference transcript is printed on the chromosome it is annotated on
        if sc.shared_gene:
            want = {tid: g["chr"] for g in sc.all_genes() if g["gene_id"] == sc.shared_gene for tid, _ in g["transcripts"]}
            ext = tables.get("extended_annotation", {})
            for tid, c in sorted(want.items()):
                if tid not in ext:
                    fails.append(("reference_on_wrong_chromosome", "%s (annotated on %s) is missing from extended_annotation.gtf" % (tid, c)))
                elif ext[tid][0] != c:
                    fails.append(("reference_on_wrong_chromosome", "%s is annotated on %s and printed on %s in extended_annotation.gtf"
                                  % (tid, c, ext[tid][0])))
            if any(k == "reference_on_wrong_chromosome" for k, _ in fails):
                # the validator's other complaints about these transcripts / this gene are consequences of the same root cause
                names = set(want) | {sc.shared_gene}
                fails = [f for f in fails if f[0] == "reference_on_wrong_chromosome" or not any(n in str(f[1]) for n in names)]
        return fails, info
    finally:
        shutil.rmtree(d, ignore_errors=True)


PIPELINE_SCENARIOS = ["exonless", "ann_only_chrom", "fasta_only_chrom", "gene_two_chroms", "dup_exon_line", "overlap_exons"]
# failure kinds that are a PROPOSED known finding (docs/C03.md §10): reported as failures only once known_findings.json lists them
PROPOSED_FINDING_KINDS = set()


def oracle(ctx, disagreements, broken):
    from props import C03
    rng = ctx.rng
    quick = ctx.tier == "quick"
    # 1. disagreeing inputs first
    seen = 0
    for dd in disagreements:
        if dd["op"] == "joiner_tables" and seen < 5:
            seen += 1
            i = dd["input"]
            r = oracle_joiner_on_annotation(i["gtf"], i["chr"], i["inferred"])
            if r:
                C03._fail(ctx, "exonless_transcript_aborts_model_construction",
                          {"level": "refjoin", "gtf": i["gtf"], "chr": i["chr"], "inferred": i["inferred"]}, r)
    # 2. in-process: generated annotations with exon-less transcript records
    n = 0
    for _ in range(40 if quick else 400):
        ra = R.run_annotation(rng)
        if ra["inferred"]:
            continue
        gtf = R.run_annotation_gtf(ra)
        for c in ra["chroms"]:
            n += 1
            r = oracle_joiner_on_annotation(gtf, c, False)
            if r:
                C03._fail(ctx, "exonless_transcript_aborts_model_construction",
                          {"level": "refjoin", "gtf": gtf, "chr": c, "inferred": False}, r)
    ctx.extra["refjoin_annotations"] = n
    # 2b. in-process: annotations with repeated / overlapping exon lines through the real input check and the real reference path
    seeds = [dd["input"]["case"] for dd in disagreements if dd["op"] in ("exon_check", "exon_check_gff3")][:20]
    nchk = nacc = nskip = 0
    for k in range(len(seeds) + len(WITNESS_EXON_LINES) + (70 if quick else 1200)):
        case = seeds[k] if k < len(seeds) else (WITNESS_EXON_LINES[k - len(seeds)] if k < len(seeds) + len(WITNESS_EXON_LINES)
                                                else R.exon_line_case(rng))
        if len({t: s_ for (s_, t, a, b) in case["lines"]}) != len({(s_, t) for (s_, t, a, b) in case["lines"]}):
            continue                  # one transcript id on two sequences: another malformation (gffutils merges / refuses it)
        if any(a > b for (_, _, a, b) in case["lines"]) or not case["lines"]:
            continue
        as_gff3 = rng.random() < 0.3
        text, _ = R.exon_line_gff3(case, strand=rng.choice("+-")) if as_gff3 else R.exon_line_gtf(case, strand=rng.choice("+-"))
        fails = oracle_checked_annotation(text, not case["records"] and not as_gff3, gff3=as_gff3)
        nchk += 1
        if fails and fails[0][0] == "__skipped__":
            nskip += 1
            continue
        if not fails:
            nacc += 1
        done = set()
        for kind, det in fails:
            if kind not in done:
                done.add(kind)
                C03._fail(ctx, kind, {"level": "refcheck", "gtf": text, "inferred": not case["records"] and not as_gff3, "gff3": as_gff3}, det)
    ctx.extra["refcheck_annotations"] = {"checked": nchk, "no_failure": nacc, "refused_by_gffutils": nskip}
    # 3. the real pipeline
    listed = {e.get("kind") for e in vlib.load_known_findings().get("findings", []) if e.get("property") == "C03"}
    runs = []
    for name in PIPELINE_SCENARIOS:
        for k in range(1 if quick else 4):
            spec = {"scenario": name, "seed": rng.randrange(10 ** 6), "threads": rng.choice([1, 2])}
            fails, info = run_scenario(spec)
            runs.append({"spec": spec, "info": info, "fails": sorted({k for k, _ in fails})})
            ctx.traces_validated += 1
            done = set()
            for kind, det in fails:
                if kind in done:
                    continue
                done.add(kind)
                if kind in PROPOSED_FINDING_KINDS and kind not in listed:
                    ctx.count("proposed_finding:%s" % kind)
                    note = "PROPOSED-FINDING %s (not listed in known_findings.json, not reported as a failure): %s" % (kind, det)
                    if note not in ctx.notes and len(ctx.notes) < 20:
                        ctx.notes.append(note)
                    continue
                C03._fail(ctx, kind, {"level": "refpipeline", "spec": spec}, det)
    ctx.extra["refset_runs"] = runs


def replay(ctx, failure):
    inp = failure["input"]
    if inp.get("level") == "refjoin":
        return oracle_joiner_on_annotation(inp["gtf"], inp["chr"], inp["inferred"]) is not None
    if inp.get("level") == "refcheck":
        return any(k == failure["kind"] for k, _ in oracle_checked_annotation(inp["gtf"], inp["inferred"], inp.get("gff3", False)))
    if inp.get("level") == "refpipeline":
        fails, _ = run_scenario(inp["spec"])
        return any(k == failure["kind"] for k, _ in fails)
    return False
