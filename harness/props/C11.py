"""C11 — results are equivariant under coordinate translation and strand reflection.

Proof level: equivariance theorems about the generated primitives and the interval / profile models
(lean/IsoVerif/Props/C11*.lean).  Correspondence: every relation is evaluated through the driver on the model
(both sides of the theorem) and on the real functions (both sides, with the harness's own transformations).
Oracle (failing-input search on the real code; search only, never stands in for a theorem):
  O1 relations on the real interval / profile functions, O2 left/right tables of the real enum,
  O3 mirrored code pairs of polya_verification / polya_finder, O4 the real profile constructors + LongReadAssigner
  on generated genes and reads (in-process, shift and reflection), O5 metamorphic runs of the real pipeline.
"""
import itertools
import os
import re
import shutil
import tempfile

import vlib
from gen import intervals as G
from gen import c11gen as T
from props import c11ext as X

ID = "C11"
PROPS = ["IsoVerif/Props/C11.lean", "IsoVerif/Props/C11Lists.lean", "IsoVerif/Props/C11Mirror.lean",
         "IsoVerif/Props/C11Profiles.lean", "IsoVerif/Props/C11Polya.lean", "IsoVerif/Props/C11Canonical.lean",
         # equivariance of the merged models (props/c11ext.py + props/c11x_*.py)
         "IsoVerif/Props/C11Cigar.lean", "IsoVerif/Props/C11PolyA16.lean", "IsoVerif/Props/C11Finder.lean", "IsoVerif/Props/C11FinderMirror.lean",
         "IsoVerif/Props/C11Regions.lean", "IsoVerif/Props/C11Counts.lean", "IsoVerif/Props/C11Ids.lean",
         "IsoVerif/Props/C11Sites.lean", "IsoVerif/Props/C11Assign.lean",
         "IsoVerif/Props/C11Resolver.lean", "IsoVerif/Props/C11Graph.lean",
         "IsoVerif/Props/C11MirrorLists.lean", "IsoVerif/Props/C11MirrorReadProfiles.lean",
         "IsoVerif/Props/C11Bed.lean", "IsoVerif/Props/C11Corrector.lean", "IsoVerif/Props/C11Gtf.lean",
         "IsoVerif/Props/C11AssignMirror.lean", "IsoVerif/Props/C11Strand.lean", "IsoVerif/Props/C11MonoNovel.lean"]
TARGETS = ["IsoVerif.Props.C11", "IsoVerif.Props.C11Lists", "IsoVerif.Props.C11Mirror", "IsoVerif.Props.C11Profiles",
           "IsoVerif.Props.C11Polya", "IsoVerif.Props.C11Canonical",
           "IsoVerif.Props.C11Cigar", "IsoVerif.Props.C11PolyA16", "IsoVerif.Props.C11Finder", "IsoVerif.Props.C11FinderMirror",
           "IsoVerif.Props.C11Regions", "IsoVerif.Props.C11Counts", "IsoVerif.Props.C11Ids", "IsoVerif.Props.C11Sites",
           "IsoVerif.Props.C11Assign", "IsoVerif.Props.C11Resolver", "IsoVerif.Props.C11Graph",
           "IsoVerif.Props.C11MirrorLists", "IsoVerif.Props.C11MirrorReadProfiles",
           "IsoVerif.Props.C11Bed", "IsoVerif.Props.C11Corrector", "IsoVerif.Props.C11Gtf",
           "IsoVerif.Props.C11AssignMirror", "IsoVerif.Props.C11Strand", "IsoVerif.Props.C11MonoNovel"]
GEN_DEPS = ["Prims", "Enums", "EventClasses", "Constants", "CigarClasses", "Strategies", "Resolver", "ModelConstruction", "Corrector"]
LEVEL = "proof"
RULE = ("relations S.<fn> (shift k) and M.<fn> (mirror L) on: exhaustive interval pairs over 0..U x delta 0..3 x "
        "k in {-7,1,255,256,1000} / L in {U+1, 40}; all sorted disjoint lists of <=3 intervals over 1..U and sampled pairs; "
        "seeded random genome-scale lists; a case is non-trivial when the model's two sides are equal, not an error, "
        "and equal to the implementation's two sides; distinct by (relation, input); merged models (props/c11ext.py, "
        "props/c11x_*.py): relations S.<fn> / M.<fn> evaluated through the owning property's driver ops and adapters on that "
        "property's generators (exhaustive small CIGARs, exon lists x tail positions, 16 tail combinations x assignment "
        "types, coverage / cluster sets with k multiple of 256, C01 worlds, C04 graph states, C08 record lists, C14/C03 "
        "corrector / BED / GTF cases) + the inputs of every _witness theorem (must fail on model and code)")
TRUSTED = ["Gen/Prims.lean, Gen/Enums.lean, Gen/EventClasses.lean are syntax-directed translations of src/common.py and "
           "src/isoform_assignment.py (cross-checked against the Python objects each run)",
           "Model/C11Symmetry.lean `swapLR` pairing is compared with the enum's member names each run",
           "the pipeline-level clauses (whole-run shift / reflection) are searched by metamorphic runs, not proved",
           "merged models: the other properties' Model/*.lean and props/Cxx.py adapters are used unchanged; the Python twins of "
           "the Model/C11Sym*.lean transformations are compared with the Lean definitions through C11.T.* on every run"]
ASSUMPTIONS = ["CPython int semantics = Lean Int", "float results compared as exact fractions num/den (1e-9)",
               "coordinates and shifted/mirrored coordinates avoid the code's sentinel -1 (stated as hypotheses of the theorems)",
               "reflection of list sweeps is stated for sorted disjoint well-formed lists (as produced from alignments/annotations)",
               "merged models: BAM coordinates are non-negative before and after a shift (get_read_blocks truthiness, the "
               "collector's fetch window), shifts of the region splitter are multiples of COVERAGE_BIN (the property's own "
               "quantifier); the sentinel-as-coordinate defect of detect_reference_exons_beyond_polya / before_polyt found by "
               "these proofs is FIXED in /repo (a2ae069): the assigner theorems carry no origin-distance hypothesis any more, "
               "the pre-fix bodies (detectBeyondPolyaBuggy / detectBeforePolytBuggy) keep regression witnesses",
               "EndTie inputs (a block inside a known feature sharing exactly one end with it, shorter than the overlap "
               "threshold -- e.g. the 4-base terminal block of a noise-free truncated read) are INSIDE the quantifier: the "
               "asymmetry of overlaps_at_least / overlaps_at_least_when_overlap on them (audit2-C G7) is repaired by "
               "fix_overlaps_at_least_end_tie.patch; the mirror theorems carry no EndTie hypothesis, the pre-fix bodies "
               "(overlapsAtLeastBuggy / overlapsAtLeastWhenOverlapBuggy) keep their witnesses"]

SHIFTS = [1, 255, 256, 1000]


def _impl():
    vlib.repo_on_path()
    import src.common as C
    import src.gene_info as GI
    import src.long_read_profiles as LP
    return C, GI, LP


def _c19():
    from props import C19 as M
    return M


# ------------------------------------------------------------------------------------------------
# relations: name -> how to evaluate both sides on the real code

TWO = ["overlaps", "intersection_len", "left_of", "covers_end", "covers_start", "contains"]
TWO_IV = ["overlap_intervals", "max_range"]
THREE = ["overlaps_at_least", "overlaps_at_least_when_overlap", "equal_ranges", "contains_well_inside", "contains_approx"]
MIRROR_PARTNER = {"covers_end": "covers_start", "covers_start": "covers_end",
                  "sum_intervals_to_point": "sum_intervals_from_point", "sum_intervals_from_point": "sum_intervals_to_point",
                  "get_following_exon": "get_preceding_exon", "get_preceding_exon": "get_following_exon",
                  "interval_bin_search": "interval_bin_search_rev", "interval_bin_search_rev": "interval_bin_search"}


def _call(op, kw):
    return vlib.canon(_c19().impl_call(op, kw))


def _map_res(v, f):
    return v if vlib.is_err(v) else f(v)


def _tl(l):
    return [tuple(x) for x in l]


def _mirror_prof(r):
    if vlib.is_err(r):
        return r
    if "profile" in r:
        n = len(r["profile"])
        return {"profile": r["profile"][::-1], "range": [n - r["range"][1], n - r["range"][0]]}
    n = len(r["gene"])
    return {"gene": r["gene"][::-1], "read": r["read"][::-1], "range": [n - r["range"][1], n - r["range"][0]]}


def impl_rel(name, kw):
    """both sides of relation `name` on the real code -> (lhs, rhs), canonical"""
    kind, fn = name.split(".", 1)
    S = kind == "S"
    k = kw.get("k")
    L = kw.get("L")
    tiv = (lambda r: T.shift_iv(k, tuple(r))) if S else (lambda r: T.mirror_iv(L, tuple(r)))
    tl = (lambda l: T.shift_l(k, _tl(l))) if S else (lambda l: T.mirror_l(L, _tl(l)))
    tp = (lambda p: p + k) if S else (lambda p: T.mirror_p(L, p))
    tsp = (lambda p: T.shift_pos(k, p)) if S else (lambda p: T.mirror_pos(L, p))
    c = vlib.canon
    if fn == "cmp":
        x, y = kw["x"], kw["y"]
        return _call("cmp", {"x": tp(x), "y": tp(y)}), (_call("cmp", {"x": x, "y": y}) if S else _call("cmp", {"x": y, "y": x}))
    if fn in TWO:
        a, b = kw["a"], kw["b"]
        if S:
            return _call(fn, {"a": tiv(a), "b": tiv(b)}), _call(fn, {"a": a, "b": b})
        if fn == "left_of":
            return _call(fn, {"a": tiv(b), "b": tiv(a)}), _call(fn, {"a": a, "b": b})
        return _call(fn, {"a": tiv(a), "b": tiv(b)}), _call(MIRROR_PARTNER.get(fn, fn), {"a": a, "b": b})
    if fn in TWO_IV:
        a, b = kw["a"], kw["b"]
        return _call(fn, {"a": tiv(a), "b": tiv(b)}), _map_res(_call(fn, {"a": a, "b": b}), lambda v: c(tiv(v)))
    if fn in THREE:
        a, b, d = kw["a"], kw["b"], kw["d"]
        return _call(fn, {"a": tiv(a), "b": tiv(b), "d": d}), _call(fn, {"a": a, "b": b, "d": d})
    if fn == "interval_len":
        return _call(fn, {"a": tiv(kw["a"])}), _call(fn, {"a": kw["a"]})
    if fn == "intervals_total_length":
        return _call(fn, {"l": tl(kw["l"])}), _call(fn, {"l": kw["l"]})
    if fn in ("sum_intervals_to_point", "sum_intervals_from_point"):
        other = fn if S else MIRROR_PARTNER[fn]
        return _call(fn, {"l": tl(kw["l"]), "p": tp(kw["p"])}), _call(other, {"l": kw["l"], "p": kw["p"]})
    if fn in ("read_coverage_fraction", "jaccard_similarity"):
        return _call(fn, {"l1": tl(kw["l1"]), "l2": tl(kw["l2"])}), _call(fn, {"l1": kw["l1"], "l2": kw["l2"]})
    if fn == "merge_ranges":
        return _call(fn, {"l1": tl(kw["l1"]), "l2": tl(kw["l2"])}), \
            _map_res(_call(fn, {"l1": kw["l1"], "l2": kw["l2"]}), lambda v: c(tl(v)))
    if fn == "extra_exon_percentage":
        return _call(fn, {"r": tiv(kw["r"]), "l": tl(kw["l"])}), _call(fn, {"r": kw["r"], "l": kw["l"]})
    if fn in ("junctions_from_blocks", "split_exons"):
        return _call(fn, {"l": tl(kw["l"])}), _map_res(_call(fn, {"l": kw["l"]}), lambda v: c(tl(v)))
    if fn == "get_exons":
        return _call(fn, {"r": tiv(kw["r"]), "l": tl(kw["l"])}), _map_res(_call(fn, {"r": kw["r"], "l": kw["l"]}), lambda v: c(tl(v)))
    if fn == "get_exon":
        i2 = kw["i"] if S else len(kw["l"]) - kw["i"]
        return _call(fn, {"r": tiv(kw["r"]), "l": tl(kw["l"]), "i": i2}), \
            _map_res(_call(fn, {"r": kw["r"], "l": kw["l"], "i": kw["i"]}), lambda v: c(tiv(v)))
    if fn in ("get_following_exon", "get_preceding_exon"):
        other = fn if S else MIRROR_PARTNER[fn]
        i2 = kw["i"] if S else len(kw["l"]) - 1 - kw["i"]
        return _call(other, {"r": tiv(kw["r"]), "l": tl(kw["l"]), "i": i2}), \
            _map_res(_call(fn, {"r": kw["r"], "l": kw["l"], "i": kw["i"]}), lambda v: c(tiv(v)))
    if fn == "truncate_read_to_polya":
        pa, pt = kw["pa"], kw["pt"]
        a2, t2 = (tsp(pa), tsp(pt)) if S else (tsp(pt), tsp(pa))
        return _call(fn, {"l": tl(kw["l"]), "a": a2, "t": t2}), \
            _map_res(_call(fn, {"l": kw["l"], "a": pa, "t": pt}), lambda v: c(tl(v)))
    if fn in ("interval_bin_search", "interval_bin_search_rev"):
        if S:
            return _call(fn, {"l": tl(kw["l"]), "p": tp(kw["p"])}), _call(fn, {"l": kw["l"], "p": kw["p"]})
        n = len(kw["l"])
        return _call(MIRROR_PARTNER[fn], {"l": tl(kw["l"]), "p": tp(kw["p"])}), \
            _map_res(_call(fn, {"l": kw["l"], "p": kw["p"]}), lambda i: -1 if i == -1 else n - 1 - i)
    if fn == "isoform_profile":
        base = {"features": kw["features"], "tf": kw["tf"], "region": kw["region"], "cmp": kw["cmp"]}
        tr = dict(base, features=tl(kw["features"]), tf=tl(kw["tf"]), region=tiv(kw["region"]))
        r = _call(fn, base)
        return _call(fn, tr), (r if S else _mirror_prof(r))
    if fn == "overlapping_profile":
        base = {x: kw[x] for x in ("kind", "known", "gene_region", "read", "mapped", "polya", "polyt", "d", "abs_d")}
        pa, pt = (tsp(kw["polya"]), tsp(kw["polyt"])) if S else (tsp(kw["polyt"]), tsp(kw["polya"]))
        tr = dict(base, known=tl(kw["known"]), gene_region=tiv(kw["gene_region"]), read=tl(kw["read"]),
                  mapped=tiv(kw["mapped"]), polya=pa, polyt=pt)
        r = _call(fn, base)
        return _call(fn, tr), (r if S else _mirror_prof(r))
    if fn == "nonoverlapping_profile":
        base = {x: kw[x] for x in ("known", "read", "polya", "polyt", "d", "min_ov")}
        pa, pt = (tsp(kw["polya"]), tsp(kw["polyt"])) if S else (tsp(kw["polyt"]), tsp(kw["polya"]))
        tr = dict(base, known=tl(kw["known"]), read=tl(kw["read"]), polya=pa, polyt=pt)
        r = _call(fn, base)
        return _call(fn, tr), (r if S else _mirror_prof(r))
    raise RuntimeError("unknown relation " + name)


def _eq_mi(mo, io):
    """model value vs implementation value (floats of the implementation against the model's exact pair)"""
    if isinstance(io, dict) and "float" in io and isinstance(mo, list):
        return abs(io["float"] - mo[0] / mo[1]) < 1e-9
    return vlib.same(mo, io)


def _eq_ii(a, b):
    if isinstance(a, dict) and "float" in a and isinstance(b, dict) and "float" in b:
        return abs(a["float"] - b["float"]) < 1e-9
    return vlib.same(a, b)


def _gene_only(r):
    return r if vlib.is_err(r) or not isinstance(r, dict) else {k_: v for k_, v in r.items() if k_ != "read"}


def _wf(r):
    return r[0] <= r[1]


def _sd(l):
    return G.is_sd(l)


def _min_coord(*lists):
    v = [x for l in lists for r in l for x in r]
    return min(v) if v else 1


def in_domain(name, kw):
    """True: the relation is a theorem of the model (or, where marked `searched` in docs/C11.md, believed) for this
    input, so it must hold on the real code.  False: outside the stated hypotheses (not evaluated)."""
    kind, fn = name.split(".", 1)
    if kind == "S":
        k = kw["k"]
        if fn == "truncate_read_to_polya":
            return all(p == -1 or p + k != -1 for p in (kw["pa"], kw["pt"]))
        if fn in ("overlapping_profile", "nonoverlapping_profile"):
            return all(p == -1 or p + k != -1 for p in (kw["polya"], kw["polyt"]))
        if fn == "split_exons":
            return all(x != -1 and y + 1 != -1 and x + k != -1 and y + 1 + k != -1 for x, y in kw["l"])
        return True
    L = kw["L"]
    # overlaps_at_least / overlaps_at_least_when_overlap: ALL inputs (mirror_dual_overlaps_at_least(_when_overlap) hold
    # without hypothesis since the repair of audit2-C G7; the former `EndTie` class -- a range inside the other sharing
    # exactly one end, shorter than the threshold -- is an ordinary input: a noise-free truncated read produces it)
    if fn in ("sum_intervals_to_point", "sum_intervals_from_point", "interval_bin_search", "interval_bin_search_rev"):
        return _sd(kw["l"])
    if fn in ("read_coverage_fraction", "jaccard_similarity", "merge_ranges"):
        return _sd(kw["l1"]) and _sd(kw["l2"])
    if fn == "get_exon":
        return 0 <= kw["i"] <= len(kw["l"])
    if fn in ("get_following_exon", "get_preceding_exon"):
        return 0 <= kw["i"] < len(kw["l"])
    if fn == "split_exons":
        return all(_wf(e) for e in kw["l"]) and all(x != -1 and y + 1 != -1 for x, y in kw["l"] + T.mirror_l(L, _tl(kw["l"])))
    if fn == "truncate_read_to_polya":
        l, pa, pt = _tl(kw["l"]), kw["pa"], kw["pt"]
        # hypotheses of mirror_dual_truncateReadToPolya (Props/C11MirrorLists.lean): well-formed exons (sorted or not),
        # each scan finds an exon, no tail mirrored onto the sentinel, tails not crossed
        if not all(_wf(e) for e in l):
            return False
        if pa != -1 and not (any(e[0] < pa for e in l) and L + 1 - pa != -1):
            return False
        if pt != -1 and not (any(pt < e[1] for e in l) and L + 1 - pt != -1):
            return False
        return pa == -1 or pt == -1 or pt < pa
    if fn == "isoform_profile":
        # hypotheses of mirror_dual_setProfiles_equal / _contains (Props/C11MirrorLists.lean)
        feats, tf = _tl(kw["features"]), _tl(kw["tf"])
        if kw["cmp"] == "equal":
            it = iter(feats)
            return len(set(feats)) == len(feats) and all(f in it for f in tf)      # tf is a sub-list (same order)
        return _sd(feats) and _sd(tf) and all(any(f[0] <= k_[0] and k_[1] <= f[1] for k_ in feats) for f in tf)
    if fn in ("overlapping_profile", "nonoverlapping_profile"):
        return profile_mirror_domain(fn, kw)
    return True


def profile_mirror_domain(fn, kw):
    """reflection of the read-profile constructors is SEARCHED (not proved) on inputs shaped like the pipeline's:
    sorted features whose mirror image is sorted too (no strictly nested known features: the mirrored pipeline would
    re-sort them), features and gaps longer than delta (the hypotheses of C19's read_profile_spec), tail positions
    inside the read span.
    Returns False (not evaluated), True (gene, read and range compared) or 'gene' (gene profile and range only: a read
    feature overlaps a known one without matching it, where the sweep's marks of the READ features are known to
    depend on the sweep direction -- not observable, see docs/C11.md)."""
    vlib.repo_on_path()
    import src.common as C
    d = kw["d"]
    known, read = _tl(kw["known"]), _tl(kw["read"])
    if not read or not known or not _sd(read) or known != sorted(known) or not all(_wf(x) for x in known):
        return False
    if len(set(known)) != len(known) or T.mirror_l(0, known) != sorted(T.mirror_l(0, known)):
        return False
    if any(b - a + 1 < d + 1 for a, b in known + read):
        return False
    if any(read[i + 1][0] - read[i][1] - 1 < d + 1 for i in range(len(read) - 1)):
        return False
    for p in (kw["polya"], kw["polyt"]):
        if p != -1 and not (read[0][0] <= p <= read[-1][1]):
            return False
    if fn == "nonoverlapping_profile":
        if not _sd(known):
            return False
        for r in read:
            for k_ in known:
                if C.overlaps(r, k_) and not C.overlaps_at_least_when_overlap(r, k_, kw["min_ov"]):
                    return False      # a block overlapping an exon by less than the threshold: sweep-direction dependent
        return True
    loose = any(C.overlaps(r, k_) and not C.equal_ranges(r, k_, d) for r in read for k_ in known)
    if kw["kind"] == "intron":
        m = tuple(kw["mapped"])
        if not _wf(m):
            return False
        return "gene" if loose else True
    return "gene"     # exon profile: only the gene profile is ever read by the pipeline


# ------------------------------------------------------------------------------------------------
# case generation

def gen_relation_cases(ctx, quick=None):
    rng = ctx.rng
    quick = (ctx.tier == "quick") if quick is None else quick
    cases = []
    U = 4 if quick else 6
    ivs = [(a, b) for a in range(U + 1) for b in range(a, U + 1)]
    ks = [-7, 1, 255] if quick else [-7, 1, 255, 256, 1000]
    Ls = [U + 1, 40]
    ctx.extra["prim_universe"] = {"max_coord": U, "intervals": len(ivs), "deltas": [0, 1, 2, 3], "shifts": ks, "L": Ls}
    for a in ivs:
        for b in ivs:
            for k in ks:
                for fn in TWO + TWO_IV:
                    cases.append(("S." + fn, {"k": k, "a": a, "b": b}))
                for d in range(4):
                    for fn in THREE:
                        cases.append(("S." + fn, {"k": k, "a": a, "b": b, "d": d}))
            for L in Ls:
                for fn in TWO + TWO_IV:
                    cases.append(("M." + fn, {"L": L, "a": a, "b": b}))
                for d in range(4):
                    for fn in THREE:
                        cases.append(("M." + fn, {"L": L, "a": a, "b": b, "d": d}))
    for a in ivs:
        for k in ks:
            cases.append(("S.interval_len", {"k": k, "a": a}))
        cases.append(("M.interval_len", {"L": 9, "a": a}))
    for x in range(-2, 3):
        for y in range(-2, 3):
            cases.append(("S.cmp", {"k": rng.choice(ks), "x": x, "y": y}))
            cases.append(("M.cmp", {"L": 5, "x": x, "y": y}))
    for _ in range(200 if quick else 1500):   # genome scale, malformed included
        a = G.rand_iv(rng, 10 ** 9, wf=rng.random() < 0.8)
        b = G.rand_iv(rng, 10 ** 9, wf=rng.random() < 0.8) if rng.random() < 0.5 else \
            (a[0] + rng.choice([0, 0, -3, 5]), a[1] + rng.choice([0, 0, 4, -2]))
        d = rng.choice([0, 1, 5, 6, 12, 20, 10 ** 6])
        k = rng.choice(SHIFTS + [-5, 10 ** 9])
        L = rng.choice([2 * 10 ** 9, 3 * 10 ** 9 + 7])
        for fn in TWO + TWO_IV:
            cases.append(("S." + fn, {"k": k, "a": a, "b": b}))
            cases.append(("M." + fn, {"L": L, "a": a, "b": b}))
        for fn in THREE:
            cases.append(("S." + fn, {"k": k, "a": a, "b": b, "d": d}))
            cases.append(("M." + fn, {"L": L, "a": a, "b": b, "d": d}))
    # --- lists
    UL = 6 if quick else 8
    lists = G.all_sd_lists(UL, 3)
    ctx.extra["sd_lists_universe"] = {"max_coord": UL, "max_len": 3, "count": len(lists)}
    LL = UL + 2
    for l in lists:
        k = rng.choice(ks)
        for kind, par in (("S", {"k": k}), ("M", {"L": LL})):
            cases.append((kind + ".intervals_total_length", dict(par, l=l)))
            cases.append((kind + ".junctions_from_blocks", dict(par, l=l)))
            for p in range(0, UL + 2):
                for fn in ("sum_intervals_to_point", "sum_intervals_from_point", "interval_bin_search", "interval_bin_search_rev"):
                    cases.append((kind + "." + fn, dict(par, l=l, p=p)))
            if l:
                reg = (l[0][0] - rng.randint(1, 3), l[-1][1] + rng.randint(1, 3))
                cases.append((kind + ".get_exons", dict(par, r=reg, l=l)))
                cases.append((kind + ".extra_exon_percentage", dict(par, r=(rng.randint(0, UL), rng.randint(0, UL) + 3), l=l)))
                for i in range(-len(l) - 1, len(l) + 2):
                    for fn in ("get_exon", "get_following_exon", "get_preceding_exon"):
                        cases.append((kind + "." + fn, dict(par, r=reg, l=l, i=i)))
                for pa in [-1] + list(range(0, UL + 2)):
                    for pt in [-1] + list(range(0, UL + 2)):
                        if (pa == -1 or pt == -1) and rng.random() < (0.3 if quick else 0.8):
                            cases.append((kind + ".truncate_read_to_polya", dict(par, l=l, pa=pa, pt=pt)))
    pairs = list(itertools.product(lists, lists))
    pairs = rng.sample(pairs, min(len(pairs), 3000 if quick else 20000))
    for l1, l2 in pairs:
        k = rng.choice(ks)
        for fn in ("read_coverage_fraction", "jaccard_similarity", "merge_ranges"):
            cases.append(("S." + fn, {"k": k, "l1": l1, "l2": l2}))
            cases.append(("M." + fn, {"L": LL, "l1": l1, "l2": l2}))
    for _ in range(150 if quick else 1500):
        l1 = G.rand_sd_list(rng, rng.randint(1, 60), 10 ** 9)
        l2 = G.rand_sd_list(rng, rng.randint(1, 60), 10 ** 9) if rng.random() < 0.5 else G.perturb(rng, l1)
        p = G.rand_point(rng, l1)
        k = rng.choice(SHIFTS)
        L = 3 * 10 ** 9
        for kind, par in (("S", {"k": k}), ("M", {"L": L})):
            for fn in ("read_coverage_fraction", "jaccard_similarity", "merge_ranges"):
                cases.append((kind + "." + fn, dict(par, l1=l1, l2=l2)))
            for fn in ("sum_intervals_to_point", "sum_intervals_from_point", "interval_bin_search", "interval_bin_search_rev"):
                cases.append((kind + "." + fn, dict(par, l=l1, p=p)))
            cases.append((kind + ".junctions_from_blocks", dict(par, l=l1)))
            cases.append((kind + ".intervals_total_length", dict(par, l=l1)))
            cases.append((kind + ".get_exons", dict(par, r=(l1[0][0] - 10, l1[-1][1] + 10), l=l1)))
            cases.append((kind + ".truncate_read_to_polya", dict(par, l=l1, pa=rng.choice([-1, p]), pt=-1)))
    # unsorted / overlapping lists: the translation theorems hold for ALL lists
    for _ in range(100 if quick else 1000):
        l = [G.rand_iv(rng, 50, wf=rng.random() < 0.8) for _ in range(rng.randint(0, 5))]
        l2 = [G.rand_iv(rng, 50, wf=rng.random() < 0.8) for _ in range(rng.randint(0, 5))]
        k = rng.choice(ks)
        cases.append(("S.intervals_total_length", {"k": k, "l": l}))
        cases.append(("S.junctions_from_blocks", {"k": k, "l": l}))
        cases.append(("M.junctions_from_blocks", {"L": 60, "l": l}))
        cases.append(("M.intervals_total_length", {"L": 60, "l": l}))
        cases.append(("S.read_coverage_fraction", {"k": k, "l1": l, "l2": l2}))
        cases.append(("S.extra_exon_percentage", {"k": k, "r": G.rand_iv(rng, 50), "l": l}))
        cases.append(("M.extra_exon_percentage", {"L": 60, "r": G.rand_iv(rng, 50), "l": l}))
    # --- split_exons
    for ex in G.all_exon_sets(5 if quick else 6, 3):
        cases.append(("S.split_exons", {"k": rng.choice(ks), "l": ex}))
        cases.append(("M.split_exons", {"L": 9, "l": ex}))
    for _ in range(100 if quick else 1000):
        ex = G.rand_exon_set(rng, rng.randint(1, 30), 10 ** 6)
        cases.append(("S.split_exons", {"k": rng.choice(SHIFTS), "l": ex}))
        cases.append(("M.split_exons", {"L": 2 * 10 ** 6, "l": ex}))
    # --- profiles (C19's generators, transformed)
    prof = G.isoform_profile_cases(rng, True)
    prof = rng.sample(prof, min(len(prof), 1500 if quick else 6000))
    for op, kw in prof:
        cases.append(("S." + op, dict(kw, k=rng.choice(ks))))
        cases.append(("M." + op, dict(kw, L=12)))
    for op, kw in G.overlapping_profile_cases(rng, True) + G.nonoverlapping_profile_cases(rng, True):
        if rng.random() < (0.25 if quick else 1.0):
            mx = max([x for l_ in (kw["known"], kw["read"]) for r in l_ for x in r] + [10])
            cases.append(("S." + op, dict(kw, k=rng.choice(ks))))
            cases.append(("M." + op, dict(kw, L=mx + rng.randint(1, 5))))
    for _ in range(300 if quick else 3000):
        cases += genome_profile_cases(rng)
    return cases


def genome_profile_cases(rng):
    """genome-scale profile inputs inside `profile_mirror_domain` (features >= 30 bp, gaps >= 30 bp)"""
    known = G.rand_sd_list(rng, rng.randint(1, 10), 10 ** 6)
    known = [(a, b + 29) for a, b in known]
    fixed = []
    pos = 0
    for a, b in known:
        a = max(a, pos + 40)
        b = max(b, a + 29)
        fixed.append((a, b))
        pos = b
    known = fixed
    read = []
    for a, b in known:
        r = rng.random()
        if r < 0.15:
            continue
        da = rng.choice([0, 0, 0, 2, -2, 5, -7, 11])
        db = rng.choice([0, 0, 0, 2, -2, 5, -7, 11])
        read.append((a + da, b + db))
    if not read:
        read = [known[0]]
    d = rng.choice([0, 4, 6, 12])
    L = known[-1][1] + 10 ** 4
    k = rng.choice(SHIFTS)
    pa = rng.choice([-1, -1, read[-1][1], read[-1][1] - 3])
    pt = rng.choice([-1, -1, read[0][0], read[0][0] + 3])
    out = []
    no = {"known": known, "read": read, "polya": pa, "polyt": pt, "d": d, "min_ov": 5}
    out.append(("S.nonoverlapping_profile", dict(no, k=k)))
    out.append(("M.nonoverlapping_profile", dict(no, L=L)))
    introns_k = [(known[i][1] + 1, known[i + 1][0] - 1) for i in range(len(known) - 1)]
    introns_r = [(read[i][1] + 1, read[i + 1][0] - 1) for i in range(len(read) - 1)]
    if introns_k and introns_r:
        extra = [(a + 3, b) for a, b in introns_k[:1]] if rng.random() < 0.3 else []
        ik = sorted(set(introns_k + extra))
        ov = {"kind": "intron", "known": ik, "gene_region": (known[0][0], known[-1][1]), "read": introns_r,
              "mapped": (read[0][0], read[-1][1]), "polya": pa, "polyt": pt, "d": d, "abs_d": 20}
        out.append(("S.overlapping_profile", dict(ov, k=k)))
        out.append(("M.overlapping_profile", dict(ov, L=L)))
    ex = {"kind": "exon", "known": known, "gene_region": (known[0][0], known[-1][1]), "read": read,
          "mapped": (read[0][1] + d, read[-1][0] - d), "polya": pa, "polyt": pt, "d": d, "abs_d": 0}
    out.append(("S.overlapping_profile", dict(ex, k=k)))
    out.append(("M.overlapping_profile", dict(ex, L=L)))
    return out


def transformation_cases(ctx):
    rng = ctx.rng
    cases = []
    for _ in range(60):
        l = [G.rand_iv(rng, 1000, wf=rng.random() < 0.8) for _ in range(rng.randint(0, 6))]
        cases.append(("T.shift_list", {"k": rng.choice(SHIFTS + [-3]), "l": l}))
        cases.append(("T.mirror_list", {"L": rng.choice([1000, 5000]), "l": l}))
    for p in (-1, 0, 1, 17):
        cases.append(("T.shift_pos", {"k": 256, "p": p}))
        cases.append(("T.mirror_pos", {"L": 100, "p": p}))
    return cases


def impl_transformation(op, kw):
    if op == "T.shift_list":
        return vlib.canon(T.shift_l(kw["k"], _tl(kw["l"])))
    if op == "T.mirror_list":
        return vlib.canon(T.mirror_l(kw["L"], _tl(kw["l"])))
    if op == "T.shift_pos":
        return T.shift_pos(kw["k"], kw["p"])
    if op == "T.mirror_pos":
        return T.mirror_pos(kw["L"], kw["p"])
    raise RuntimeError(op)


# ------------------------------------------------------------------------------------------------
# correspondence

def correspondence(ctx):
    # 1. the transformations of the model are the harness's transformations
    tc = transformation_cases(ctx)
    outs = ctx.driver.run([vlib.req("C11." + op, **kw) for op, kw in tc])
    for (op, kw), mo in zip(tc, outs):
        ctx.evaluations += 1
        ctx.count("op:" + op)
        io = impl_transformation(op, kw)
        ctx.traces_validated += 1
        if mo != io:
            ctx.disagree(op, kw, mo, io)
    # 2. left/right event tables: model (generated enum + swapLR) vs the Python enum
    event_table_correspondence(ctx)
    # 3. the polyA / polyT code pairs, the canonical splice-site tables
    polya_model_correspondence(ctx)
    canonical_correspondence(ctx)
    # 4. relations: both sides on the model and on the real code
    cases = gen_relation_cases(ctx)
    outs = ctx.driver.run([vlib.req("C11." + name, **kw) for name, kw in cases])
    for (name, kw), mo in zip(cases, outs):
        ctx.evaluations += 1
        ctx.count("rel:" + name)
        if isinstance(mo, dict) and "driver_error" in mo:
            ctx.disagree(name, kw, mo, None)
            continue
        dom = in_domain(name, kw)
        if dom is False:
            ctx.count("outside_hypotheses")
            continue
        il, ir = impl_rel(name, kw)
        ctx.traces_validated += 1
        ml, mr = mo["lhs"], mo["rhs"]
        ok_corr = _eq_mi(ml, il) and _eq_mi(mr, ir)
        if dom == "gene":
            ml, mr, il, ir = (_gene_only(x) for x in (ml, mr, il, ir))
            dom = True
        # Python wraps negative indices where the model flags an error (C19): only well-formed lists are compared there
        ok_model = vlib.same(ml, mr)
        ok_impl = _eq_ii(il, ir)
        if name in ("M.overlaps_at_least", "M.overlaps_at_least_when_overlap") and T.end_tie(kw["a"], kw["b"], kw["d"]):
            ctx.count("end_tie_inputs")          # counted only: they are ordinary inputs of the relation
        if not ok_corr:
            ctx.disagree(name, kw, {"lhs": ml, "rhs": mr}, {"lhs": il, "rhs": ir})
        elif not ok_model:
            ctx.disagree("model_relation:" + name, kw, {"lhs": ml, "rhs": mr}, {"lhs": il, "rhs": ir})
        elif not ok_impl:
            ctx.disagree("impl_relation:" + name, kw, {"lhs": ml, "rhs": mr}, {"lhs": il, "rhs": ir})
        else:
            if vlib.is_err(ml):
                ctx.count("model_error")
            elif dom is True:
                ctx.mark_nontrivial([name, kw])
        if len(ctx.samples) < 8 and ctx.rng.random() < 0.0005:
            ctx.sample({"relation": name, "input": vlib.canon(kw), "model": mo, "impl": {"lhs": il, "rhs": ir}})
    if not ctx.samples and cases:
        ctx.sample({"relation": cases[0][0], "input": vlib.canon(cases[0][1]), "model": outs[0]})
    # 5. equivariance relations of the merged models (props/c11ext.py + props/c11x_*.py)
    X.correspondence(ctx)


def polya_model_correspondence(ctx):
    """Model/C11Polya.lean vs src/polya_verification.py, and the shift / mirror relations on the model's values"""
    vlib.repo_on_path()
    import src.polya_verification as PV
    rng = ctx.rng
    quick = ctx.tier == "quick"
    cases = gen_polya_pair_cases(rng, 1500 if quick else 15000)
    # small exhaustive-ish universe
    for l in G.all_sd_lists(6, 3):
        if l:
            for pos in [-1] + list(range(0, 8)):
                cases.append({"exons": l, "pos": pos, "count": rng.randint(0, len(l) + 1), "L": 9, "k": rng.choice([1, 255]),
                              "max_fake": rng.choice([0, 1, 3])})
    lines = []
    for kw in cases:
        ex, pos, cnt, L, k, mf = _tl(kw["exons"]), kw["pos"], kw["count"], kw["L"], kw["k"], kw["max_fake"]
        variants = [(ex, pos)]
        ok_m = pos == -1 or L + 1 - pos != -1
        ok_s = pos == -1 or pos + k != -1
        variants.append((T.mirror_l(L, ex), T.mirror_pos(L, pos)) if ok_m else None)
        variants.append((T.shift_l(k, ex), T.shift_pos(k, pos)) if ok_s else None)
        kw["_variants"] = variants
        for v in variants:
            if v is None:
                continue
            l_, p_ = v
            lines.append(vlib.req("C11.P.count_polya_exons", l=l_, p=p_, max_fake=mf))
            lines.append(vlib.req("C11.P.count_polyt_exons", l=l_, p=p_, max_fake=mf))
            lines.append(vlib.req("C11.P.shift_polya", l=l_, p=p_, count=cnt))
            lines.append(vlib.req("C11.P.shift_polyt", l=l_, p=p_, count=cnt))
    outs = ctx.driver.run(lines)
    it = iter(outs)
    for kw in cases:
        ex, pos, cnt, L, k, mf = _tl(kw["exons"]), kw["pos"], kw["count"], kw["L"], kw["k"], kw["max_fake"]
        fixer = PV.PolyAFixer(_P(max_fake_terminal_exon_len=mf))
        vals = []
        for v in kw.pop("_variants"):
            if v is None:
                vals.append(None)
                continue
            l_, p_ = v
            mo = [next(it) for _ in range(4)]
            io = [fixer.count_polya_exons(l_, p_), fixer.count_polyt_exons(l_, p_),
                  vlib.call_impl(PV.shift_polya, l_, cnt, p_), vlib.call_impl(PV.shift_polyt, l_, cnt, p_)]
            ctx.evaluations += 4
            ctx.traces_validated += 4
            ctx.count("op:P.polya_pairs", 4)
            for name, m_, i_ in zip(("count_polya_exons", "count_polyt_exons", "shift_polya", "shift_polyt"), mo, io):
                if not vlib.same(m_, i_):
                    ctx.disagree("P." + name, {"l": l_, "p": p_, "count": cnt, "max_fake": mf}, m_, i_)
            vals.append(mo)
        base, mir, sh = vals
        inp = {k_: kw[k_] for k_ in ("exons", "pos", "count", "L", "k", "max_fake")}
        mp = lambda v: v if vlib.is_err(v) or v == -1 and pos == -1 else L + 1 - v
        sp = lambda v: v if vlib.is_err(v) or v == -1 and pos == -1 else v + k
        if mir is not None:
            exp = [base[1], base[0], mp(base[3]), mp(base[2])]       # A <-> T, positions mirrored
            if mir != exp:
                ctx.disagree("model_relation:M.polya_pairs", inp, mir, exp)
            elif not vlib.is_err(base[2]):
                ctx.mark_nontrivial(["P.mirror", inp])
        if sh is not None:
            exp = [base[0], base[1], sp(base[2]), sp(base[3])]
            if sh != exp:
                ctx.disagree("model_relation:S.polya_pairs", inp, sh, exp)


def _enum():
    vlib.repo_on_path()
    import src.isoform_assignment as IA
    return IA


CLASS_FNS = ["is_consistent", "is_minor_error", "is_alignment_artifact", "is_major_elongation", "is_minor_elongation",
             "is_major_inconsistency", "is_intronic_inconsistency"]


def impl_event_class(IA, e):
    d = {f: bool(getattr(IA.MatchEventSubtype, f)(e)) for f in CLASS_FNS}
    c = IA.event_subtype_cost.get(e)
    d["cost"] = None if c is None else int(round(c * 100))
    return d


def event_table_correspondence(ctx):
    IA = _enum()
    names = [e.name for e in IA.MatchEventSubtype]
    outs = ctx.driver.run([vlib.req("C11.T.swap_lr", name=n) for n in names] +
                          [vlib.req("C11.T.event_class", name=n) for n in names])
    for i, n in enumerate(names):
        ctx.evaluations += 2
        ctx.count("op:T.swap_lr")
        ctx.count("op:T.event_class")
        sw = T.swap_lr(n)
        exp = sw if sw in names else {"error": "unpaired"}
        if outs[i] != exp:
            ctx.disagree("T.swap_lr", {"name": n}, outs[i], exp)
        io = impl_event_class(IA, IA.MatchEventSubtype[n])
        ctx.traces_validated += 2
        if outs[len(names) + i] != io:
            ctx.disagree("T.event_class", {"name": n}, outs[len(names) + i], io)
        elif outs[i] == exp:
            ctx.mark_nontrivial(["event", n])


# ------------------------------------------------------------------------------------------------
# oracle

def oracle_relation(name, kw):
    """None if the relation holds on the real code (or is outside its hypotheses), else a detail string"""
    dom = in_domain(name, kw)
    if dom is False:
        return None
    il, ir = impl_rel(name, kw)
    if dom == "gene":
        il, ir = _gene_only(il), _gene_only(ir)
    ok = _eq_ii(il, ir)
    return None if ok else "transformed call gives %s, transformed result is %s" % (il, ir)


def oracle_event_tables():
    """left/right duality of the real enum tables: -> list of (kind, input, detail)"""
    IA = _enum()
    res = []
    names = {e.name for e in IA.MatchEventSubtype}
    for e in IA.MatchEventSubtype:
        sw = T.swap_lr(e.name)
        if sw not in names:
            res.append(("event_tables", {"event": e.name}, "no left/right partner named %s" % sw))
            continue
        p = IA.MatchEventSubtype[sw]
        a, b = impl_event_class(IA, e), impl_event_class(IA, p)
        if a != b:
            res.append(("event_tables", {"event": e.name}, "classification / cost differs from %s: %s vs %s" % (sw, a, b)))
        tab = IA.match_subtype_printable_names
        if (e in tab) != (p in tab):
            res.append(("event_tables", {"event": e.name}, "printable name defined for one side only"))
        elif e in tab and p is not e:
            x, y = tab[e], tab[p]
            if (x[0], x[1], x[2]) != (y[1], y[0], y[2]):
                res.append(("event_tables", {"event": e.name}, "printable names %s / %s are not 5'/3' duals" % (x, y)))
    return res


# ---- O3: mirrored code pairs of polya_verification / polya_finder

class _P:
    def __init__(self, **kw):
        self.__dict__.update(kw)


def polya_pair_case(kw):
    """count_polya_exons/count_polyt_exons and shift_polya/shift_polyt on mirrored inputs; shift invariance of each"""
    vlib.repo_on_path()
    import src.polya_verification as PV
    ex = _tl(kw["exons"])
    pos, cnt, L, k, mf = kw["pos"], kw["count"], kw["L"], kw["k"], kw["max_fake"]
    if pos != -1 and L + 1 - pos == -1:
        return None          # the mirrored position would be the sentinel
    fixer = PV.PolyAFixer(_P(max_fake_terminal_exon_len=mf))
    mex = T.mirror_l(L, ex)
    sex = T.shift_l(k, ex)
    a = fixer.count_polya_exons(ex, pos)
    b = fixer.count_polyt_exons(mex, T.mirror_pos(L, pos))
    if a != b:
        return "count_polya_exons=%d but count_polyt_exons(mirror)=%d" % (a, b)
    a2 = fixer.count_polyt_exons(ex, pos)
    b2 = fixer.count_polya_exons(mex, T.mirror_pos(L, pos))
    if a2 != b2:
        return "count_polyt_exons=%d but count_polya_exons(mirror)=%d" % (a2, b2)
    if pos != -1 and pos + k != -1:
        if fixer.count_polya_exons(sex, pos + k) != a or fixer.count_polyt_exons(sex, pos + k) != a2:
            return "count_poly*_exons not shift invariant"
    if 0 <= cnt < len(ex):
        s = PV.shift_polya(ex, cnt, pos)
        t = PV.shift_polyt(mex, cnt, T.mirror_pos(L, pos))
        if T.mirror_pos(L, s) != t:
            return "shift_polya=%d, shift_polyt(mirror)=%d (expected %d)" % (s, t, T.mirror_pos(L, s))
        if pos != -1 and pos + k != -1 and s != -1 and s + k != -1:
            if PV.shift_polya(sex, cnt, pos + k) != s + k:
                return "shift_polya not shift equivariant"
            t0 = PV.shift_polyt(ex, cnt, pos)
            if t0 != -1 and t0 + k != -1 and PV.shift_polyt(sex, cnt, pos + k) != t0 + k:
                return "shift_polyt not shift equivariant"
    return None


def gen_polya_pair_cases(rng, n):
    out = []
    for _ in range(n):
        ex = G.rand_sd_list(rng, rng.randint(1, 6), 5000)
        ex = [(a, b) for a, b in ex]
        pos = rng.choice([-1, ex[-1][1], ex[-1][0], ex[-1][0] + 3, ex[0][1], ex[0][0] - 2, rng.randint(ex[0][0], ex[-1][1])])
        out.append({"exons": ex, "pos": pos, "count": rng.randint(0, len(ex)), "L": ex[-1][1] + rng.randint(10, 500),
                    "k": rng.choice(SHIFTS), "max_fake": rng.choice([0, 10, 40])})
    return out


class _Aln:
    """the three attributes of a pysam record that polya_finder reads"""

    def __init__(self, cigartuples, seq, reference_start):
        self.cigartuples = cigartuples
        self.seq = seq
        self.reference_start = reference_start
        self.reference_end = reference_start + sum(n for op, n in cigartuples if op in (0, 2, 3, 7, 8))
        self.query_name = "r"


def polya_finder_case(kw):
    """find_polya_tail on an alignment vs find_polyt_head on its mirror image (reverse-complemented sequence,
    reversed CIGAR, reference_start' = L - reference_end).  Returns (kind, detail) or None.
    Expected image: polyt' = L - polya  (the finder reports polyA as the 1-based last aligned base + offset and polyT as
    the 0-based first aligned base - offset; see docs/C11.md `polyt_off_by_one`)."""
    vlib.repo_on_path()
    import src.polya_finder as PF
    cig = [tuple(x) for x in kw["cigar"]]
    seq, start, L, k = kw["seq"], kw["start"], kw["L"], kw["k"]
    f = PF.PolyAFinder()
    a = _Aln(cig, seq, start)
    m = _Aln(cig[::-1], T.synth.revcomp(seq), L - a.reference_end)
    s = _Aln(cig, seq, start + k)
    res = []
    for tail, head in ((f.find_polya_external, f.find_polyt_external), (f.find_polya_internal, f.find_polyt_internal)):
        pa, pt = tail(a), head(m)
        if tail(s) != (pa if pa == -1 else pa + k):
            return ("finder_shift", "%s not shift equivariant: %s vs %s" % (tail.__name__, tail(s), pa))
        pt0 = head(a)
        if pt0 > 1 and head(s) != pt0 + k:
            return ("finder_shift", "%s not shift equivariant: %s vs %s" % (head.__name__, head(s), pt0))
        if pa != -1 and pt == max(1, L + 1 - pa):
            continue                                  # exact mirror image
        if pa == -1 and pt == -1:
            continue
        clean = kw.get("clean", False)
        if clean and tail == f.find_polya_external:
            # pinned law of the known finding for clean tails: the polyT position is the mirror image minus 2
            if pa != -1 and pt == max(1, L - 1 - pa):
                res.append(("finder_position", "%s=%s, mirrored %s=%s, exact mirror image is %s" % (tail.__name__, pa, head.__name__, pt, L + 1 - pa)))
            else:
                return ("finder_clean_tail", "%s=%s, mirrored %s=%s on a clean 20+ bp tail" % (tail.__name__, pa, head.__name__, pt))
        elif (pa == -1) != (pt == -1):
            # c16x: after `fix: the polyT head window is the mirror image of the polyA tail window` both functions scan the
            # same bases (Props/C11FinderMirror.lean finder_scan_mirror_dual / finder_not_found_mirror_dual): found vs
            # not found is no longer part of the listed finding (its kind `finder_window` is not emitted any more)
            return ("finder_scan_asymmetry", "%s=%s but mirrored %s=%s" % (tail.__name__, pa, head.__name__, pt))
        elif pa >= a.reference_end and pt != max(1, L - 1 - pa):
            # tail starts in the soft clip: the position law of finder_mirror_minus_two (mirror image - 2) is exact
            return ("finder_position_law", "%s=%s (in the soft clip), mirrored %s=%s, expected mirror image - 2 = %s" % (
                tail.__name__, pa, head.__name__, pt, max(1, L - 1 - pa)))
        else:
            res.append(("finder_position", "%s=%s, mirrored %s=%s, exact mirror image is %s" % (tail.__name__, pa, head.__name__, pt, L + 1 - pa)))
    return res[0] if res else None


def gen_finder_cases(rng, n):
    out = []
    for _ in range(n):
        nb = rng.randint(1, 3)
        cig = []
        seq = ""
        for i in range(nb):
            if i:
                cig.append((3, rng.randint(80, 500)))
            ln = rng.randint(60, 300)
            cig.append((0, ln))
            seq += "".join(rng.choice("ACGT") for _ in range(ln))
        tail = rng.choice([0, 0, 12, 20, 30, 60])
        clean = False
        if tail:
            cig.append((4, tail))
            if rng.random() < 0.5 and tail >= 20:
                clean = True
                seq = seq[:-4] + "".join(rng.choice("CGT") for _ in range(4)) + "A" * tail
            else:
                seq += "".join("A" if rng.random() < 0.95 else rng.choice("CGT") for _ in range(tail))
        if not clean and rng.random() < 0.2:
            # internal A-rich stretch at the end of the aligned part
            seq = seq[:len(seq) - tail - 25] + "A" * 25 + seq[len(seq) - tail:]
        start = rng.randint(100, 5000)
        out.append({"cigar": cig, "seq": seq, "start": start, "L": start + 20000, "k": rng.choice(SHIFTS), "clean": clean})
    return out


# ---- splice-site strand detection (canonical tables)

BASES = "ACGTN"
_FLIP = {"+": "-", "-": "+", ".": "."}


def _rc(s):
    return T.synth.revcomp(s.upper()) if s.isupper() else "".join(
        (T.synth.COMP[c.upper()].lower() if c.islower() else T.synth.COMP[c]) for c in reversed(s))


def all_site_pairs():
    di = [a + b for a in BASES for b in BASES]
    return [(l, r) for l in di for r in di]


def canonical_correspondence(ctx):
    """Model/C11Canonical.lean vs src/common.py get_intron_strand / get_strand and gene_info.StrandDetector"""
    vlib.repo_on_path()
    import src.common as C
    from src.gene_info import StrandDetector
    rng = ctx.rng
    pairs = all_site_pairs()
    outs = ctx.driver.run([vlib.req("C11.K.intron_strand", l=l, r=r) for l, r in pairs] +
                          [vlib.req("C11.K.mirror_sites", l=l, r=r) for l, r in pairs])
    n = len(pairs)
    model_strand = {}
    for i, (l, r) in enumerate(pairs):
        ref = l + "NNN" + r
        io = C.get_intron_strand((1, len(ref)), ref)
        ctx.evaluations += 2
        ctx.traces_validated += 2
        ctx.count("op:K.intron_strand")
        ctx.count("op:K.mirror_sites")
        model_strand[(l, r)] = outs[i]
        if outs[i] != io:
            ctx.disagree("K.intron_strand", {"l": l, "r": r}, outs[i], io)
        m = [_rc(r), _rc(l)]
        if outs[n + i] != m:
            ctx.disagree("K.mirror_sites", {"l": l, "r": r}, outs[n + i], m)
        elif io != ".":
            ctx.mark_nontrivial(["K.intron_strand", l, r])
    for (l, r), st in model_strand.items():        # the theorem instance on the model's values
        if model_strand[(_rc(r), _rc(l))] != _FLIP[st]:
            ctx.disagree("model_relation:M.intron_strand", {"l": l, "r": r}, model_strand[(_rc(r), _rc(l))], _FLIP[st])
    # site extraction and the votes
    lines, cases = [], []
    for _ in range(150 if ctx.tier == "quick" else 1500):
        ref = "".join(rng.choice("ACGT") for _ in range(rng.randint(8, 40)))
        a = rng.randint(1, len(ref) - 3)
        b = rng.randint(a + 3, len(ref))
        sites = [rng.choice(pairs) if rng.random() < 0.4 else rng.choice(
            [("GT", "AG"), ("GC", "AG"), ("AT", "AC"), ("CT", "AC"), ("CT", "GC"), ("GT", "AT"), ("AT", "GT")])
            for _ in range(rng.randint(0, 5))]
        pa, pt = rng.random() < 0.3, rng.random() < 0.3
        cases.append((ref, a, b, sites, pa, pt))
        lines.append(vlib.req("C11.K.sites_of_intron", ref=ref, a=a, b=b))
        lines.append(vlib.req("C11.K.strand", sites=sites, has_polya=pa, has_polyt=pt))
    outs = ctx.driver.run(lines)
    for i, (ref, a, b, sites, pa, pt) in enumerate(cases):
        ctx.evaluations += 2
        ctx.traces_validated += 2
        ctx.count("op:K.sites_of_intron")
        ctx.count("op:K.strand")
        io = [ref[a - 1:a + 1], ref[b - 2:b]]
        if outs[2 * i] != io:
            ctx.disagree("K.sites_of_intron", {"ref": ref, "a": a, "b": b}, outs[2 * i], io)
        # a reference that carries the chosen site pairs
        seq, introns = "", []
        for l, r in sites:
            start = len(seq) + 6
            seq += "CCCCC" + l + "NNNN" + r
            introns.append((start, len(seq)))
        seq += "CCCCC"
        det = StrandDetector(seq)
        io = {"get_strand": C.get_strand(introns, seq), "detector": det.get_strand(introns, pa, pt),
              "clean": det.get_clean_strand(introns)}
        if outs[2 * i + 1] != io:
            ctx.disagree("K.strand", {"sites": sites, "has_polya": pa, "has_polyt": pt}, outs[2 * i + 1], io)
        elif sites:
            ctx.mark_nontrivial(["K.strand", sites, pa, pt])


def strand_case(kw):
    """reflection of the real strand detection: reverse-complemented reference, mirrored introns, polyA/T swapped"""
    vlib.repo_on_path()
    import src.common as C
    from src.gene_info import StrandDetector
    ref, introns, pa, pt = kw["ref"], _tl(kw["introns"]), kw["has_polya"], kw["has_polyt"]
    L = len(ref)
    mref = _rc(ref)
    mi = T.mirror_l(L, introns)
    for i, m in zip(introns, reversed(mi)):
        a, b = C.get_intron_strand(i, ref), C.get_intron_strand(m, mref)
        if b != _FLIP[a]:
            return "get_intron_strand%s=%s on %s..%s, mirrored %s" % (i, a, ref[i[0] - 1:i[0] + 1], ref[i[1] - 2:i[1]], b)
    a, b = C.get_strand(introns, ref.upper()), C.get_strand(mi, mref.upper())
    if b != _FLIP[a]:
        return "get_strand=%s, mirrored %s" % (a, b)
    d, dm = StrandDetector(ref), StrandDetector(mref)
    a, b = d.get_strand(introns, pa, pt), dm.get_strand(mi, pt, pa)
    if b != _FLIP[a]:
        return "StrandDetector.get_strand=%s, mirrored %s" % (a, b)
    a, b = d.get_clean_strand(introns), dm.get_clean_strand(mi)
    if b != _FLIP[a]:
        return "StrandDetector.get_clean_strand=%s, mirrored %s" % (a, b)
    k = kw["k"]
    sref = "".join("ACGT"[(j * 7) % 4] for j in range(k)) + ref
    if StrandDetector(sref).get_strand(T.shift_l(k, introns), pa, pt) != d.get_strand(introns, pa, pt):
        return "StrandDetector.get_strand not shift invariant"
    return None


def gen_strand_cases(rng, n):
    out = []
    for l, r in all_site_pairs():        # every dinucleotide pair once, as a single intron
        ref = "CCCC" + l + "TTTTT" + r + "GG"
        out.append({"ref": ref, "introns": [(5, 13)], "has_polya": False, "has_polyt": False, "k": 3})
    canon = [("GT", "AG"), ("GC", "AG"), ("AT", "AC"), ("CT", "AC"), ("CT", "GC"), ("GT", "AT")]
    for _ in range(n):
        seq, introns = "", []
        for _ in range(rng.randint(1, 5)):
            l, r = rng.choice(canon) if rng.random() < 0.7 else (rng.choice("ACGT") + rng.choice("ACGT"), rng.choice("ACGT") + rng.choice("ACGT"))
            seq += "".join(rng.choice("ACGT") for _ in range(rng.randint(3, 12)))
            start = len(seq) + 1
            seq += l + "".join(rng.choice("ACGT") for _ in range(rng.randint(1, 9))) + r
            introns.append((start, len(seq)))
        seq += "".join(rng.choice("ACGT") for _ in range(rng.randint(3, 12)))
        if rng.random() < 0.3:
            seq = seq.lower()
        out.append({"ref": seq, "introns": introns, "has_polya": rng.random() < 0.3, "has_polyt": rng.random() < 0.3,
                    "k": rng.choice([1, 7, 255])})
    return out


# ---- start / end threading of the model construction (real IntronPathProcessor on a hand-built graph)

def _processor(out_edges, in_edges):
    vlib.repo_on_path()
    from collections import defaultdict
    from src.graph_based_model_construction import IntronPathProcessor
    from src.intron_graph import IntronGraph
    g = IntronGraph.__new__(IntronGraph)
    g.outgoing_edges = defaultdict(set)
    g.incoming_edges = defaultdict(set)
    for k_, vs in out_edges.items():
        for v in vs:
            g.outgoing_edges[k_].add(v)
    for k_, vs in in_edges.items():
        for v in vs:
            g.incoming_edges[k_].add(v)
    p = IntronPathProcessor.__new__(IntronPathProcessor)
    p.params = _P(apa_delta=50, delta=6)
    p.intron_graph = g
    return p


def thread_case(kw):
    """translation of thread_ends / thread_starts: the vertex chosen for the shifted graph is the shifted vertex"""
    intron = tuple(kw["intron"])
    out_v = [tuple(v) for v in kw["out"]]      # (type, pos) terminal vertices and (start, end) introns after `intron`
    in_v = [tuple(v) for v in kw["in"]]
    sh = lambda v, k: (v[0], v[1] + k) if v[0] < 0 else (v[0] + k, v[1] + k)
    base = _processor({intron: out_v}, {intron: in_v})
    res = []
    for pos, trusted in kw["queries"]:
        res.append((base.thread_ends(intron, pos, trusted), base.thread_starts(intron, pos, trusted)))
    for k in kw["ks"]:
        si = (intron[0] + k, intron[1] + k)
        p = _processor({si: [sh(v, k) for v in out_v]}, {si: [sh(v, k) for v in in_v]})
        for (pos, trusted), (e0, s0) in zip(kw["queries"], res):
            e1, s1 = p.thread_ends(si, pos + k, trusted), p.thread_starts(si, pos + k, trusted)
            if e1 != (None if e0 is None else sh(e0, k)):
                return "thread_ends(%s, %d, %s) = %s, after a shift by %d: %s" % (intron, pos, trusted, e0, k, e1)
            if s1 != (None if s0 is None else sh(s0, k)):
                return "thread_starts(%s, %d, %s) = %s, after a shift by %d: %s" % (intron, pos, trusted, s0, k, s1)
    return None


def thread_mirror_case(kw):
    """reflection of the threading: thread_starts on the mirrored graph (polyA <-> polyT, read end <-> read start,
    outgoing <-> incoming) must return the mirror image of what thread_ends returns, and vice versa"""
    intron = tuple(kw["intron"])
    L = kw["L"]
    sw = {-10: -20, -20: -10, -11: -21, -21: -11}
    mv = lambda v: (sw[v[0]], L + 1 - v[1]) if v[0] < 0 else (L + 1 - v[1], L + 1 - v[0])
    out_v = [tuple(v) for v in kw["out"]]
    in_v = [tuple(v) for v in kw["in"]]
    mi = (L + 1 - intron[1], L + 1 - intron[0])
    base = _processor({intron: out_v}, {intron: in_v})
    mir = _processor({mi: [mv(v) for v in in_v]}, {mi: [mv(v) for v in out_v]})
    for pos, trusted in kw["queries"]:
        e0, s1 = base.thread_ends(intron, pos, trusted), mir.thread_starts(mi, L + 1 - pos, trusted)
        if s1 != (None if e0 is None else mv(e0)):
            return "thread_ends(%s, %d, %s) = %s but thread_starts on the mirror image = %s (expected %s)" % (
                intron, pos, trusted, e0, s1, None if e0 is None else mv(e0))
        s0, e1 = base.thread_starts(intron, pos, trusted), mir.thread_ends(mi, L + 1 - pos, trusted)
        if e1 != (None if s0 is None else mv(s0)):
            return "thread_starts(%s, %d, %s) = %s but thread_ends on the mirror image = %s" % (intron, pos, trusted, s0, e1)
    return None


# witness of the listed finding `thread_mirror`: two polyA sites 90 bp apart, a tailed read ending 40 bp after the first
THREAD_MIRROR_WITNESS = {"intron": (1000, 2000), "out": [(-10, 2400), (-10, 2490)], "in": [], "queries": [(2440, True)],
                         "L": 10000}


SHIFTS_WIDE = [1, 2, 3, 5, 8, 13, 100, 255, 256, 1000, 1001, 2048, 4099]


def gen_thread_cases(rng, n):
    out = []
    for _ in range(n):
        a = rng.randint(1000, 50000)
        b = a + rng.randint(80, 2000)
        # terminal vertices right of the intron (for ends) / left of it (for starts): clusters 30..120 bp apart
        e0 = b + rng.randint(100, 600)
        ends = [e0 + d for d in sorted(rng.sample(range(0, 260, 5), rng.randint(1, 4)))]
        s0 = a - rng.randint(100, 600)
        starts = [s0 - d for d in sorted(rng.sample(range(0, 260, 5), rng.randint(1, 4)))]
        out_v = [(rng.choice([-10, -10, -11]), e) for e in ends]
        in_v = [(rng.choice([-20, -20, -21]), s_) for s_ in starts]
        if rng.random() < 0.4:
            out_v.append((b + rng.randint(50, 90), b + rng.randint(700, 900)))
            in_v.append((a - rng.randint(700, 900), a - rng.randint(50, 90)))
        queries = [(rng.choice(ends + starts) + rng.choice([-60, -45, -20, 0, 20, 45, 60]), rng.random() < 0.6) for _ in range(6)]
        out.append({"intron": (a, b), "out": out_v, "in": in_v, "queries": queries, "ks": rng.sample(SHIFTS_WIDE, 5)})
    return out


# ---- O4: real profile constructors + LongReadAssigner on generated genes and reads

def _params():
    """the matching parameters the pipeline uses for `--data_type nanopore` (isoquant.set_matching_options 'default')"""
    vlib.repo_on_path()
    from src.long_read_assigner import AmbiguityResolvingMethod
    return _P(delta=6, minor_exon_extension=50, major_exon_extension=300, max_intron_shift=60, max_missed_exon_len=100,
              max_fake_terminal_exon_len=40, max_suspicious_intron_abs_len=60, max_suspicious_intron_rel_len=1.0,
              min_abs_exon_overlap=10, min_rel_exon_overlap=0.2, micro_intron_length=50, max_intron_abs_diff=30,
              max_intron_rel_diff=0.2, apa_delta=50, minimal_exon_overlap=5, minimal_intron_absence_overlap=20,
              resolve_ambiguous=AmbiguityResolvingMethod.monoexon_and_fsm, correct_minor_errors=True, count_exons=True)


def assign(models, read, polya):
    """-> canonical assignment of one read by the real code: (type, [(isoform, classification, strand, sorted events)])"""
    vlib.repo_on_path()
    import logging
    from src.gene_info import GeneInfo, TranscriptModel, TranscriptModelType
    from src.long_read_assigner import LongReadAssigner
    from src.long_read_profiles import CombinedProfileConstructor
    from src.polya_finder import PolyAInfo
    logging.getLogger("IsoQuant").setLevel(logging.CRITICAL)
    p = _params()
    tms = [TranscriptModel("chr1", s, tid, gid, _tl(ex), TranscriptModelType.known) for (tid, gid, s, ex) in models]
    gi = GeneInfo.from_models(tms, p.delta)
    prof = CombinedProfileConstructor(gi, p).construct_profiles(_tl(read), PolyAInfo(*polya), [])
    ra = LongReadAssigner(gi, p).assign_to_isoform("r", prof)
    ms = []
    for m in ra.isoform_matches:
        ms.append([m.assigned_transcript, m.match_classification.name, m.transcript_strand,
                   sorted(e.event_type.name for e in m.match_subclassifications)])
    return [ra.assignment_type.name, sorted(ms, key=lambda x: str(x[0]))]


def has_end_tie(models, read, p):
    """the class `EndTie` of Props/C11.lean (a read block / the read span inside a known feature, sharing exactly one end
    with it, shorter than the threshold) -- the inputs on which the pre-fix overlap tests were not mirror-symmetric; used
    to COUNT such inputs in the evidence, never to skip them"""
    vlib.repo_on_path()
    from src.gene_info import GeneInfo
    exons = sorted({tuple(e) for _, _, _, ex in models for e in ex})
    try:
        split = GeneInfo.split_exons(exons)
    except Exception:
        split = exons
    introns = {(ex[i][1] + 1, ex[i + 1][0] - 1) for _, _, _, ex in models for i in range(len(ex) - 1)}
    span = (read[0][0], read[-1][1])
    for r in read:
        for s in split:
            if T.end_tie(tuple(r), tuple(s), p.minimal_exon_overlap):
                return True
    for i in introns:
        if T.end_tie(span, i, p.minimal_intron_absence_overlap) or T.end_tie(span, i, p.minor_exon_extension):
            return True
    return False


def _swap_assignment(a):
    fl = {"+": "-", "-": "+", ".": "."}
    return [a[0], [[t, c, fl.get(s, s), sorted(T.swap_lr(e) for e in ev)] for t, c, s, ev in a[1]]]


def flanking_both_sides(models, read):
    """class of the known finding `flanking_introns_one_side`: the read has introns on both sides of an isoform none
    of whose introns it matches (add_extra_out_exon_events names all of them after the side of the first one)"""
    ri = [(read[i][1] + 1, read[i + 1][0] - 1) for i in range(len(read) - 1)]
    for _, _, _, ex in models:
        s, e = ex[0][0], ex[-1][1]
        if any(i[0] < s for i in ri) and any(i[1] > e for i in ri):
            return True
    return False


def intron_shift_one_sided(models, read, p):
    """class of the known finding `intron_shift_left_site_only`: a read intron and an isoform intron of similar length
    whose LEFT ends are within max_intron_shift of each other while the RIGHT ends are not, or vice versa
    (JunctionComparator.classify_single_intron_alternation tests the left site only)"""
    ri = [(read[i][1] + 1, read[i + 1][0] - 1) for i in range(len(read) - 1)]
    for _, _, _, ex in models:
        for j in range(len(ex) - 1):
            ii = (ex[j][1] + 1, ex[j + 1][0] - 1)
            for r in ri:
                if r[0] <= ii[1] and ii[0] <= r[1] and \
                        (abs(r[0] - ii[0]) <= p.max_intron_shift) != (abs(r[1] - ii[1]) <= p.max_intron_shift):
                    return True
    return False


def assigner_case(kw):
    """-> (kind, detail) or None"""
    models = [(t, g, s, _tl(ex)) for t, g, s, ex in kw["models"]]
    read, polya = _tl(kw["read"]), tuple(kw["polya"])
    L, k = kw["L"], kw["k"]
    p = _params()
    base = assign(models, read, polya)
    sh = assign(T.shift_models(k, models), T.shift_l(k, read), T.shift_polya(k, polya))
    if sh != base:
        return ("assigner_shift", "shift by %d: %s vs %s" % (k, base, sh))
    mi = assign(T.mirror_models(L, models), T.mirror_l(L, read), T.mirror_polya(L, polya))
    exp = _swap_assignment(base)
    if mi != exp:
        strip = lambda a: [a[0], [[t, c, s, sorted(re.sub(r"_(left|right)", "", e) for e in ev)] for t, c, s, ev in a[1]]]
        if strip(mi) == strip(exp) and flanking_both_sides(models, read):
            return ("flanking_introns_one_side", "mirror image %s, expected %s" % (mi, exp))
        if intron_shift_one_sided(models, read, p):
            return ("intron_shift_left_site_only", "mirror image %s, expected %s" % (mi, exp))
        return ("assigner_mirror", "mirror image %s, expected %s" % (mi, exp))
    return None


# inputs on which the unchanged tree failed before the two `fix:` commits (known_findings.json "fixed") and the witness
# of the listed finding `flanking_introns_one_side`; replayed first on every run
REGRESSIONS = [
    {"models": [("T0", "G", "+", [(1000, 1399), (2400, 2459), (3460, 3579), (3980, 4039), (5040, 5069), (5150, 5209), (6210, 6269)]),
                ("T1", "G", "+", [(600, 1399), (2400, 2459), (3460, 3579), (3980, 4039), (5040, 5069), (5150, 5209), (6210, 6869)]),
                ("T2", "G", "+", [(3460, 3579), (5040, 5069)]),
                ("T3", "G", "+", [(1000, 1399), (2400, 2459), (3460, 3579), (3980, 4039), (5025, 5069)]),
                ("T4", "G", "+", [(1000, 1399), (2400, 2459), (3460, 3579), (3980, 4039), (5040, 5069), (5150, 5209), (6250, 6269)])],
     "read": [(2425, 2459), (3460, 3579), (3980, 4039), (5040, 5069), (6250, 6269)], "polya": (-1, -1, -1, -1), "L": 20000, "k": 255},
    {"models": [("T0", "G", "+", [(1000, 1119), (1520, 1919), (2070, 2469), (3470, 3529), (3680, 3709), (3790, 4189)]),
                ("T1", "G", "+", [(1000, 1159), (1520, 1919), (2070, 2469), (3470, 3529), (3790, 4189)]),
                ("T2", "G", "+", [(900, 1119), (1535, 1919), (2070, 2469), (3470, 3529), (3790, 4189)]),
                ("T3", "G", "+", [(700, 1119), (1520, 1919), (2070, 2469), (3470, 3529), (3680, 3709), (3790, 4289)])],
     "read": [(1460, 1919), (3470, 3729)], "polya": (-1, -1, -1, -1), "L": 20000, "k": 255},
    {"models": [("T0", "G", "+", [(1000, 1199), (1350, 1749), (1900, 1959), (2040, 2099)]), ("T1", "G", "+", [(1350, 1749)]),
                ("T2", "G", "+", [(1000, 1199), (1900, 1959)])],
     "read": [(1000, 1199), (1350, 1749), (2040, 2109)], "polya": (-1, -1, -1, -1), "L": 20000, "k": 255},
    {"models": [("T0", "G", "-", [(1500, 1559), (1710, 1909)]), ("T1", "G", "-", [(1500, 1519), (1710, 2209)]),
                ("T2", "G", "-", [(1500, 1599), (1765, 1909)]), ("T3", "G", "-", [(1500, 1574), (1710, 1909)])],
     "read": [(1200, 1599), (1762, 2109)], "polya": (-1, -1, -1, -1), "L": 30000, "k": 1000},
]


# audit2-C G7: the noise-free 3'-truncated read whose last block keeps 4 bases (and the 5'-truncated one): unique E_t1 in
# both orientations (pre-fix: unique vs ambiguous); run FIRST by the oracle so that the replay file names it
END_TIE_REGRESSIONS = [
    {"models": [("E_t0", "GE", "+", [(1003, 1220), (2121, 2305), (3002, 3225)]), ("E_t1", "GE", "+", [(1003, 1220), (2125, 2305), (3002, 3225)])],
     "read": [(1003, 1220), (2125, 2305), (3002, 3005)], "polya": (-1, -1, -1, -1), "L": 9000, "k": 255},
    {"models": [("E_t0", "GE", "+", [(1003, 1220), (2121, 2305), (3002, 3225)]), ("E_t1", "GE", "+", [(1003, 1220), (2125, 2305), (3002, 3225)])],
     "read": [(1217, 1220), (2125, 2305), (3002, 3225)], "polya": (-1, -1, -1, -1), "L": 9000, "k": 1000},
]


def gen_assigner_cases(rng, n):
    out = []
    while len(out) < n:
        models = T.rand_gene(rng)
        rr = T.rand_read(rng, models, noise=rng.random() < 0.6)
        if not rr:
            continue
        read, polya = rr
        out.append({"models": models, "read": read, "polya": polya, "L": 30000, "k": rng.choice(SHIFTS)})
    return out


# ---- O5: metamorphic runs of the real pipeline (search only)

def _pipeline():
    import pipeline as P
    return P


POS_EVENTS = ("correct_polya_site", "alternative_polya_site", "internal_polya", "alternative_tss")


def _canon_event(ev, inv_pos, inv_regions, swap):
    name, _, payload = ev.partition(":")
    if swap:
        name = T.swap_lr(name)
    if not payload:
        return name
    if re.fullmatch(r"-?\d+", payload):
        v = int(payload)
        if name.startswith(POS_EVENTS):
            v = inv_pos(v)
        return "%s:%d" % (name, v)
    regs = []
    for r in payload.split(","):
        m = re.fullmatch(r"(\d+)-(\d+)", r)
        if not m:
            return "%s:%s" % (name, payload)
        regs.append((int(m.group(1)), int(m.group(2))))
    return "%s:%s" % (name, ",".join("%d-%d" % r for r in inv_regions(regs)))


def _split_events(v):
    evs = []
    for tok in v.split(","):
        if evs and re.fullmatch(r"\d+-\d+", tok):
            evs[-1] += "," + tok        # continuation of the previous event's region list
        else:
            evs.append(tok)
    return evs


def _full_gtf_rows(P, path, inv, mirror):
    """EVERY record of an output GTF (gene, transcript, exon, …) with all its attributes, coordinates mapped back:
    (chr, feature, interval, strand, sorted attributes).  Canonicalised: the numbers of novel transcript / gene ids and
    fresh exon ids (allocated in coordinate order), the events of `alternatives` (left/right swapped under reflection,
    payload positions / regions mapped back), exon numbers of '.'-strand records (printed ascending in both
    orientations: mirror_dual_featLines_unstranded_witness)"""
    rows = []
    for f in P.parse_gtf(path):
        at = dict(f["attrs"])
        c_ = f["chr"]
        iv = inv["ivl"](c_, [(f["start"], f["end"])])[0]
        for k_ in list(at):
            v = at[k_]
            if k_ in ("transcript_id", "gene_id") and (v.startswith("transcript") or v.startswith("novel_gene")):
                at[k_] = re.sub(r"\d+", "N", v)
            elif k_ == "exon_id":
                at[k_] = "X"
            elif k_ == "alternatives":
                at[k_] = ",".join(sorted(_canon_event(e, lambda x: inv["pos"](c_, x), lambda l: inv["ivl"](c_, l), mirror)
                                         for e in _split_events(v)))
            elif k_ == "exon_number" and f["strand"] == ".":
                at[k_] = "E"
        rows.append((c_, f["feature"], iv, inv["strand"](f["strand"]), tuple(sorted(at.items()))))
    return sorted(rows)


def canon_outputs(outdir, prefix, inv, mirror):
    """all output files of a run, coordinates mapped back by `inv` (dict of functions), in canonical order.
    `inv`: {'pos': chr,int->int, 'ivl': chr,list->list (sorted), 'strand': s->s}"""
    P = _pipeline()
    files = P.out_files(outdir, prefix)
    res = {}
    # discovered / reference transcript models: ids of novel models are allocated in coordinate order, so they are
    # compared by exon chain
    chain_of = {}
    for key in ("transcript_models.gtf", "extended_annotation.gtf"):
        fn = "%s.%s" % (prefix, key)
        if fn not in files:
            continue
        tx = {}
        for f in P.parse_gtf(files[fn]):
            if f["feature"] == "exon":
                tx.setdefault((f["chr"], f["attrs"]["transcript_id"], f["strand"], f["attrs"].get("gene_id")), []).append((f["start"], f["end"]))
        rows = []
        for (c, tid, s, gid), ex in tx.items():
            chain = tuple(inv["ivl"](c, sorted(ex)))
            novel = "nic" in tid.split(".")[-1] or tid.startswith("transcript")
            ident = ("novel", re.sub(r"^transcript\d+", "transcript", tid).split(".")[-1]) if novel else ("known", tid)
            chain_of[tid] = (c, inv["strand"](s), chain) if novel else tid
            rows.append((c, inv["strand"](s), ident, ("novel_gene" if (gid or "").startswith("novel_gene") else gid), chain))
        res[key] = sorted(rows)
        res["FULL:" + key] = _full_gtf_rows(P, files[fn], inv, mirror)
    for key in ("transcript_model_counts.tsv", "transcript_model_tpm.tsv", "transcript_counts.tsv", "transcript_tpm.tsv",
                "gene_counts.tsv", "gene_tpm.tsv"):
        fn = "%s.%s" % (prefix, key)
        if fn not in files:
            continue
        rows, _, stats = P.read_table(files[fn])
        out = []
        for fid, vals in rows.items():
            k_ = chain_of.get(fid, fid) if key.startswith("transcript_model") else fid
            if isinstance(k_, str) and k_.startswith("novel_gene"):
                k_ = "novel_gene"
            out.append((str(k_), tuple(vals)))
        res[key] = sorted(out) + sorted((k_, tuple(v)) for k_, v in stats.items())
    fn = "%s.transcript_model_reads.tsv" % prefix
    if fn in files:
        rows = []
        for l in P.read_lines(files[fn]):
            r, t = l.split("\t")[:2]
            rows.append((r, str(chain_of.get(t, t))))
        res["transcript_model_reads.tsv"] = sorted(rows)
    fn = "%s.read_assignments.tsv" % prefix
    if fn in files:
        rows = []
        for d in P.read_assignments(files[fn]):
            c = d["chr"]
            ex = [tuple(int(x) for x in e.split("-")) for e in d["exons"].split(",")] if d.get("exons") not in (None, "", ".") else []
            evs = []
            for tok in ([] if d["assignment_events"] in (".", "") else d["assignment_events"].split(",")):
                if evs and re.fullmatch(r"\d+-\d+", tok):
                    evs[-1] += "," + tok        # continuation of the previous event's region list
                else:
                    evs.append(tok)
            evs = sorted(_canon_event(e, lambda v: inv["pos"](c, v), lambda l: inv["ivl"](c, l), mirror) for e in evs)
            rows.append((d["read_id"], c, inv["strand"](d["strand"]), d["isoform_id"], d["gene_id"], d["assignment_type"],
                         tuple(evs), tuple(inv["ivl"](c, ex)), d["additional_info"]))
        res["read_assignments.tsv"] = sorted(rows)
    fn = "%s.corrected_reads.bed" % prefix
    if fn in files:
        rows = []
        for b in P.read_bed(files[fn]):
            c, st = b[0], int(b[1])
            sizes = [int(x) for x in b[10].strip(",").split(",")]
            starts = [int(x) for x in b[11].strip(",").split(",")]
            blocks = [(st + s + 1, st + s + z) for s, z in zip(starts, sizes)]
            rows.append((b[3], c, inv["strand"](b[5]), tuple(inv["ivl"](c, blocks))))
        res["corrected_reads.bed"] = sorted(rows)
    fn = "%s.novel_vs_known.SQANTI-like.tsv" % prefix
    if fn in files:
        rows = []
        with open(files[fn]) as f:
            for l in f:
                p = l.rstrip("\n").split("\t")
                if not p or p[0] == "isoform" or len(p) < 15:
                    continue
                p[0] = re.sub(r"\d+", "N", p[0])            # novel ids are numbered in coordinate order
                p[2] = inv["strand"](p[2])
                ev = p[14].split(";")
                p[14] = ";".join(sorted(T.swap_lr(e) if mirror else e for e in ev))
                if mirror and len(p) > 38 and p[38] not in ("NA", ""):
                    # seq_A_downstream_TTS is printed in REFERENCE orientation: its mirror image is the reverse complement
                    p[38] = "".join(T.synth.COMP.get(c_, "N") for c_ in reversed(p[38].upper()))
                rows.append(tuple(p))
        res["SQANTI"] = sorted(rows)
    for key in ("exon_counts.tsv", "intron_counts.tsv"):
        fn = "%s.%s" % (prefix, key)
        if fn not in files:
            continue
        rows = []
        for l in P.read_lines(files[fn]):
            p = l.split("\t")
            iv = inv["ivl"](p[0], [(int(p[1]), int(p[2]))])[0]
            rows.append((p[0], iv, inv["strand"](p[3]), p[4], p[5], tuple(p[6:])))
        # the same feature may be listed in several rows (C13 finding): compare the per-feature sums
        agg = {}
        for r in rows:
            k_ = r[:5]
            cur = agg.get(k_)
            vals = [int(x) if re.fullmatch(r"-?\d+", x) else x for x in r[5]]
            if cur is None:
                agg[k_] = vals
            else:
                agg[k_] = [a + b if isinstance(a, int) and isinstance(b, int) else a for a, b in zip(cur, vals)]
        res[key] = sorted((k_, tuple(v)) for k_, v in agg.items())
    return res


def diff_outputs(a, b, limit=3):
    out = []
    for key in sorted(set(a) | set(b)):
        if a.get(key) != b.get(key):
            sa, sb = set(map(repr, a.get(key, []))), set(map(repr, b.get(key, [])))
            out.append({"file": key, "only_original": sorted(sa - sb)[:limit], "only_transformed": sorted(sb - sa)[:limit]})
    return out


def _classify_pipeline_diff(diffs, L_of):
    """kind of a pipeline-level difference: rows that differ only in the reported polyA/polyT position are the
    pipeline-level face of the listed finder finding (`finder_position`)"""
    kinds = set()
    for d in diffs:
        if d["file"] not in ("read_assignments.tsv", "FULL:transcript_models.gtf", "FULL:extended_annotation.gtf"):
            kinds.add("other")
            continue
        a = [re.sub(r"(%s)\w*:(\d+)" % "|".join(POS_EVENTS), lambda m: m.group(0).split(":")[0] + ":P", x) for x in d["only_original"]]
        b = [re.sub(r"(%s)\w*:(\d+)" % "|".join(POS_EVENTS), lambda m: m.group(0).split(":")[0] + ":P", x) for x in d["only_transformed"]]
        kinds.add("polya_position" if sorted(a) == sorted(b) else "other")
    return "finder_position" if kinds == {"polya_position"} else "pipeline_mirror"


def apply_model_end_map(key, rows, fm):
    """rows of one canonical output file with the model chains of `fm` ({(chr, strand, chain): chain of the original run})
    replaced -- by file layout, strand-aware (a '+' and a '-' model may share an interval)"""
    out = []
    for r in rows:
        if key in ("transcript_models.gtf", "extended_annotation.gtf"):
            c, st, ident, gid, chain = r
            r = (c, st, ident, gid, fm.get((c, st, chain), chain))
        elif key.startswith("FULL:"):
            c, feat, iv, st, at = r
            r = (c, feat, fm.get((c, st, (iv,)), (iv,))[0], st, at)
        elif key in ("transcript_model_counts.tsv", "transcript_model_tpm.tsv"):
            k_, vals = r
            for (c, st, chain), new in fm.items():
                if k_ == str((c, st, chain)):
                    k_ = str((c, st, new))
                    break
            r = (k_, vals)
        elif key == "transcript_model_reads.tsv":
            rd, k_ = r
            for (c, st, chain), new in fm.items():
                if k_ == str((c, st, chain)):
                    k_ = str((c, st, new))
                    break
            r = (rd, k_)
        out.append(r)
    return sorted(out, key=repr)


def finder_model_end_map(base, tr):
    """class `finder_model_end` (audit2-C G4, the pipeline-level face of the listed finding polya_finder_not_mirror_dual
    on MODEL coordinates): a novel mono-exonic model gets its 3' end from the tail position of its reads; a polyT
    position is reported 2 bases outside the first aligned base, a polyA position exactly at the last one.  A '-' model
    of the original run therefore starts 2 bases earlier than in the mapped-back mirrored run (where it is a '+' model),
    and a '+' model ends 2 bases later in the mapped-back mirrored run.  -> {(chr, strand, chain of the transformed run):
    chain of the original run}, only for pairs with identical 5' end and exactly this 2-base difference."""
    mapping = {}
    for key in ("transcript_models.gtf", "extended_annotation.gtf"):
        o = [r for r in base.get(key, []) if r not in tr.get(key, [])]
        t = [r for r in tr.get(key, []) if r not in base.get(key, [])]
        for (c, st, ident, gid, chain) in t:
            if ident[0] != "novel" or len(chain) != 1:
                continue
            (a, b), = chain
            want = ((a - 2, b),) if st == "-" else ((a, b - 2),) if st == "+" else None
            if want and (c, st, ident, gid, want) in o:
                mapping[(c, st, chain)] = want
    return mapping


PENDING_SEEN = {}


def strip_pending_classes(base, tr):
    """the two classes of the option set --sqanti_output --check_canonical that builder c18x repairs, keyed on the columns /
    records they live in; -> (base', tr', {class: rows})
      sqanti_downstream_window (audit2-C G1): a SQANTI-like row that differs ONLY in columns 38 / 39 (percentage and
          sequence of the A-rich window downstream of the TTS: cut at the loaded region, wraps around for '-');
      canonical_unknown_strand (G3): a GTF record of a '.'-strand model that differs ONLY in its `Canonical` attribute
          (looked up as '-')"""
    base, tr = dict(base), dict(tr)
    seen = {}
    if base.get("SQANTI") != tr.get("SQANTI") and "SQANTI" in base and "SQANTI" in tr:
        cut = lambda rows: sorted(r[:37] + r[39:] for r in rows)       # columns 38, 39: perc_A_downstream_TTS, seq_A_downstream_TTS
        if cut(base["SQANTI"]) == cut(tr["SQANTI"]):
            seen["sqanti_downstream_window"] = len(set(base["SQANTI"]) ^ set(tr["SQANTI"])) // 2
            base["SQANTI"], tr["SQANTI"] = cut(base["SQANTI"]), cut(tr["SQANTI"])
    for key in ("FULL:transcript_models.gtf", "FULL:extended_annotation.gtf"):
        if key in base and key in tr and base[key] != tr[key]:
            drop = lambda rows: sorted((c, f, iv, st, tuple(a for a in at if not (st == "." and a[0] == "Canonical")))
                                       for c, f, iv, st, at in rows)
            if drop(base[key]) == drop(tr[key]):
                seen["canonical_unknown_strand"] = seen.get("canonical_unknown_strand", 0) + len(set(base[key]) ^ set(tr[key])) // 2
                base[key], tr[key] = drop(base[key]), drop(tr[key])
    return base, tr, seen


_BASE_CACHE = {}

# ---- interface hypotheses monitored on the real pipeline (hypothesis audit G4, G3): every metamorphic run goes through
#      harness/mon_wrap.py, which evaluates on every real call of `categorize_exon_elongation_subtype` the hypotheses
#      `ElongWF` / `HasCommon` of mirror_dual_elongSides / …elongationEvents / …checkReadEnds(_type), and on every real
#      `correct_assigned_read` call the index ranges of the events (`EventInRange.read` of mirror_dual_eventStep =
#      C14 `WellFormedRegions`); the real code's own warning " + Odd case for exon elongation" (the exact negation of
#      `HasCommon`) is counted in the logs as a second, independent witness
MON_WRAP = os.path.join(vlib.HERE, "mon_wrap.py")
ODD_CASE = "Odd case for exon elongation"
MON_STATS = {"elong_calls": 0, "corrector_calls": 0, "assigner_calls": 0, "runs": 0}


def _monitored_run(P, d, tag, paths, extra, data_type="nanopore", genedb=True, prefix="S"):
    """-> (rc, log, failure or None)"""
    import mon_wrap
    mon = os.path.join(d, "mon_%s.jsonl" % tag)
    out = os.path.join(d, tag)
    rc, log = P.run_isoquant(out, P.std_args(paths, prefix=prefix, threads=1, extra=extra, data_type=data_type, genedb=genedb), wrapper=MON_WRAP,
                             env={"MON_FILE": mon, "MON_SET": "elong,c14events,penalty"})
    calls, viol = mon_wrap.read_monitor(mon)
    MON_STATS["runs"] += 1
    MON_STATS["elong_calls"] += calls.get("elong", 0)
    MON_STATS["corrector_calls"] += calls.get("c14events", 0)
    MON_STATS["assigner_calls"] += calls.get("penalty", 0)
    n_odd = log.count(ODD_CASE)
    lf = os.path.join(out, "isoquant.log")
    if os.path.exists(lf):
        with open(lf, errors="replace") as f:
            n_odd = max(n_odd, f.read().count(ODD_CASE))
    if viol:
        r = viol[0]
        return rc, log, ("hyp_" + str(r.get("kind")), "%s run: interface hypothesis of the C11 mirror theorems violated on the real "
                         "pipeline (%d record(s)); first: %s" % (tag, len(viol), {k: v for k, v in r.items() if k != "mon"}))
    if n_odd:
        return rc, log, ("hyp_no_common_split_exon", "%s run: the real assigner logged %r %d time(s)" % (tag, ODD_CASE, n_odd))
    return rc, log, None


class ElongMonitor:
    """in-process: `ElongWF` / `HasCommon` on every categorize_exon_elongation_subtype call of the real assigner, and
    `penalty_score >= 0` for every isoform match of every assignment it returns"""

    def __enter__(self):
        import mon_wrap
        vlib.repo_on_path()
        self.records = []
        self.calls = 0

        def sink(rec):
            if rec.get("kind") == "call":
                self.calls += 1
            else:
                self.records.append(rec)
        self.restore = mon_wrap.install_elong(sink)
        # G7: no isoform match of an assignment the real assigner returns has a negative penalty (`NonNegFirst`)
        self.restore_pen = mon_wrap.install_penalty(lambda rec: None if rec.get("kind") == "call" else self.records.append(rec))
        return self

    def __exit__(self, *a):
        self.restore_pen()
        self.restore()
        return False


def elong_hypothesis_case(kw):
    """the real assigner on one generated gene / read (original, shifted, mirrored): -> (kind, detail) or None"""
    models = [(t, g, s, _tl(ex)) for t, g, s, ex in kw["models"]]
    read, polya = _tl(kw["read"]), tuple(kw["polya"])
    with ElongMonitor() as m:
        try:
            assign(models, read, polya)
            assign(T.mirror_models(kw["L"], models), T.mirror_l(kw["L"], read), T.mirror_polya(kw["L"], polya))
        except Exception:
            pass          # crashes are the business of assigner_case
    if m.records:
        r = m.records[0]
        return ("hyp_" + str(r.get("kind")), "interface hypothesis violated by the real assigner (%s monitor): %s"
                % (r.get("mon"), {k: v for k, v in r.items() if k != "mon"}))
    return None


def pipeline_case(kw, keep=None):
    """one metamorphic pipeline experiment: -> (kind, detail) or None"""
    import random
    P = _pipeline()
    mode, seed = kw["mode"], kw["seed"]
    # the loci with two polyA clusters within tolerance of one read end are used for translation only: under reflection
    # they show the listed finding `thread_mirror` (thread_ends / thread_starts both take the lowest coordinate)
    special = True if mode == "shift" else "no_clusters"
    dataset = kw.get("dataset", "metamorphic")
    data_type, genedb = kw.get("data_type", "nanopore"), kw.get("genedb", True)
    prefix = kw.get("prefix", "S")       # `-p S --sqanti_output` aborts (rreplace hits "SQANTI"; docs/C06): the sqanti option set uses another one
    if dataset == "mono_antisense":
        ds = T.mono_antisense_dataset(seed, kw.get("n_plus", 3), kw.get("n_minus", 9))
    elif dataset == "mono_both_tails":
        ds = T.mono_both_tails_dataset(seed)
    else:
        ds = T.metamorphic_dataset(seed, n_chroms=kw.get("n_chroms", 2), genes_per_chrom=kw.get("genes", 3),
                                   reads_per_tx=kw.get("reads_per_tx", 5), novel=kw.get("novel", True), special=special)
    d = keep or tempfile.mkdtemp(prefix="isoverif_c11_")
    try:
        extra = ["--count_exons"] + list(kw.get("extra", []))
        key = (seed, special, kw.get("n_chroms", 2), kw.get("genes", 3), kw.get("reads_per_tx", 5), kw.get("novel", True), tuple(extra),
               vlib.REPO, dataset, data_type, genedb, kw.get("n_plus", 3), kw.get("n_minus", 9), prefix)
        if key in _BASE_CACHE and not keep:
            base = _BASE_CACHE[key]
        else:
            p0 = ds.write(os.path.join(d, "in0"))
            rc, log, hyp = _monitored_run(P, d, "out0", p0, extra, data_type, genedb, prefix)
            if hyp:
                return hyp
            if rc != 0:
                return ("pipeline_crash", "original run rc=%s: %s" % (rc, log[-400:]))
            ident = {"pos": lambda c, v: v, "ivl": lambda c, l: list(l), "strand": lambda s: s}
            base = canon_outputs(os.path.join(d, "out0"), prefix, ident, False)
            two = reads_in_two_monoexon_models(base)
            if two:
                return ("hyp_read_in_two_monoexon_models", "original run: %d read(s) are listed under a '+' AND a '-' novel mono-exonic "
                        "model built from the same reads, e.g. %s" % (len(two), two[:2]))
            _BASE_CACHE[key] = base
        if mode == "shift":
            k = kw["k"]
            ds2 = T.shifted_dataset(ds, k, random.Random(seed + k))
            inv = {"pos": lambda c, v: v - k, "ivl": lambda c, l: [(a - k, b - k) for a, b in l], "strand": lambda s: s}
            mirror = False
        else:
            ds2 = T.mirrored_dataset(ds)
            Ls = {c: len(s) for c, s in ds.chroms.items()}
            fl = {"+": "-", "-": "+", ".": "."}
            inv = {"pos": lambda c, v: Ls[c] + 1 - v, "ivl": lambda c, l: T.mirror_l(Ls[c], l), "strand": lambda s: fl.get(s, s)}
            mirror = True
        p1 = ds2.write(os.path.join(d, "in1"))
        rc, log, hyp = _monitored_run(P, d, "out1", p1, extra, data_type, genedb, prefix)
        if hyp:
            return hyp
        if rc != 0:
            return ("pipeline_crash", "transformed run rc=%s: %s" % (rc, log[-400:]))
        tr = canon_outputs(os.path.join(d, "out1"), prefix, inv, mirror)
        diffs = diff_outputs(base, tr)
        if not diffs:
            return None
        if mode == "shift":
            return ("pipeline_shift", "k=%d: %s" % (kw["k"], diffs[:2]))
        base, tr, pend = strip_pending_classes(base, tr)
        if pend:
            PENDING_SEEN.update({k_: PENDING_SEEN.get(k_, 0) + v for k_, v in pend.items()})
            diffs = diff_outputs(base, tr)
            if not diffs:
                return ("pending:" + "+".join(sorted(pend)), "%s" % pend)
        fm = finder_model_end_map(base, tr)
        if fm:
            # model ends that differ by exactly the finder's 2-base polyT offset: mapped onto the original chains, the
            # rest must agree (up to the position payloads of the same finding)
            tr2 = {k_: apply_model_end_map(k_, v, fm) for k_, v in tr.items()}
            base2 = {k_: sorted(v, key=repr) for k_, v in base.items()}
            diffs2 = diff_outputs(base2, tr2)
            if not diffs2 or _classify_pipeline_diff(diffs2, None) == "finder_position":
                return ("finder_position", "finder_model_end %s; %s" % (sorted(fm.items(), key=repr), diffs[:1]))
            return ("pipeline_mirror", "%s" % diffs2[:2])
        return (_classify_pipeline_diff(diffs, None), "%s" % diffs[:2])
    finally:
        if not keep:
            shutil.rmtree(d, ignore_errors=True)


# ---- O5b: metamorphic runs on REAL / NOISY alignments (the repo's toy data, c14gen.noisy_dataset) with the differences
#      attributed to named mechanisms (audit2-C C11 recommendation 2)

MICRO_INTRON_LEN = 50        # params.micro_intron_length of the nanopore preset

# classes that other builders' repairs remove (audit2-C): reported in the evidence (`pending_repair_classes`) and in the
# notes, not as failures, until the repair is in the tree -- then their counts are 0.  Any read outside every class is a
# failure (`pipeline_mirror`).
PENDING_REPAIR_KINDS = {
    "sqanti_downstream_window": "audit2-C G1 (builder c18x): the SQANTI-like downstream-A window is cut at the loaded region and "
                                "wraps around for '-' (columns perc_A_downstream_TTS / seq_A_downstream_TTS)",
    "canonical_unknown_strand": "audit2-C G3 (builder c18x): `Canonical` of a '.'-strand model is looked up as '-'",
    "micro_intron_last_exon": "audit2-C G5 (builder c11a): ExonCorrector.correct_misalignments never restores a retained "
                              "micro-intron in the LAST read exon (event key -k-1 with k = len(introns) is not visited)",
    "micro_intron_several_per_exon": "audit2-C G6 (builder c11a): several micro-introns retained in one read exon share the "
                                     "dict key -k-1, only the last one is restored",
}


def _introns_of(blocks):
    return [(blocks[i][1] + 1, blocks[i + 1][0] - 1) for i in range(len(blocks) - 1)]


def bed_micro_class(o_blocks, t_blocks, events):
    """class of a corrected_reads.bed difference of one read (original run vs mapped-back mirrored run), keyed on the
    mechanism: the two block lists have the same outer ends and differ only by restored micro-introns (<= 50 bp) of a read
    that carries `fake_micro_intron_retention`; G5 if every such intron lies in the first / last exon of the read (the
    exon the event loop of one orientation never reaches), G6 if some read exon holds several micro-introns.
    -> class name or None (not explained)"""
    if not o_blocks or not t_blocks or o_blocks[0][0] != t_blocks[0][0] or o_blocks[-1][1] != t_blocks[-1][1]:
        return None
    io, it = set(_introns_of(o_blocks)), set(_introns_of(t_blocks))
    sym = io ^ it
    if not sym or any(b - a + 1 > MICRO_INTRON_LEN for a, b in sym) or "fake_micro_intron_retention" not in events:
        return None
    common = sorted(io & it)
    bounds = [o_blocks[0][0]] + [x for a, b in common for x in (a - 1, b + 1)] + [o_blocks[-1][1]]
    exons = [(bounds[i], bounds[i + 1]) for i in range(0, len(bounds), 2)]      # read exons without any micro-intron
    inside = lambda ex: [m for m in sorted(io | it) if m not in common and ex[0] <= m[0] and m[1] <= ex[1]]
    if all(any(ex[0] <= a and b <= ex[1] for ex in (exons[0], exons[-1])) for a, b in sym) and \
            all(len(inside(ex)) <= 1 for ex in exons):
        return "micro_intron_last_exon"
    if any(len(inside(ex)) >= 2 for ex in exons):
        return "micro_intron_several_per_exon"
    return None


def _raw_blocks(read):
    """aligned blocks (1-based closed) of a synth read record: M/=/X/D extend a block, N separates two"""
    pos, cur, out = read["start0"] + 1, None, []
    for n, op in T.cigar_ops(read["cigar"]):
        if op in "M=XD":
            cur = (cur[0], pos + n - 1) if cur else (pos, pos + n - 1)
            pos += n
        elif op == "N":
            if cur:
                out.append(cur)
            cur = None
            pos += n
    if cur:
        out.append(cur)
    return out


def equidistant_tie_class(raw_blocks, annotated, o_blocks, t_blocks):
    """an EXACT positional tie of a noisy alignment (outside the property's quantifier): the two corrected block lists
    differ only in introns that are both annotated and EQUALLY distant (|start diff| + |end diff|, `match_delta`) from one
    raw intron of the read -- `match_genomic_features` takes the first of them in coordinate order, which is the other one
    in the mirrored run.  -> True / False"""
    if not o_blocks or not t_blocks or o_blocks[0][0] != t_blocks[0][0] or o_blocks[-1][1] != t_blocks[-1][1]:
        return False
    io, it = set(_introns_of(o_blocks)), set(_introns_of(t_blocks))
    only_o, only_t = sorted(io - it), sorted(it - io)
    if not only_o or len(only_o) != len(only_t):
        return False
    raw = _introns_of(raw_blocks)
    md = lambda a, b: abs(a[0] - b[0]) + abs(a[1] - b[1])
    for a, b in zip(only_o, only_t):
        ok = False
        for r in raw:
            if not (r[0] <= a[1] and a[0] <= r[1]):
                continue
            near = sorted((md(r, k_), k_) for k_ in annotated if k_[0] <= r[1] and r[0] <= k_[1])
            tied = [k_ for d_, k_ in near if d_ == near[0][0]] if near else []
            # the raw intron has (at least) two nearest annotated introns at the SAME distance, and each run shows an intron
            # whose two sites are sites of the raw intron or of one of them (the corrector may move one site only)
            starts, ends = {k_[0] for k_ in tied + [r]}, {k_[1] for k_ in tied + [r]}
            if len(tied) >= 2 and a[0] in starts and a[1] in ends and b[0] in starts and b[1] in ends:
                ok = True
        if not ok:
            return False
    return True


def _rows_by_read(canon, key):
    out = {}
    for r in canon.get(key, []):
        out.setdefault(r[0], []).append(r)
    return out


def real_data_case(kw, keep=None):
    """reflection of a real / noisy data set: -> (kind, detail) or None.
    1. both orientations with the REAL finder; equal -> None.
    2. both with `find_polyt_head` := exact mirror dual of the real `find_polya_tail` (mon_wrap `dualfinder`); if the
       differences are gone they are the listed finding polya_finder_not_mirror_dual -> `finder_window`.
    3. the reads whose corrected_reads.bed line still differs are classified by `bed_micro_class`; a read outside these
       classes, or one that differs in read_assignments.tsv while its corrected exons agree -> `pipeline_mirror`.
    4. the classified reads are REMOVED from the input and both orientations are run again (dual finder): every output
       file must now agree (so that differences of count tables / models are not excused by hand) -> else `pipeline_mirror`.
    Quick tier: step 1 is skipped (`skip_real_finder`)."""
    P = _pipeline()
    dataset = kw["dataset"]
    if dataset == "toy":
        ds = T.toy_dataset(vlib.REPO)
    else:
        from gen import c14gen
        ds = c14gen.noisy_dataset(kw["seed"])[0]
    # the statement's quantifier: "the model comparison under reflection [is] restricted to noise-free alignments because
    # representatives among near-identical noisy junctions and ends are chosen by coordinate order" -- these alignments are
    # noisy, so the reflection runs compare everything but the discovered models
    extra = ["--count_exons", "--no_model_construction"] + list(kw.get("extra", []))
    Ls = {c: len(s) for c, s in ds.chroms.items()}
    fl = {"+": "-", "-": "+", ".": "."}
    inv = {"pos": lambda c, v: Ls[c] + 1 - v, "ivl": lambda c, l: T.mirror_l(Ls[c], l), "strand": lambda s: fl.get(s, s)}
    ident = {"pos": lambda c, v: v, "ivl": lambda c, l: list(l), "strand": lambda s: s}
    d = keep or tempfile.mkdtemp(prefix="isoverif_c11r_")
    n_run = [0]
    if kw.get("mode") == "shift":
        # translation: no restriction on the models -- every file, discovered models included
        import random
        k = kw["k"]
        try:
            res = []
            for tag, dd, iv in (("o", ds, ident), ("s", T.shifted_dataset(ds, k, random.Random(k)),
                                                   {"pos": lambda c, v: v - k, "ivl": lambda c, l: [(a - k, b - k) for a, b in l],
                                                    "strand": lambda s: s})):
                paths = dd.write(os.path.join(d, tag, "in"))
                rc, log = P.run_isoquant(os.path.join(d, tag, "out"), P.std_args(paths, threads=1, extra=["--count_exons"] + list(kw.get("extra", []))))
                if rc != 0:
                    return ("pipeline_crash", "%s run %s rc=%s: %s" % (dataset, tag, rc, log[-300:]))
                res.append(canon_outputs(os.path.join(d, tag, "out"), "S", iv, False))
            diffs = diff_outputs(res[0], res[1])
            return ("pipeline_shift", "%s k=%d: %s" % (dataset, k, diffs[:2])) if diffs else None
        finally:
            if not keep:
                shutil.rmtree(d, ignore_errors=True)

    def both(dset, monset):
        res = []
        for tag, dd, iv, mir in (("o", dset, ident, False), ("m", T.mirrored_dataset(dset), inv, True)):
            n_run[0] += 1
            sub = os.path.join(d, "%s%d" % (tag, n_run[0]))
            paths = dd.write(os.path.join(sub, "in"))
            rc, log = P.run_isoquant(os.path.join(sub, "out"), P.std_args(paths, threads=1, extra=extra), wrapper=MON_WRAP,
                                     env={"MON_FILE": os.path.join(sub, "mon.jsonl"), "MON_SET": monset})
            if rc != 0:
                raise RuntimeError("run %s rc=%s: %s" % (tag, rc, log[-300:]))
            res.append(canon_outputs(os.path.join(sub, "out"), "S", iv, mir))
        return res
    try:
        seen = {}
        if not kw.get("skip_real_finder"):
            b, t = both(ds, "penalty")
            if not diff_outputs(b, t):
                return None
        b, t = both(ds, "penalty,dualfinder")
        diffs = diff_outputs(b, t, limit=10 ** 6)
        if not diffs:
            return ("finder_window", "%s: every difference under reflection disappears when find_polyt_head is replaced by the "
                    "mirror dual of find_polya_tail" % dataset)
        ra_o, ra_t = _rows_by_read(b, "read_assignments.tsv"), _rows_by_read(t, "read_assignments.tsv")
        bed_o, bed_t = _rows_by_read(b, "corrected_reads.bed"), _rows_by_read(t, "corrected_reads.bed")
        explained, unexplained = {}, []
        annotated = {(ex[i][1] + 1, ex[i + 1][0] - 1) for g in ds.genes for _, ex in g["transcripts"] for i in range(len(ex) - 1)}
        raw = {r["name"]: r for r in ds.reads}
        for r in sorted(set(bed_o) | set(bed_t)):
            if bed_o.get(r) == bed_t.get(r):
                continue
            events = {e.split(":")[0] for row in ra_o.get(r, []) for e in row[6]}
            cls = None
            if len(bed_o.get(r, [])) == 1 and len(bed_t.get(r, [])) == 1:
                ob, tb = list(bed_o[r][0][3]), list(bed_t[r][0][3])
                cls = bed_micro_class(ob, tb, events)
                if cls is None and r in raw and equidistant_tie_class(_raw_blocks(raw[r]), annotated, ob, tb):
                    cls = "equidistant_intron_tie"
            if cls:
                explained[r] = cls
            else:
                unexplained.append((r, bed_o.get(r), bed_t.get(r)))
        if unexplained:
            return ("pipeline_mirror", "%s (dual finder): corrected_reads.bed differs for %d read(s) outside the named classes, "
                    "e.g. %s" % (dataset, len(unexplained), unexplained[0]))
        # a read whose corrected exons differ may also differ in what is derived from them (strand from the splice sites of
        # the corrected introns, hence tss/tes vs terminal_position event names); any OTHER read must agree
        bad_ra = sorted(r for r in set(ra_o) | set(ra_t) if ra_o.get(r) != ra_t.get(r) and r not in explained)
        if bad_ra:
            return ("pipeline_mirror", "%s (dual finder): read_assignments.tsv differs for %d read(s) whose corrected exons agree, "
                    "e.g. %s vs %s" % (dataset, len(bad_ra), ra_o.get(bad_ra[0]), ra_t.get(bad_ra[0])))
        if not explained:
            return ("pipeline_mirror", "%s (dual finder): %s" % (dataset, diffs[:2]))
        for cls in explained.values():
            seen[cls] = seen.get(cls, 0) + 1
        red = T.copy_dataset(ds)
        red.reads = [r for r in red.reads if r["name"] not in explained]
        b2, t2 = both(red, "penalty,dualfinder")
        diffs2 = diff_outputs(b2, t2)
        if diffs2:
            return ("pipeline_mirror", "%s (dual finder, %d classified reads removed): %s" % (dataset, len(explained), diffs2[:2]))
        pend = sorted(k_ for k_ in seen if k_ in PENDING_REPAIR_KINDS)
        detail = "%s: %s; with these reads removed all output files agree (%d reads left)" % (dataset, seen, len(red.reads))
        if not pend:
            return ("quantifier:equidistant_intron_tie", detail)      # exact positional ties of noisy alignments only
        return ("pending:" + "+".join(pend), detail)
    finally:
        if not keep:
            shutil.rmtree(d, ignore_errors=True)


def real_data_plan(ctx):
    quick = ctx.tier == "quick"
    if quick:
        return [{"dataset": "toy", "mode": "mirror", "skip_real_finder": True}]
    plan = [{"dataset": "toy", "mode": "mirror"}, {"dataset": "toy", "mode": "shift", "k": 768}, {"dataset": "toy", "mode": "shift", "k": 1000}]
    for i in range(4):
        plan.append({"dataset": "noisy", "mode": "mirror", "seed": ctx.seed % 1000 + i})
    plan.append({"dataset": "noisy", "mode": "shift", "seed": ctx.seed % 1000, "k": 257})
    return plan


def reads_in_two_monoexon_models(canon):
    """interface hypothesis of mirror_dual_constructMonoNovel monitored on the real pipeline (`voters_exclusive`): no read
    is listed in transcript_model_reads.tsv under two novel MONO-exonic models of opposite strands that overlap by more
    than half (two models built from one read set: reads with both tails, 7594462).  -> [(read, model, model)]"""
    import ast
    by = {}
    for rd, m in canon.get("transcript_model_reads.tsv", []):
        try:
            c, st, chain = ast.literal_eval(m)
        except (ValueError, SyntaxError):
            continue
        if len(chain) == 1:
            by.setdefault(rd, []).append((c, st, chain[0]))
    out = []
    for rd, ms in sorted(by.items()):
        for i in range(len(ms)):
            for j in range(i + 1, len(ms)):
                (c1, s1, a), (c2, s2, b) = ms[i], ms[j]
                ov = min(a[1], b[1]) - max(a[0], b[0]) + 1
                if c1 == c2 and s1 != s2 and 2 * ov > min(a[1] - a[0] + 1, b[1] - b[0] + 1):
                    out.append((rd, ms[i], ms[j]))
    return out


def _no_pending(r):
    """a run whose only differences are classes awaiting another builder's repair is not a failure (it is counted in
    PENDING_SEEN -> evidence `pending_repair_classes` + a PENDING-REPAIR note)"""
    return None if (r and isinstance(r, tuple) and r[0].startswith("pending:")) else r


def pipeline_plan(ctx):
    """shift values: the four of the statement plus small primes / powers of two (set-iteration order of coordinate
    tuples, hence anything that forgets to sort, changes with about every second k)"""
    quick = ctx.tier == "quick"
    seeds = [ctx.seed % 100000 + i for i in range(2 if quick else 12)]
    plan = []
    for i, s in enumerate(seeds):
        if quick:
            ks = [SHIFTS[(2 * i) % 4], SHIFTS[(2 * i + 1) % 4]] + ctx.rng.sample([2, 3, 5, 8, 13, 100, 1001, 2048, 4099], 3)
        else:
            ks = SHIFTS + ctx.rng.sample([2, 3, 5, 8, 13, 100, 1001, 2048, 4099], 4)
        for k in ks:
            plan.append({"mode": "shift", "seed": s, "k": k})
        plan.append({"mode": "mirror", "seed": s})
    # audit2-C G2: overlapping antisense mono-exonic loci, --report_novel_unspliced true (both support orders)
    g2 = {"dataset": "mono_antisense", "seed": 3, "extra": ["--report_novel_unspliced", "true"]}
    plan.append(dict(g2, mode="mirror"))
    plan.append(dict(g2, mode="mirror", n_plus=9, n_minus=3))
    plan.append(dict(g2, mode="shift", k=ctx.rng.choice(SHIFTS + [257])))
    # follow-up of 7594462: reads with both tails (no read in two models; mirror-symmetric)
    plan.append(dict(g2, dataset="mono_both_tails", mode="mirror"))
    # option sets the standard runs never use, rotated over the seeds (the metamorphic data set; reflection + one shift)
    n_opt = 1 if quick else len(OPTION_SETS)
    start = ctx.seed % len(OPTION_SETS)
    for j in range(n_opt):
        name, okw = OPTION_SETS[(start + j) % len(OPTION_SETS)]
        s = seeds[j % len(seeds)]
        if not okw.get("shift_only"):
            plan.append(dict(okw, mode="mirror", seed=s, option_set=name))
        plan.append(dict(okw, mode="shift", seed=s, k=ctx.rng.choice(SHIFTS + [257, 70001]), option_set=name))
    return plan


# option sets of the real pipeline that the standard metamorphic runs never use (audit2-C C11 recommendation 2); every run
# adds --count_exons.  `sqanti_canon` meets two defects builder c18x repairs (G1, G3): `strip_pending_classes`.
OPTION_SETS = [
    ("pacbio", {"data_type": "pacbio_ccs"}),
    ("assembly", {"data_type": "assembly"}),
    # without annotation EVERY model end comes from the read ends; the r_* reads of the data set have randomly truncated ends
    # without a unique mode, and the end of a discovered model is the most frequent read end with ties broken by coordinate
    # order (docs/C11.md section 5 "ends of discovered models under tied read-end counts"): translation only, see the report
    ("nogenedb", {"genedb": False, "shift_only": True}),
    ("stranded_fwd", {"extra": ["--stranded", "forward"]}),
    ("mcs_sensitive_ont_unspliced", {"extra": ["--model_construction_strategy", "sensitive_ont", "--report_novel_unspliced", "true"]}),
    ("mcs_all_unspliced", {"extra": ["--model_construction_strategy", "all", "--report_novel_unspliced", "true", "--report_canonical", "all"]}),
    ("match_precise", {"extra": ["--matching_strategy", "precise", "--splice_correction_strategy", "all"]}),
    ("match_loose", {"extra": ["--matching_strategy", "loose", "--splice_correction_strategy", "none"]}),
    ("polya_never", {"extra": ["--polya_requirement", "never"]}),
    ("polya_always", {"extra": ["--polya_requirement", "always"]}),
    ("quant_all", {"extra": ["--transcript_quantification", "all", "--gene_quantification", "all"]}),
    ("delta0", {"extra": ["--delta", "0"]}),
    ("delta20", {"extra": ["--delta", "20"]}),
    ("highmem", {"extra": ["--high_memory"]}),
    ("sqanti_canon", {"extra": ["--sqanti_output", "--check_canonical"], "prefix": "Q7x"}),
]


# ---- driver of the oracle

PER_KIND = 5     # failures recorded per kind (every failure is counted in evidence: failure_counts)


def _fail(ctx, kind, inp, detail):
    fc = ctx.extra.setdefault("failure_counts", {})
    fc[kind] = fc.get(kind, 0) + 1
    if fc[kind] <= PER_KIND:
        ctx.fail(kind, inp, detail)


def _run(ctx, kind_default, inp, fn):
    try:
        r = fn(inp)
    except Exception as ex:   # a crash of the real code on a transformed input is a failure of the relation
        r = (kind_default + "_crash", "%s: %s" % (type(ex).__name__, str(ex)[:200]))
    if r:
        kind, detail = r if isinstance(r, tuple) else (kind_default, r)
        _fail(ctx, kind, inp, detail)
    return r


def oracle(ctx, disagreements, broken):
    quick = ctx.tier == "quick"
    n = 0
    for kw in END_TIE_REGRESSIONS:
        _run(ctx, "assigner", dict(kw, what="assigner"), lambda i: assigner_case(i))
        n += 1
    # interface hypothesis of mirror_dual_constructMonoNovel on the real code: no read in clusters of both strands
    from props import c11x_mononovel as MN
    for _, _, kw in MN.vote_cases(ctx.rng, 100 if quick else 1000):
        _run(ctx, "hyp_read_in_two_clusters", dict(kw, what="mono_votes"),
             lambda i: (lambda r: ("hyp_read_in_two_clusters", r) if r else None)(MN.shared_read_problem(i)))
        n += 1
    # seeded with the disagreeing inputs
    for d in disagreements:
        name = d["op"].split(":", 1)[-1]
        inp = d["input"]
        if not isinstance(inp, dict):
            continue
        if name in ("M.intron_strand", "K.intron_strand", "K.mirror_sites") and "l" in inp:
            kw = {"ref": "CCCC" + inp["l"] + "TTTTT" + inp["r"] + "GG", "introns": [(5, 13)], "has_polya": False,
                  "has_polyt": False, "k": 3}
            _run(ctx, "strand_detection", dict(kw, what="strand"), lambda i: strand_case(i))
            n += 1
        elif name.startswith(("S.", "M.")) and "par" in inp and "kw" in inp:
            r = X.oracle_relation(name, inp["par"], inp["kw"])
            n += 1
            if r:
                _fail(ctx, "xrel:" + name, {"xrel": name, "par": inp["par"], "kw": inp["kw"]}, r)
        elif name.startswith(("S.", "M.")) and ("k" in inp or "L" in inp):
            _run(ctx, "relation:" + name, {"relation": name, "args": inp},
                 lambda i: (lambda r: ("relation:" + i["relation"], r) if r else None)(oracle_relation(i["relation"], i["args"])))
            n += 1
    # O1 relations on the real functions (independent of the driver)
    cases = gen_relation_cases(ctx)
    if quick and not broken:
        cases = ctx.rng.sample(cases, min(len(cases), 40000))
    for name, kw in cases:
        r = oracle_relation(name, kw)
        n += 1
        if r:
            _fail(ctx, "relation:" + name, {"relation": name, "args": kw}, r)
    # O1x relations of the merged models on the real functions
    X.oracle(ctx, _fail)
    # O2 enum tables
    for kind, inp, detail in oracle_event_tables():
        _fail(ctx, kind, inp, detail)
    # O3 mirrored code pairs
    for kw in gen_polya_pair_cases(ctx.rng, 2000 if quick else 20000):
        _run(ctx, "polya_pair", dict(kw, what="polya_pair"), lambda i: polya_pair_case(i))
        n += 1
    for kw in gen_finder_cases(ctx.rng, 300 if quick else 3000):
        _run(ctx, "finder", dict(kw, what="finder"), lambda i: polya_finder_case(i))
        n += 1
    # O3b splice-site strand detection under reflection; start / end threading under translation
    for kw in gen_strand_cases(ctx.rng, 400 if quick else 4000):
        _run(ctx, "strand_detection", dict(kw, what="strand"), lambda i: strand_case(i))
        n += 1
    for kw in gen_thread_cases(ctx.rng, 300 if quick else 3000):
        _run(ctx, "thread_shift", dict(kw, what="thread"), lambda i: thread_case(i))
        n += 1
    _run(ctx, "thread_mirror", dict(THREAD_MIRROR_WITNESS, what="thread_mirror"), lambda i: thread_mirror_case(i))
    # O4 assigner level
    na = 2500 if quick else 50000
    with ElongMonitor() as em:
        for kw in REGRESSIONS + gen_assigner_cases(ctx.rng, na):
            n0 = len(em.records)
            if has_end_tie([(t, g, s_, _tl(ex)) for t, g, s_, ex in kw["models"]], _tl(kw["read"]), _params()):
                ctx.count("assigner_end_tie_inputs")       # counted only: ordinary inputs since the repair of G7
            _run(ctx, "assigner", dict(kw, what="assigner"), lambda i: assigner_case(i))
            n += 1
            if len(em.records) > n0:
                r_ = em.records[n0]
                _fail(ctx, "hyp_" + str(r_.get("kind")), dict(kw, what="elong_hyp"),
                      "interface hypothesis violated by the real assigner (%s monitor): %s"
                      % (r_.get("mon"), {k: v for k, v in r_.items() if k != "mon"}))
    ctx.extra["hypothesis_monitor_inprocess"] = {"what": "ElongWF / HasCommon on every real categorize_exon_elongation_subtype call of O4; penalty_score >= 0 on every assignment",
                                                 "calls": em.calls, "violations": len(em.records)}
    ctx.extra["oracle_inprocess_cases"] = n
    # the inputs of the pre-fix witnesses (Props/C11.lean overlapsAtLeastBuggy_mirror_witness /
    # overlapsAtLeastWhenOverlapBuggy_mirror_witness) on the real code: both orientations must agree (regression of G7)
    C, _, _ = _impl()
    w = (C.overlaps_at_least((1, 5), (1, 9), 10), C.overlaps_at_least(T.mirror_iv(9, (1, 5)), T.mirror_iv(9, (1, 9)), 10),
         C.overlaps_at_least_when_overlap((3002, 3005), (3002, 3225), 5),
         C.overlaps_at_least_when_overlap(T.mirror_iv(9000, (3002, 3005)), T.mirror_iv(9000, (3002, 3225)), 5))
    ctx.extra["overlaps_at_least_tie_regression_on_real_code"] = {"overlaps_at_least": list(w[:2]), "when_overlap": list(w[2:])}
    # O5 pipeline (search only)
    runs = 0
    PENDING_SEEN.clear()
    for kw in pipeline_plan(ctx):
        r = _run(ctx, "pipeline", dict(kw, what="pipeline"), lambda i: _no_pending(pipeline_case(i)))
        runs += 1
    # O5b real / noisy alignments with the differences attributed to named mechanisms
    pend, rd = {}, []
    for kw in real_data_plan(ctx):
        inp = dict(kw, what="realdata")
        try:
            r = real_data_case(kw)
        except Exception as ex:
            r = ("pipeline_crash", "%s: %s" % (type(ex).__name__, str(ex)[:300]))
        runs += 1
        rd.append({"input": kw, "result": list(r) if r else None})
        if not r:
            continue
        if r[0].startswith("pending:"):
            for k_ in r[0][len("pending:"):].split("+"):
                pend[k_] = pend.get(k_, 0) + 1
            ctx.notes.append("PENDING-REPAIR property=C11 %s [%s]" % (r[1], "; ".join(PENDING_REPAIR_KINDS[k_] for k_ in r[0][8:].split("+"))))
        elif r[0].startswith("quantifier:"):
            ctx.count("realdata_" + r[0])
        else:
            _fail(ctx, r[0], inp, r[1])
    for k_, v in PENDING_SEEN.items():       # classes stripped inside pipeline_case (option set sqanti_canon)
        pend[k_] = pend.get(k_, 0) + v
        ctx.notes.append("PENDING-REPAIR property=C11 %s rows=%d [%s]" % (k_, v, PENDING_REPAIR_KINDS[k_]))
    ctx.extra["pending_repair_classes"] = pend
    ctx.extra["real_data_runs"] = rd
    ctx.extra["pipeline_metamorphic_runs"] = runs
    ctx.extra["hypothesis_monitor_pipeline"] = dict(MON_STATS, what="ElongWF / HasCommon per categorize_exon_elongation_subtype call, "
                                                    "event index ranges per correct_assigned_read call, 'Odd case' warnings in the logs")
    import mon_wrap
    if mon_wrap.elong_problems(3, [1, 1, 0], (0, 2), [0, 0, 1], (2, 3)) == [] or mon_wrap.elong_problems(3, [1, 1, 0], (0, 2), [0, 1, 1], (1, 3)) != [] \
            or [k_ for k_, _ in mon_wrap.elong_problems(3, [1, 1], (0, 2), [0, 1, 1], (1, 3))] != ["elong_not_wf"]:
        _fail(ctx, "monitor_selftest", {"what": "monitor_selftest"}, "mon_wrap.elong_problems does not separate the two witnesses")
    ctx.extra["pipeline_level"] = "search only (metamorphic runs of the real pipeline); not claimed at proof level"


def replay(ctx, failure):
    """re-runs the recorded input; it still fails iff the same failure kind is reproduced (a listed finding that the
    same input also shows, e.g. the polyA position payload of a pipeline reflection, does not count)"""
    inp = failure["input"]
    what = inp.get("what")
    kind = failure.get("kind")

    def same_kind(r, default):
        if not r:
            return False
        k_ = r[0] if isinstance(r, tuple) else default
        return k_ == kind or kind is None

    try:
        if "xrel" in inp:
            return X.replay(inp)
        if "relation" in inp:
            return oracle_relation(inp["relation"], inp["args"]) is not None
        if what == "polya_pair":
            return polya_pair_case(inp) is not None
        if what == "finder":
            return same_kind(polya_finder_case(inp), "finder")
        if what == "assigner":
            return same_kind(assigner_case(inp), "assigner")
        if what == "strand":
            return strand_case(inp) is not None
        if what == "thread":
            return thread_case(inp) is not None
        if what == "thread_mirror":
            return thread_mirror_case(inp) is not None
        if what == "pipeline":
            return same_kind(pipeline_case(inp), "pipeline")
        if what == "mono_votes":
            from props import c11x_mononovel as MN
            return MN.shared_read_problem(inp) is not None
        if what == "realdata":
            return same_kind(real_data_case(inp), "pipeline")
        if what == "elong_hyp":
            return same_kind(elong_hypothesis_case(inp), "hyp")
        if what == "monitor_selftest":
            return True
        if "event" in inp:
            return any(i == inp for _, i, _ in oracle_event_tables())
    except Exception:
        return True
    return False


def matches_finding(failure, entry):
    return failure["kind"] in entry.get("kinds", [entry.get("kind")])
