"""C11 extension — CIGAR walk (Model/Cigar.lean, C16): translation of reference_start, reversal of the CIGAR.
Theorems: lean/IsoVerif/Props/C11Cigar.lean.  Real functions: src/common.py get_read_blocks, correct_bam_coords,
concat_gapless_blocks; pysam AlignedSegment.get_blocks / reference_end."""
import itertools

import vlib
from gen import c11gen as T
from gen import cigars as G
from props.c11ext import Rel

PROPS = ["IsoVerif/Props/C11Cigar.lean"]
TARGETS = ["IsoVerif.Props.C11Cigar"]

REF_OPS = (0, 2, 3, 7, 8)       # M D N = X consume reference
QUERY_OPS = (0, 1, 4, 7, 8)     # M I S = X consume query


def _c16():
    from props import C16 as M
    return M


def ref_len(cigar):
    return sum(n for op, n in cigar if op in REF_OPS)


def query_len(cigar):
    return sum(n for op, n in cigar if op in QUERY_OPS)


def mirror_start(L, s, cigar):
    """0-based start of the reverse-complemented read on the reverse-complemented chromosome of length L"""
    return L - s - ref_len(cigar)


def _tl(l):
    return [tuple(x) for x in l]


def _valid(cigar):
    return all(0 <= op <= 8 and n >= 0 for op, n in cigar)


def _blocks(kw):
    return _c16().impl_call("get_read_blocks", kw)


def _ref_read(v):
    return v if vlib.is_err(v) else {"ref": v["ref"], "read": v["read"]}


WITNESS = {"s": 0, "cigar": [[0, 5], [3, 3], [0, 2]]}


def _dom_shift_blocks(par, kw):
    k = par["k"]
    if not _valid(kw["cigar"]) or kw["s"] < 0:
        return False
    if kw["s"] + k < 0:
        # `shift_truthiness_witness`: the relation must FAIL there (block start 0 is falsy)
        return "witness" if (kw["s"] == 0 and k == -1 and vlib.canon(kw["cigar"]) == WITNESS["cigar"]) else False
    return True


RELS = [
    Rel("S.get_read_blocks", "shift_equivariant_getReadBlocks",
        model=lambda kw: vlib.req("C16.get_read_blocks", **kw), impl=_blocks,
        tin=lambda par, kw: {"s": kw["s"] + par["k"], "cigar": kw["cigar"]},
        tout=lambda par, kw, v: {"ref": T.shift_l(par["k"], _tl(v["ref"])), "read": v["read"], "cigar": v["cigar"]},
        domain=_dom_shift_blocks,
        nontrivial=lambda kw, v: not vlib.is_err(v) and len(v["ref"]) > 0),
    Rel("M.get_read_blocks", "mirror_dual_getReadBlocks",
        model=lambda kw: vlib.req("C16.get_read_blocks", **kw), impl=_blocks,
        tin=lambda par, kw: {"s": mirror_start(par["L"], kw["s"], kw["cigar"]), "cigar": list(reversed(kw["cigar"]))},
        tout=lambda par, kw, v: {"ref": T.mirror_l(par["L"], _tl(v["ref"])),
                                 "read": T.mirror_l(query_len(kw["cigar"]) - 2, _tl(v["read"]))},
        domain=lambda par, kw: _valid(kw["cigar"]) and kw["s"] >= 0 and mirror_start(par["L"], kw["s"], kw["cigar"]) >= 0,
        eq=lambda a, b: vlib.same(_ref_read(a), _ref_read(b)),
        nontrivial=lambda kw, v: not vlib.is_err(v) and len(v["ref"]) > 1),
    Rel("S.aligned_blocks", "shift_equivariant_alignedBlocks / shift_equivariant_referenceEnd",
        model=lambda kw: vlib.req("C16.aligned_blocks", **kw), impl=lambda kw: _c16().impl_call("aligned_blocks", kw),
        tin=lambda par, kw: {"s": kw["s"] + par["k"], "cigar": kw["cigar"]},
        tout=lambda par, kw, v: {"blocks": T.shift_l(par["k"], _tl(v["blocks"])), "reference_end": v["reference_end"] + par["k"]},
        domain=lambda par, kw: (_valid(kw["cigar"]) and all(n >= 1 for _, n in kw["cigar"]) and len(kw["cigar"]) > 0
                                and 0 <= kw["s"] and 0 <= kw["s"] + par["k"] and kw["s"] + par["k"] < 2 ** 29 - 10 ** 7)),
    Rel("S.concat_gapless_blocks", "shift_equivariant_concatGaplessBlocks",
        model=lambda kw: vlib.req("C16.concat_gapless_blocks", **kw),
        impl=lambda kw: _c16().impl_call("concat_gapless_blocks", kw),
        tin=lambda par, kw: {"blocks": T.shift_l(par["k"], _tl(kw["blocks"])), "cigar": kw["cigar"]},
        tout=lambda par, kw, v: T.shift_l(par["k"], _tl(v)),
        domain=lambda par, kw: _valid(kw["cigar"]),
        nontrivial=lambda kw, v: not vlib.is_err(v) and len(v) > 0),
    Rel("S.correct_bam_coords", "shift_equivariant_correctBamCoords",
        model=lambda kw: vlib.req("C16.correct_bam_coords", **kw),
        impl=lambda kw: _c16().impl_call("correct_bam_coords", kw),
        tin=lambda par, kw: {"l": T.shift_l(par["k"], _tl(kw["l"]))},
        tout=lambda par, kw, v: T.shift_l(par["k"], _tl(v))),
]

KS = [1, 255, 256, 1000, -7]


def _pysam_blocks(s, cigar):
    pos, out = s, []
    for op, n in cigar:
        if op in (0, 7, 8):
            out.append((pos, pos + n))
            pos += n
        elif op in (2, 3):
            pos += n
    return out


def cases(ctx):
    rng = ctx.rng
    quick = ctx.tier == "quick"
    out = []
    # exhaustive small universe: every CIGAR of <= 3 (thorough 4) operations over all 9 kinds, lengths {1, 2}
    nmax = 3 if quick else 4
    n_ex = 0
    for n in range(1, nmax + 1):
        for c in G.exhaustive(G.ALL_KINDS, n, (1, 2)):
            if quick and n == 3 and rng.random() < 0.6:
                continue
            if n == 4 and rng.random() < 0.75:      # thorough: a quarter of the 104 976 four-operation CIGARs
                continue
            c = [list(x) for x in c]
            s = rng.choice([0, 1, 7, 1000])
            k = rng.choice(KS)
            out.append(("S.get_read_blocks", {"k": k}, {"s": s, "cigar": c}))
            out.append(("M.get_read_blocks", {"L": s + ref_len(c) + rng.choice([0, 1, 5, 40])}, {"s": s, "cigar": c}))
            n_ex += 1
    ctx.extra["xcigar_universe"] = {"max_ops": nmax, "kinds": 9, "lengths": [1, 2], "cigars": n_ex,
                                   "sampling": "3 ops: 40% in quick; 4 ops (thorough): 25%"}
    out.append(("S.get_read_blocks", {"k": -1}, dict(WITNESS)))
    for _ in range(400 if quick else 4000):
        c = [list(x) for x in (G.sam_like_cigar(rng, big=rng.random() < 0.3) if rng.random() < 0.7
                               else G.rand_cigar(rng, rng.randint(1, 40), maxlen=rng.choice([3, 50, 10 ** 4])))]
        s = rng.choice([0, 1, rng.randint(0, 10 ** 8)])
        k = rng.choice(KS + [4099, -s])
        out.append(("S.get_read_blocks", {"k": k}, {"s": s, "cigar": c}))
        out.append(("M.get_read_blocks", {"L": s + ref_len(c) + rng.choice([0, 1, 10 ** 6])}, {"s": s, "cigar": c}))
        if rng.random() < 0.25 and len(c) < 200:
            out.append(("S.aligned_blocks", {"k": rng.choice([1, 255, 256, 1000])}, {"s": s, "cigar": c}))
        if rng.random() < 0.5:
            out.append(("S.concat_gapless_blocks", {"k": k}, {"blocks": _pysam_blocks(s, c), "cigar": c}))
            bl = _blocks({"s": s, "cigar": c})
            if not vlib.is_err(bl):
                out.append(("S.correct_bam_coords", {"k": k}, {"l": _pysam_blocks(s, c)}))
    # malformed: zero lengths, negative start (outside the hypotheses: counted, not evaluated)
    for _ in range(50):
        c = [list(x) for x in G.rand_cigar(rng, rng.randint(1, 6), maxlen=4)]
        c[rng.randrange(len(c))][1] = 0
        out.append(("S.get_read_blocks", {"k": 3}, {"s": rng.choice([0, 5]), "cigar": c}))
        out.append(("M.get_read_blocks", {"L": 200}, {"s": rng.choice([0, 5]), "cigar": c}))
        out.append(("S.get_read_blocks", {"k": 3}, {"s": -1, "cigar": c}))
    return out


def transformation_checks(ctx):
    """`L − s − refLen ops` / `queryLen ops − 2` of the theorems = the harness's mirror_start / read mirror"""
    rng = ctx.rng
    cs = []
    for _ in range(60):
        c = [list(x) for x in G.rand_cigar(rng, rng.randint(1, 12), maxlen=20)]
        cs.append({"L": rng.randint(1000, 5000), "s": rng.randint(0, 500), "cigar": c})
    outs = ctx.driver.run([vlib.req("C11.T.mirror_start", **kw) for kw in cs])
    for kw, mo in zip(cs, outs):
        ctx.evaluations += 1
        ctx.count("op:T.mirror_start")
        io = {"start": mirror_start(kw["L"], kw["s"], kw["cigar"]), "read_L": query_len(kw["cigar"]) - 2}
        ctx.traces_validated += 1
        if mo != io:
            ctx.disagree("T.mirror_start", kw, mo, io)
