"""C05 (growth) — the contig sets of BAM header and reference FASTA differ (model: lean/IsoVerif/Model/ContigSets.lean, driver
prefix `C05C.`; theorems: Props/C05Contigs.lean).

The per-chromosome tasks of a run are the KEYS OF THE FASTA (`DatasetProcessor.get_chr_list`); the BAM headers are never
consulted.  Pinned tree: (A) a BAM contig that the FASTA lacks silently loses its alignments (exit 0, no warning, the log
statistics count the visited contigs only); (B) a FASTA contig missing from the BAM header aborts the run (KeyError 'unknown
reference …').  Repaired tree (fix_bam_header_missing_contig.patch, fix_skipped_sequences_warning.patch): (B) is an empty task;
(A) is announced by a warning that names the contigs and the number of alignments.  Reading rule (docs/C05contigs.md): the
statement's "input" = the alignments on the sequences of the reference FASTA, PROVIDED the run says which alignments it leaves
out; a silent loss is a failure.

Hooks for harness/props/C05.py (this module does not touch C05 files):
    in correspondence(ctx):   from props import C05contigs; C05contigs.correspondence(ctx)
    in oracle(ctx, ...):      from props import C05contigs; C05contigs.oracle(ctx)
    (+ "IsoVerif/Props/C05Contigs.lean" in PROPS, "IsoVerif.Props.C05Contigs" in TARGETS, and in replay():
     `if failure["input"].get("level") == "contigs": return C05contigs.replay(ctx, failure)`)
It also runs on its own: `vcheck.py --property C05contigs`.
"""
import collections
import os
import re
import shutil

import vlib
import pipeline as P
from gen import refsets as R

ID = "C05"
PROPS = ["IsoVerif/Props/C05Contigs.lean"]
TARGETS = ["IsoVerif.Props.C05Contigs"]
GEN_DEPS = []
LEVEL = "proof"
RULE = ("pipeline runs on generated contig sets (BAM header, FASTA keys: two subsets of four contigs with a non-empty "
        "intersection; unspliced reads incl. secondary / supplementary records), both memory modes; a case is non-trivial "
        "when the run succeeds, at least one record is visited and model == implementation")
TRUSTED = ["an alignment is reduced to (query name, contig, category); what happens inside a contig is the subject of the other "
           "C05 models", "pysam's index statistics give the mapped records per contig of the header"]
ASSUMPTIONS = ["every mapped record of a BAM file lies on a contig of its header (WellFormed)",
               "reading rule: the statement's input = the alignments on sequences of the reference FASTA, provided the run "
               "announces the alignments it leaves out (docs/C05contigs.md)"]

CAT = {0: 0, 256: 1, 2048: 2}
_cache = {}


def stats_of(log):
    m = re.search(r"overall alignment statistics:?(.*?)(?:Finishing read assignment|No reads were assigned)", log, re.S)
    if not m:
        return None
    d = {k: int(v) for k, v in re.findall(r"(primary|secondary|supplementary|unaligned): (\d+)", m.group(1))}
    return [d.get("primary", 0), d.get("secondary", 0), d.get("supplementary", 0)]


def announced(log):
    """(total, contig names) of the warnings about alignments on sequences absent from the reference"""
    tot, names = 0, []
    for l in log.split("\n"):
        m = re.search(r"WARNING.*?(\d+) alignments on (\d+) sequence\(s\) absent from the reference genome.*: (.*)$", l)
        if m:
            tot += int(m.group(1))
            names += [x.strip() for x in m.group(3).split(",")]
    return tot, sorted(names)


def run_real(spec):
    """-> dict(rc, stats, bed primary names, announced, scenario facts); cached for the oracle of the same run"""
    key = (spec["scenario"], spec["seed"], spec["mode"])
    if key in _cache:
        return _cache[key]
    sc = R.build(spec["scenario"], spec["seed"])
    d = P.scratch("isoverif_c05ctg_")
    try:
        paths = R.write(sc, os.path.join(d, "in"))
        extra = ["--high_memory"] if spec["mode"] == "high_memory" else []
        args = P.std_args(paths, threads=spec.get("threads", 2), genedb=sc.with_annotation, extra=extra)
        rc, log = P.run_isoquant(os.path.join(d, "out"), args)
        res = {"rc": rc, "stats": stats_of(log), "announced": announced(log), "bed": None,
               "error": "; ".join(l for l in log.split("\n") if l.startswith(("KeyError", "ValueError")))[:200]}
        if rc == 0:
            of = P.out_files(os.path.join(d, "out"))
            bed = [f for f in of if f.endswith(".corrected_reads.bed")]
            res["bed"] = sorted(r[3] for r in P.read_bed(of[bed[0]])) if bed else []
    finally:
        shutil.rmtree(d, ignore_errors=True)
    names = list(sc.ds.chroms)
    res["model_input"] = {"fasta": [names.index(n) for n in sc.fasta_names()], "header": [names.index(n) for n in sc.bam_names()],
                          "alns": [{"name": i, "contig": names.index(r["chr"]),
                                    "cat": CAT.get(r["flag"] & (256 | 2048), 0)}
                                   for i, r in enumerate(sc.ds.reads) if not (r["flag"] & 4) and r["chr"] in sc.bam_names()]}
    res["read_names"] = {i: r["name"] for i, r in enumerate(sc.ds.reads) if not (r["flag"] & 4)}
    res["contig_names"] = names
    _cache[key] = res
    return res


def specs(ctx):
    rng = ctx.rng
    out = [{"scenario": "bam_only_contig", "seed": rng.randrange(10 ** 6), "mode": "default"},
           {"scenario": "fasta_only_chrom", "seed": rng.randrange(10 ** 6), "mode": "high_memory"}]
    for k in range(3 if ctx.tier == "quick" else 24):
        out.append({"scenario": "contig_sets", "seed": rng.randrange(10 ** 6), "mode": ["default", "high_memory"][k % 2]})
    return out


def correspondence(ctx):
    todo = specs(ctx)
    ctx.extra["contig_specs"] = todo
    for spec in todo:
        real = run_real(spec)
        mi = real["model_input"]
        mo = ctx.driver.run([vlib.req("C05C.collect_run", **mi)])[0]
        ctx.evaluations += 1
        ctx.traces_validated += 1
        ctx.count("op:contig_run")
        fasta, header = set(mi["fasta"]), set(mi["header"])
        if header - fasta:
            ctx.count("contigs:bam_contig_not_in_fasta")
        if fasta - header:
            ctx.count("contigs:fasta_contig_not_in_bam_header")
        if real["rc"] != 0:
            ctx.disagree("contig_run", {"spec": spec}, {"fixed": "runs", "orig": mo["orig"]}, {"error": "error", "rc": real["rc"], "exc": real["error"]})
            continue
        prim = sorted(real["read_names"][a[0]] for a in mo["fixed"] if a[2] == 0)
        skipped = mo["skipped"]
        model_view = {"stats": mo["stats"], "primary_in_bed": prim, "announced": [len(skipped), sorted({real["contig_names"][a[1]] for a in skipped})]}
        all_prim = {real["read_names"][a["name"]] for a in mi["alns"] if a["cat"] == 0}
        real_view = {"stats": real["stats"], "primary_in_bed": sorted(n for n in real["bed"] if n in all_prim),
                     "announced": [real["announced"][0], real["announced"][1]]}
        if model_view != real_view:
            ctx.disagree("contig_run", {"spec": spec}, model_view, real_view)
        elif mo["fixed"]:
            ctx.mark_nontrivial(["contig_run", spec])
            if len(ctx.samples) < 3:
                ctx.sample({"op": "contig_run", "spec": spec, "model": model_view})


def property_failures(spec):
    """the clauses of C05 that involve the contig sets, on the real pipeline; -> list of (kind, detail)"""
    real = run_real(spec)
    mi = real["model_input"]
    fails = []
    if real["rc"] != 0:
        # the class of audit C05 GAP 2 (B) has a kind of its own; any other abort stays `pipeline_crash`
        kind = "run_aborts_on_contig_missing_from_bam_header" if ("unknown reference" in real["error"] and set(mi["fasta"]) - set(mi["header"])) \
            else "pipeline_crash"
        return [(kind, "rc=%s %s (contig sets: FASTA %s, BAM header %s)" % (real["rc"], real["error"], mi["fasta"], mi["header"]))]
    fasta = set(mi["fasta"])
    inside = [a for a in mi["alns"] if a["contig"] in fasta]
    outside = [a for a in mi["alns"] if a["contig"] not in fasta]
    bed = set(real["bed"])
    lost = [real["read_names"][a["name"]] for a in inside if a["cat"] == 0 and real["read_names"][a["name"]] not in bed]
    if lost:
        fails.append(("primary_alignment_lost", "%d primary alignments on sequences of the reference are not in corrected_reads.bed: %s" % (len(lost), lost[:5])))
    want = [sum(1 for a in inside if a["cat"] == c) for c in (0, 1, 2)]
    if real["stats"] != want:
        fails.append(("statistics_mismatch", "log statistics %s, records of the input on sequences of the reference %s" % (real["stats"], want)))
    if outside:
        names = sorted({real["contig_names"][a["contig"]] for a in outside})
        tot, ann_names = real["announced"]
        if tot != len(outside) or ann_names != names:
            fails.append(("alignments_on_unknown_contig_dropped_silently",
                          "%d alignments on %s (BAM contigs absent from the FASTA) are in no output; the log announces %d on %s"
                          % (len(outside), names, tot, ann_names)))
    return fails


def oracle(ctx, disagreements=None, broken=None):
    todo = ctx.extra.get("contig_specs") or specs(ctx)
    runs = []
    for spec in todo:
        fails = property_failures(spec)
        runs.append({"spec": spec, "fails": [k for k, _ in fails]})
        for kind, det in fails:
            key = "fails:%s:contigs" % kind
            ctx.count(key)
            if ctx.hist[key] <= 3:
                ctx.fail(kind, {"level": "contigs", "spec": spec}, det)
    ctx.extra["contig_runs"] = runs
    _cache.clear()


def replay(ctx, failure):
    inp = failure["input"]
    if inp.get("level") != "contigs":
        return False
    _cache.clear()
    return any(k == failure["kind"] for k, _ in property_failures(inp["spec"]))
