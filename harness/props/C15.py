"""C15 — saved read assignments round-trip losslessly and can be reused."""
import collections
import io
import os
import shutil
import tempfile
import types

import vlib
from gen import serial as G

ID = "C15"
PROPS = ["IsoVerif/Props/C15.lean", "IsoVerif/Props/C15Objects.lean", "IsoVerif/Props/C15Stream.lean",
         "IsoVerif/Props/C15Domain.lean", "IsoVerif/Props/C15Reuse.lean", "IsoVerif/Props/C15Printers.lean",
         "IsoVerif/Props/C15Penalty.lean", "IsoVerif/Props/C15Setup.lean"]
TARGETS = ["IsoVerif.Props.C15", "IsoVerif.Props.C15Objects", "IsoVerif.Props.C15Stream", "IsoVerif.Props.C15Domain",
           "IsoVerif.Props.C15Reuse", "IsoVerif.Props.C15Printers", "IsoVerif.Props.C15Penalty", "IsoVerif.Props.C15Setup"]
# the reuse clause composes the models of C08 / C02 / C12 (Model/Reuse.lean), hence their generated tables
GEN_DEPS = ["Constants", "Enums", "EventClasses", "Strategies", "Prims", "Resolver", "CounterTables", "Weights",
            "PrinterTables"]
LEVEL = "proof"
RULE = ("byte-level: the real writers (serialization.py primitives, MatchEvent/IsoformMatch/ReadAssignment/"
        "BasicReadAssignment/GeneInfo.serialize, TmpFileAssignmentPrinter, multimapper/info files) must produce exactly "
        "the model's bytes (or both raise) on generated objects: every enum member, empty lists, None/'' ids, sentinel "
        "positions 2^30±1, 2^31-1, 2^31, 2^32-1, negative event_info, strings of 65534/65535/65536 UTF-8 bytes, non-ASCII "
        "text, out-of-domain values; every real reader (full, abridged, stream loaders) is then run on the real bytes, on "
        "the real bytes + random suffix, on truncations and on single-byte corruptions and must agree with the model "
        "reader on value and number of unread bytes (or both raise); the files kept by a real pipeline run are parsed by "
        "the model loaders and re-encoded to the identical bytes. Reuse clause (props/C15reuse.py): generated experiments "
        "(records of a real run with read ids / flags / types / matches / penalties re-drawn; reads with several records "
        "on one and on several chromosomes) go through the REAL command line in-process - saving run in both memory modes "
        "(only collect_reads_in_parallel replaced by a stub that feeds the real printer) and the real --read_assignments "
        "restart; the saved files must equal the model's bytes, and the loaded records, count and TPM tables of the saving "
        "run and of the restart must equal the model's (processSaved on the real files); read_assignments.tsv and "
        "corrected_reads.bed of both runs must equal, line by line, what the model prints from the real saved files "
        "(processSavedP); unit level: the real composite printer on generated records / gene infos, every event name, "
        "the reference window, merge_files. Run set-up (props/C15setup.py, Props/C15Setup.lean): experiments of 1-3 files x "
        "--read_group none / file_name / tag / read_id, the restart given exactly the saving run's options; args.read_group and "
        "args.use_technical_replicas at the entry of the real process_assigned_reads of both runs, and whether grouped tables "
        "were written, must equal the model's Setup; the real load_run_setup on exact / extended / damaged _info files. "
        "A case is non-trivial when the model returns a "
        "non-error value and model == implementation; distinct by (op, input)")
TRUSTED = ["harness/props/C15.py adapters between the canonical JSON form and the real objects "
           "(ReadAssignment/IsoformMatch/... built with __new__ + attributes, exactly the attributes serialize reads)",
           "the multimapper-file READING loop is inlined in construct_models_in_parallel, which cannot be called in "
           "isolation; the harness re-states those 6 lines with the real primitives (the real loop runs in the pipeline "
           "pair; the real WRITER, DatasetProcessor.resolve_multimappers, is called directly with an identity resolver and "
           "its files are compared byte for byte with the model)",
           "props/C15reuse.py: the stub of collect_reads_in_parallel (generated objects -> real printer -> processed_reads as "
           "the real function returns them) and of pysam.AlignmentFile(...).unmapped; the interning table sent to the driver",
           "props/C15print.py (read-level printers): the `GeneInfo` of the unit-level cases is built with __new__ + the five "
           "attributes the printers read (chr_id, all_isoforms_introns, reference_region, all_read_region_start, "
           "canonical_sites); `gene_window` restates the two lines of NormalTmpFileAssignmentLoader.get_object that cut the "
           "reference window before the REAL extend_reference_region (the real loader runs in every in-process run); the "
           "`common_header` lines and `all_isoforms_introns` (real GeneInfo.deserialize on the real database) are handed to "
           "the model as parameters",
           "props/C15setup.py SetupProbe: a wrapper around DatasetProcessor.process_assigned_reads that records two attributes of "
           "args and calls the real method; the groups handed out by the stubbed collector follow the grouper of the saving "
           "run's mode (file labels f0.., tag values)",
           "Lean `String.fromUTF8?` accepts exactly the byte strings CPython's strict utf-8 decoder accepts "
           "(cross-checked on corrupted streams each run)"]
ASSUMPTIONS = ["CPython int = Lean Int; Python str without lone surrogates = Lean String (list of Unicode scalar values)",
               "penalty floats are passed as exact fractions; float*2^20, int() and n/2^20 are exact for the values involved "
               "(power-of-two scaling), so the model's rational arithmetic is the float arithmetic",
               "BasicReadAssignment.genes/isoforms are sorted(set(...)): Python orders str by code point, as Lean orders String",
               "at end of file `inf.read(k)` returns fewer bytes and never raises (modelled as take/drop)",
               "reuse clause: NoSuspendedInput and pairwise different assignment ids per dump are facts about the unmodelled "
               "collecting stage: MONITORED on the kept dumps of the saving run (harness/gen/savedumps.py); MemoryModeOk / "
               "NonNegFirst is proved for the modelled assigner in Props/C15Penalty.lean under a hypothesis on the comparator's "
               "index ranges (monitored: harness/mon_wrap.py `c14events`, `penalty` in the C14 / C11 / C01 pipeline runs)"]

WRITE_ERRORS = (OverflowError, AssertionError, ValueError, TypeError, AttributeError, IndexError, KeyError)
READ_ERRORS = (ValueError, IndexError, AssertionError, OverflowError, TypeError, KeyError, AttributeError)
ERR = {"error": "error"}


class Budget(Exception):
    pass


class GuardedIO(io.BytesIO):
    """BytesIO that gives up after `budget` reads (a corrupted length prefix can ask for 2^32 iterations)"""

    def __init__(self, data, budget=20000):
        super().__init__(data)
        self.budget = budget

    def read(self, n=-1):
        self.budget -= 1
        if self.budget < 0:
            raise Budget()
        return super().read(n)


_IM = {}


def _impl():
    if not _IM:
        vlib.repo_on_path()
        import src.serialization as S
        import src.isoform_assignment as IA
        import src.polya_finder as PF
        import src.gene_info as GI
        import src.assignment_io as AIO
        import src.dataset_processor as DP
        _IM.update(S=S, IA=IA, PF=PF, GI=GI, AIO=AIO, DP=DP)
    return types.SimpleNamespace(**_IM)


def enums():
    m = _impl()
    return {"MatchEventSubtype": [e.value for e in m.IA.MatchEventSubtype],
            "MatchClassification": [e.value for e in m.IA.MatchClassification],
            "ReadAssignmentType": [e.value for e in m.IA.ReadAssignmentType]}


# ------------------------------------------------------------------------------------------------
# canonical JSON <-> real objects

def mk_dict(j):
    d = {}
    for k, v in j:
        if "i" in v:
            d[G.from_cps(k)] = v["i"]
        elif "s" in v:
            d[G.from_cps(k)] = G.from_cps(v["s"])
        else:
            d[G.from_cps(k)] = tuple(v["p"])
    return d


def j_dict(d):
    out = []
    for k, v in d.items():
        if isinstance(v, bool) or isinstance(v, int):
            out.append([G.cps(k), {"i": int(v)}])
        elif isinstance(v, str):
            out.append([G.cps(k), {"s": G.cps(v)}])
        else:
            out.append([G.cps(k), {"p": [v[0], v[1]]}])
    return out


def opt_s(x):
    return None if x is None else G.from_cps(x)


def j_opt_s(x):
    return None if x is None else G.cps(x)


def mk_event(j):
    m = _impl()
    return m.IA.MatchEvent(m.IA.MatchEventSubtype(j["t"]), tuple(j["ir"]), tuple(j["rr"]), j["info"])


def j_event(e):
    return {"t": e.event_type.value, "ir": list(e.isoform_region), "rr": list(e.read_region), "info": e.event_info}


def mk_match(j):
    m = _impl()
    x = m.IA.IsoformMatch.__new__(m.IA.IsoformMatch)
    x.assigned_gene = opt_s(j["gene"])
    x.assigned_transcript = opt_s(j["tr"])
    x.transcript_strand = G.from_cps(j["strand"])
    x.match_classification = m.IA.MatchClassification(j["cls"])
    x.penalty_score = G.float_of_frac(j["pen"])
    x.match_subclassifications = [mk_event(e) for e in j["events"]]
    return x


def j_match(x):
    return {"gene": j_opt_s(x.assigned_gene), "tr": j_opt_s(x.assigned_transcript), "strand": G.cps(x.transcript_strand),
            "cls": x.match_classification.value, "pen": G.frac_of_float(x.penalty_score),
            "events": [j_event(e) for e in x.match_subclassifications]}


def mk_ra(j):
    m = _impl()
    r = m.IA.ReadAssignment.__new__(m.IA.ReadAssignment)
    r.assignment_id = j["id"]
    r.read_id = G.from_cps(j["read_id"])
    r.genomic_region = tuple(j["region"])
    r.exons = [tuple(e) for e in j["exons"]]
    r.corrected_exons = [tuple(e) for e in j["cexons"]]
    r.corrected_introns = [tuple(e) for e in j["cintrons"]]
    r.gene_info = None
    r.multimapper, r.polyA_found, r.cage_found = j["flags"]
    r.polya_info = m.PF.PolyAInfo(*j["polya"])
    r.read_group = G.from_cps(j["group"])
    r.mapped_strand = G.from_cps(j["mstrand"])
    r.strand = G.from_cps(j["strand"])
    r.chr_id = G.from_cps(j["chr"])
    r.mapping_quality = j["mapq"]
    r.assignment_type = m.IA.ReadAssignmentType(j["atype"])
    r.gene_assignment_type = m.IA.ReadAssignmentType(j["gtype"])
    r.isoform_matches = [mk_match(x) for x in j["matches"]]
    r.additional_info = mk_dict(j["info"])
    r.additional_attributes = mk_dict(j["attrs"])
    r.introns_match = j["introns_match"]
    r.exon_gene_profile = list(j["eprof"])
    r.intron_gene_profile = list(j["iprof"])
    return r


def j_ra(r):
    p = r.polya_info
    return {"id": r.assignment_id, "read_id": G.cps(r.read_id), "region": list(r.genomic_region),
            "exons": [list(e) for e in r.exons], "cexons": [list(e) for e in r.corrected_exons],
            "cintrons": [list(e) for e in r.corrected_introns],
            "flags": [bool(r.multimapper), bool(r.polyA_found), bool(r.cage_found)],
            "polya": [p.external_polya_pos, p.external_polyt_pos, p.internal_polya_pos, p.internal_polyt_pos],
            "group": G.cps(r.read_group), "mstrand": G.cps(r.mapped_strand), "strand": G.cps(r.strand), "chr": G.cps(r.chr_id),
            "mapq": r.mapping_quality, "atype": r.assignment_type.value, "gtype": r.gene_assignment_type.value,
            "matches": [j_match(x) for x in r.isoform_matches], "info": j_dict(r.additional_info),
            "attrs": j_dict(r.additional_attributes), "introns_match": bool(r.introns_match),
            "eprof": list(r.exon_gene_profile), "iprof": list(r.intron_gene_profile)}


def mk_basic(j):
    m = _impl()
    b = m.IA.BasicReadAssignment.__new__(m.IA.BasicReadAssignment)
    b.assignment_id = j["id"]
    b.read_id = G.from_cps(j["read_id"])
    b.chr_id = G.from_cps(j["chr"])
    b.start, b.end = j["start"], j["end"]
    b.genomic_region = tuple(j["region"])
    b.multimapper, b.polyA_found = j["mm"], j["polya"]
    b.assignment_type = m.IA.ReadAssignmentType(j["atype"])
    b.gene_assignment_type = m.IA.ReadAssignmentType(j["gtype"])
    b.penalty_score = G.float_of_frac(j["pen"])
    b.genes = [G.from_cps(x) for x in j["genes"]]
    b.isoforms = [G.from_cps(x) for x in j["isoforms"]]
    return b


def j_basic(b, _unused=False):
    genes = [G.cps(x) for x in b.genes]
    iso = [G.cps(x) for x in b.isoforms]
    return {"id": b.assignment_id, "read_id": G.cps(b.read_id), "chr": G.cps(b.chr_id), "start": b.start, "end": b.end,
            "region": list(b.genomic_region), "mm": bool(b.multimapper), "polya": bool(b.polyA_found),
            "atype": b.assignment_type.value, "gtype": b.gene_assignment_type.value,
            "pen": G.frac_of_float(b.penalty_score), "genes": genes, "isoforms": iso}


def mk_header(j):
    m = _impl()
    g = m.GI.GeneInfo.__new__(m.GI.GeneInfo)
    g.delta = j["delta"]
    g.gene_db_list = [types.SimpleNamespace(id=G.from_cps(x)) for x in j["genes"]]
    g.chr_id = G.from_cps(j["chr"])
    g.start, g.end = j["start"], j["end"]
    return g


class _RecordStrings:
    """records the strings `GeneInfo.deserialize` reads (gene ids are read and dropped when no database is given)"""

    def __enter__(self):
        m = _impl()
        self.m = m
        self.orig = m.GI.read_string
        self.seen = []

        def rec(inf):
            s = self.orig(inf)
            self.seen.append(s)
            return s
        m.GI.read_string = rec
        return self

    def __exit__(self, *a):
        self.m.GI.read_string = self.orig


def read_header(inf):
    m = _impl()
    with _RecordStrings() as rec:
        g = m.GI.GeneInfo.deserialize(inf, None)
    return j_header(g, rec.seen[:-1])


def j_header(g, ids):
    return {"delta": g.delta, "genes": [G.cps(x) for x in ids], "chr": G.cps(g.chr_id), "start": g.start, "end": g.end}


# ------------------------------------------------------------------------------------------------
# calling the real writers / readers

def do_write(fn):
    """fn(outf) -> hex string of what was written, or the error enum"""
    b = io.BytesIO()
    try:
        fn(b)
    except WRITE_ERRORS as ex:
        return {"error": "error", "exc": type(ex).__name__}
    return b.getvalue().hex()


class GuardedBytes:
    """bytes with a read budget of their own (see the reader loop of `correspondence`)"""

    def __init__(self, data, budget):
        self.data, self.budget = data, budget

    def __len__(self):
        return len(self.data)


def do_read(fn, data, conv=lambda x: x, guarded=False):
    """fn(inf) -> {"v": canonical value, "rest": unread bytes} or the error enum; Budget propagates"""
    if isinstance(data, GuardedBytes):
        inf = GuardedIO(data.data, data.budget)
        data = data.data
    else:
        inf = GuardedIO(data) if guarded else io.BytesIO(data)
    try:
        v = fn(inf)
        return {"v": conv(v), "rest": len(data) - inf.tell()}
    except READ_ERRORS as ex:
        return {"error": "error", "exc": type(ex).__name__}


def writers():
    m = _impl()
    S, IA = m.S, m.IA
    return {
        "write_int_neg": lambda x: (lambda o: S.write_int_neg(x, o)),
        "write_string": lambda x: (lambda o: S.write_string(G.from_cps(x), o)),
        "write_string_or_none": lambda x: (lambda o: S.write_string_or_none(opt_s(x), o)),
        "write_bool_array": lambda x: (lambda o: S.write_bool_array(x, o)),
        "write_list_int": lambda x: (lambda o: S.write_list(x, o, S.write_int)),
        "write_list_int_neg": lambda x: (lambda o: S.write_list(x, o, S.write_int_neg)),
        "write_list_string": lambda x: (lambda o: S.write_list([G.from_cps(s) for s in x], o, S.write_string)),
        "write_list_of_pairs": lambda x: (lambda o: S.write_list_of_pairs([tuple(p) for p in x], o, S.write_int)),
        "write_dict": lambda x: (lambda o: S.write_dict(mk_dict(x), o)),
        "write_penalty": lambda x: (lambda o: S.write_int(int(G.float_of_frac(x) * S.SHORT_FLOAT_MULTIPLIER), o)),
        "enc_event": lambda x: (lambda o: mk_event(x).serialize(o)),
        "enc_match": lambda x: (lambda o: mk_match(x).serialize(o)),
        "enc_ra": lambda x: (lambda o: mk_ra(x).serialize(o)),
        "enc_basic": lambda x: (lambda o: mk_basic(x).serialize(o)),
        "enc_header": lambda x: (lambda o: mk_header(x).serialize(o)),
        "enc_multimap": lambda x: (lambda o: impl_write_multimap(x, o)),
        "enc_info": lambda x: (lambda o: impl_write_info(x, o)),
        "enc_info_file": lambda x: (lambda o: impl_write_info_file(x, o)),
        "enc_info_file_setup": lambda x: (lambda o: impl_write_info_file_setup(x, o)),
    }


def readers():
    """op -> (fn(inf), canonicaliser)"""
    m = _impl()
    S, IA = m.S, m.IA
    cs = lambda s: G.cps(s)
    return {
        "read_int_neg": (S.read_int_neg, int),
        "read_string": (S.read_string, cs),
        "read_string_or_none": (S.read_string_or_none, j_opt_s),
        "read_list_int": (lambda i: S.read_list(i, S.read_int), list),
        "read_list_int_neg": (lambda i: S.read_list(i, S.read_int_neg), list),
        "read_list_string": (lambda i: S.read_list(i, S.read_string), lambda l: [cs(s) for s in l]),
        "read_list_of_pairs": (lambda i: S.read_list_of_pairs(i, S.read_int), lambda l: [list(p) for p in l]),
        "read_dict": (S.read_dict, j_dict),
        "read_penalty": (lambda i: float(S.read_int(i)) / float(S.SHORT_FLOAT_MULTIPLIER), G.frac_of_float),
        "dec_event": (IA.MatchEvent.deserialize, j_event),
        "dec_match": (IA.IsoformMatch.deserialize, j_match),
        "dec_ra": (lambda i: IA.ReadAssignment.deserialize(i, None), j_ra),
        "quick_ra": (IA.BasicReadAssignment.deserialize_from_read_assignment, lambda b: j_basic(b, True)),
        "dec_basic": (IA.BasicReadAssignment.deserialize, j_basic),
        "dec_header": (read_header, lambda x: x),
        "load_multimap": (impl_load_multimap, lambda ls: [[j_basic(b) for b in l] for l in ls]),
        "dec_info": (impl_read_info, lambda x: x),
        "dec_unaligned": (impl_read_unaligned, int),
        "dec_setup": (impl_read_setup, lambda x: x),
    }


READER_OF = {"write_int_neg": ["read_int_neg"], "write_string": ["read_string", "read_string_or_none"],
             "write_string_or_none": ["read_string_or_none"], "write_list_int": ["read_list_int"],
             "write_list_int_neg": ["read_list_int_neg"], "write_list_string": ["read_list_string"],
             "write_list_of_pairs": ["read_list_of_pairs"], "write_dict": ["read_dict"], "write_penalty": ["read_penalty"],
             "enc_event": ["dec_event"], "enc_match": ["dec_match"], "enc_ra": ["dec_ra", "quick_ra"],
             "enc_basic": ["dec_basic"], "enc_header": ["dec_header"], "enc_multimap": ["load_multimap"],
             "enc_info": ["dec_info", "dec_unaligned", "dec_setup"],
             "enc_info_file": ["dec_info", "dec_unaligned", "dec_setup"],
             "enc_info_file_setup": ["dec_info", "dec_unaligned", "dec_setup"]}
# readers that must not be run on damaged input (the real loop does not terminate on a truncated file)
NO_DAMAGE = {"load_multimap"}


def impl_write_multimap(ls, outf):
    """resolve_multimappers: write_list(resolved_lists[chr_id], dumper, BasicReadAssignment.serialize) per read,
    then write_int(TERMINATION_INT, dumper)"""
    m = _impl()
    for l in ls:
        m.S.write_list([mk_basic(b) for b in l], outf, m.IA.BasicReadAssignment.serialize)
    m.S.write_int(m.S.TERMINATION_INT, outf)


def impl_load_multimap(inf):
    """the reading loop at the top of construct_models_in_parallel (without the chr_id filter)"""
    m = _impl()
    res = []
    list_size = m.S.read_int(inf)
    while list_size != m.S.TERMINATION_INT:
        cur = []
        for _ in range(list_size):
            cur.append(m.IA.BasicReadAssignment.deserialize(inf))
        res.append(cur)
        list_size = m.S.read_int(inf)
    return res


def impl_write_info(x, outf):
    """the tail of DatasetProcessor.collect_reads"""
    m = _impl()
    m.S.write_int(x["total"], outf)
    m.S.write_int(x["polya"], outf)
    m.S.write_list([G.from_cps(s) for s in x["groups"]], outf, m.S.write_string)


def impl_write_info_file(x, outf):
    """the `_info` file since fix cc73ffc: the three fields, then alignment_stat_counter.stats_dict[unaligned]
    (the byte-for-byte comparison with the file the REAL collect_reads writes is props/C15reuse.py)"""
    impl_write_info(x, outf)
    _impl().S.write_int(x["unaligned"], outf)


class _NoClose:
    """what `open(dump_filename + "_info", "rb")` returns inside the real loaders: the harness stream, so that the
    number of bytes the REAL method consumed stays observable after its `close()`"""

    def __init__(self, inf):
        self.inf = inf

    def read(self, n=-1):
        return self.inf.read(n)

    def close(self):
        pass


def _real_info_method(name, inf):
    """DatasetProcessor.<name>(self, dump_filename) of /repo on the stream `inf` (the methods use no attribute of self)"""
    m = _impl()
    m.DP.open = lambda *a, **kw: _NoClose(inf)          # module-global `open` of src/dataset_processor.py
    try:
        return getattr(m.DP.DatasetProcessor, name)(None, "prefix")
    finally:
        del m.DP.open


def impl_read_info(inf):
    """the REAL DatasetProcessor.load_read_info; the group set is compared as the sorted list, so the model's list is
    compared after sorting and de-duplication too (see `norm_info`)"""
    t, p, g = _real_info_method("load_read_info", inf)
    return {"total": t, "polya": p, "groups": sorted(G.cps(s) for s in g)}


def impl_write_info_file_setup(x, outf):
    """the `_info` file since the run set-up is stored: + len(sample.file_list), args.read_group (write_string_or_none)
    (the byte-for-byte comparison with the file the REAL collect_reads writes is props/C15reuse.py)"""
    impl_write_info_file(x, outf)
    m = _impl()
    m.S.write_int(x["setup"]["files"], outf)
    m.S.write_string_or_none(opt_s(x["setup"]["read_group"]), outf)


def impl_read_setup(inf):
    """the REAL DatasetProcessor.load_run_setup"""
    if not hasattr(_impl().DP.DatasetProcessor, "load_run_setup"):
        # a tree without the method: walk over the older fields with the real reader first, so that a corrupted list
        # count runs into the read budget as it would in the method (the model is not asked then), then report the error
        impl_read_unaligned(inf)
        raise AttributeError("DatasetProcessor.load_run_setup")
    n, g = _real_info_method("load_run_setup", inf)
    return {"files": n, "read_group": j_opt_s(g)}


def impl_read_unaligned(inf):
    """the REAL DatasetProcessor.load_unaligned_reads (fix cc73ffc)"""
    return _real_info_method("load_unaligned_reads", inf)


def impl_resolve_multimappers(reads, chr_ids):
    """the REAL DatasetProcessor.resolve_multimappers (writer of the multimapper files) on a dict read_id -> records,
    with the resolver replaced by the identity (the resolution itself is C08's subject): returns {chr: file bytes}"""
    m = _impl()

    class IdentityResolver:
        def __init__(self, strategy):
            pass

        def resolve(self, l):
            return l
    d = tempfile.mkdtemp(prefix="isoverif_c15m_")
    orig = m.DP.MultimapResolver
    m.DP.MultimapResolver = IdentityResolver
    try:
        fake_self = types.SimpleNamespace(args=types.SimpleNamespace(multimap_strategy=None))
        sample = types.SimpleNamespace(out_raw_file=os.path.join(d, "x.save"))
        mm = {}
        for rid, lst in reads:
            mm[rid] = [mk_basic(b) for b in lst]
        m.DP.DatasetProcessor.resolve_multimappers(fake_self, chr_ids, sample, mm)
        res = {}
        for c in chr_ids:
            with open(sample.out_raw_file + "_multimappers_" + c, "rb") as f:
                res[c] = f.read()
        return res
    finally:
        m.DP.MultimapResolver = orig
        shutil.rmtree(d, ignore_errors=True)


def multimap_writer_cases(ctx, E):
    """byte-level tie of the real multimapper-file writer: per chromosome, the file must be the model's
    writeMultimap of the per-read sublists, in dict order, reads with a single record skipped"""
    rng = ctx.rng
    cases = []
    chrs = ["chr1", "chr2", "chrX"]
    for _ in range(15 if ctx.tier == "quick" else 150):
        reads = []
        for k in range(rng.randint(0, 5)):
            lst = []
            for _ in range(rng.choice([1, 2, 2, 3, 4])):
                b = G.rand_basic(rng, E, True)
                b["chr"] = G.cps(rng.choice(chrs))
                lst.append(b)
            reads.append(("read%d" % k, lst))
        try:
            files = impl_resolve_multimappers(reads, chrs)
        except WRITE_ERRORS as ex:
            files = None
        for c in chrs:
            exp = []
            for _, lst in reads:
                if len(lst) > 1:
                    sub = [b for b in lst if G.from_cps(b["chr"]) == c]
                    if sub:
                        exp.append(sub)
            cases.append(("enc_multimap", {"x": exp}, files[c].hex() if files else ERR))
            ctx.count("multimap_writer_file")
    return cases


# ---- stream files through the real printer / loaders

def impl_write_stream(items, path):
    """TmpFileAssignmentPrinter: add_gene_info / add_read_info per item, terminator written by __del__"""
    m = _impl()
    pr = m.AIO.TmpFileAssignmentPrinter(path, None)
    try:
        for it in items:
            if "gene" in it:
                pr.add_gene_info(mk_header(it["gene"]))
            else:
                pr.add_read_info(mk_ra(it["read"]))
    finally:
        pr.output_file.close()
        del pr          # CPython: __del__ runs here (terminator + close)
    with open(path, "rb") as f:
        return f.read()


class _HeaderRecorder:
    """while active, every `GeneInfo.deserialize` call appends the canonical header it read to `self.headers`
    (the gene ids are read from the stream and dropped when no database is given, so they are recorded here)"""

    def __enter__(self):
        m = _impl()
        self.m = m
        self.headers = []
        self.rec = _RecordStrings()
        self.rec.__enter__()
        self.orig = m.GI.GeneInfo.deserialize.__func__
        rec, headers, orig = self.rec, self.headers, self.orig

        def wrapped(cls, inf, db):
            n0 = len(rec.seen)
            g = orig(cls, inf, db)
            headers.append(j_header(g, rec.seen[n0:-1]))
            return g
        m.GI.GeneInfo.deserialize = classmethod(wrapped)
        return self

    def __exit__(self, *a):
        self.m.GI.GeneInfo.deserialize = classmethod(self.orig)
        self.rec.__exit__()


def impl_load_stream(path, quick):
    """ReadAssignmentLoader / BasicReadAssignmentLoader driven the way dataset_processor drives them"""
    m = _impl()
    res = []
    ld = None
    try:
        with _HeaderRecorder() as hr:
            if quick:
                ld = m.DP.BasicReadAssignmentLoader(path)
                while ld.has_next():
                    reads = [j_basic(b, True) for b in ld.get_next() if b is not None]
                    res.append({"gene": hr.headers[-1], "reads": reads})
            else:
                ld = m.DP.ReadAssignmentLoader(path, None, None, None)
                while ld.has_next():
                    g, storage = ld.get_next()
                    res.append({"gene": hr.headers[-1], "reads": [j_ra(r) for r in storage]})
    except READ_ERRORS as ex:
        return {"error": "error", "exc": type(ex).__name__}
    finally:
        if ld is not None:
            ld.unpickler.loader.close()
    return res


def norm_out(op, out):
    """(the gene / isoform lists of BasicReadAssignment are `sorted(set)` in the code and in the model: compared as is)"""
    return out


# ------------------------------------------------------------------------------------------------
# case generation

def primitive_inputs(ctx):
    rng = ctx.rng
    quick = ctx.tier == "quick"
    n = 400 if quick else 2500
    E = enums()
    inp = []
    for v in G.NEG_SENTINELS + G.OUT_OF_RANGE_NEG + G.SENTINELS:
        inp.append(("write_int_neg", v))
    for _ in range(n):
        inp.append(("write_int_neg", G.rand_neg(rng, False)))
    strs = ["", "a", "é1", "日本", "\U0001F600", "a\x00b"] + [G.rand_str(rng, 40) for _ in range(n)]
    for s in strs + G.long_strings():
        inp.append(("write_string", G.cps(s)))
        inp.append(("write_string_or_none", G.cps(s)))
    inp.append(("write_string_or_none", None))
    # bool arrays: exhaustive up to length 4, random up to 9 (assert at 9)
    import itertools
    for ln in range(0, 5):
        for t in itertools.product([False, True], repeat=ln):
            inp.append(("write_bool_array", list(t)))
    for _ in range(40):
        inp.append(("write_bool_array", [rng.random() < 0.5 for _ in range(rng.randint(5, 9))]))
    for _ in range(n // 3):
        inp.append(("write_list_int", [G.rand_u32(rng, False) for _ in range(rng.choice([0, 1, 3, 20]))]))
        inp.append(("write_list_int_neg", [G.rand_neg(rng, False) for _ in range(rng.choice([0, 1, 3, 20]))]))
        inp.append(("write_list_string", [G.cps(G.rand_str(rng, 10)) for _ in range(rng.choice([0, 1, 3, 8]))]))
        inp.append(("write_list_of_pairs", G.rand_exons(rng, True, False)))
        inp.append(("write_dict", G.rand_dict(rng, False)))
        inp.append(("write_penalty", G.frac_of_float(G.rand_penalty(rng, rng.random() < 0.5))))
    inp.append(("write_dict", [[G.cps("a"), {"i": -5}]]))
    inp.append(("write_dict", [[G.cps("p"), {"p": [-1, 3]}], [G.cps("é"), {"s": G.cps("日本")}]]))
    return inp, E


def object_inputs(ctx, E):
    rng = ctx.rng
    quick = ctx.tier == "quick"
    n = 350 if quick else 2500
    inp = []
    evs, ms = G.enum_sweep(E)
    inp += [("enc_event", e) for e in evs] + [("enc_match", x) for x in ms]
    for t in E["ReadAssignmentType"]:
        inp.append(("enc_ra", G.rand_ra(rng, E, True, atype=t)))
    for _ in range(n):
        dom = rng.random() < 0.7
        inp.append(("enc_event", G.rand_event(rng, E, dom)))
        inp.append(("enc_match", G.rand_match(rng, E, dom)))
        inp.append(("enc_ra", G.rand_ra(rng, E, dom, allow_empty_exons=True)))
        inp.append(("enc_basic", G.rand_basic(rng, E, dom)))
        inp.append(("enc_header", G.rand_header(rng, dom)))
    # long strings inside objects
    big = G.rand_ra(rng, E, True)
    big["read_id"] = G.cps("r" * 65534)
    big["matches"] = [dict(G.rand_match(rng, E, True), gene=G.cps("g" * 65534), tr=G.cps("é" * 32767))]
    inp.append(("enc_ra", big))
    bad = dict(big, read_id=G.cps("r" * 65536))
    inp.append(("enc_ra", bad))
    none_collision = dict(G.rand_match(rng, E, True), gene=G.cps("g" * 65535))
    inp.append(("enc_match", none_collision))
    for _ in range(n // 6):
        inp.append(("enc_multimap", [[G.rand_basic(rng, E, True) for _ in range(rng.randint(1, 3))]
                                    for _ in range(rng.randint(0, 3))]))
        inp.append(("enc_info", {"total": G.rand_u32(rng, False), "polya": G.rand_u32(rng, True),
                                 "groups": [G.cps(G.rand_str(rng, 8)) for _ in range(rng.randint(0, 4))]}))
        inp.append(("enc_info_file", {"total": G.rand_u32(rng, False), "polya": G.rand_u32(rng, True),
                                      "groups": [G.cps(G.rand_str(rng, 8)) for _ in range(rng.randint(0, 4))],
                                      "unaligned": G.rand_u32(rng, True)}))
        rg = rng.choice([None, "", "file_name", "tag:CB", "read_id:_", "file:/d\u00e9p\u00f4t/groups.tsv:0:1", G.rand_str(rng, 12)])
        inp.append(("enc_info_file_setup", {"total": G.rand_u32(rng, False), "polya": G.rand_u32(rng, True),
                                            "groups": [G.cps(G.rand_str(rng, 8)) for _ in range(rng.randint(0, 4))],
                                            "unaligned": G.rand_u32(rng, True),
                                            "setup": {"files": rng.choice([0, 1, 2, 3, 40, G.rand_u32(rng, True)]),
                                                      "read_group": None if rg is None else G.cps(rg)}}))
    inp.append(("enc_info_file_setup", {"total": 1, "polya": 0, "groups": [], "unaligned": 0,
                                        "setup": {"files": 2, "read_group": G.cps("f" * 65535)}}))
    return inp


def damaged(rng, data, k):
    """k damaged variants of a byte string: truncations and single-byte corruptions"""
    out = []
    if not data:
        return out
    for _ in range(k):
        if rng.random() < 0.5:
            out.append(data[:rng.randint(0, len(data) - 1)])
        else:
            i = rng.randint(0, len(data) - 1)
            b = bytearray(data)
            b[i] = rng.choice([0, 1, 0x7f, 0x80, 0xff, b[i] ^ (1 << rng.randint(0, 7))])
            out.append(bytes(b))
    return out


def correspondence(ctx):
    rng = ctx.rng
    quick = ctx.tier == "quick"
    W, R = writers(), readers()
    prim, E = primitive_inputs(ctx)
    inputs = prim + object_inputs(ctx, E)
    ctx.extra["enum_members"] = {k: len(v) for k, v in E.items()}
    cases = []      # (op, kwargs, impl result)
    for op, x in inputs:
        iw = do_write(W[op](x))
        cases.append((op, {"x": x}, iw))
        if op == "enc_ra":
            m = _impl()
            try:
                cases.append(("basic_of", {"x": x}, j_basic(m.IA.BasicReadAssignment(mk_ra(x)), True)))
            except READ_ERRORS as ex:
                cases.append(("basic_of", {"x": x}, {"error": "error", "exc": type(ex).__name__}))
        if vlib.is_err(iw):
            ctx.count("writer_raises:" + op)
            continue
        data = bytes.fromhex(iw)
        big = len(data) > 5000
        variants = [data, data + bytes(rng.randint(0, 255) for _ in range(rng.randint(1, 6)))]
        if op not in ("write_string", "write_string_or_none") or not big:
            variants += damaged(rng, data, 1 if big else (3 if quick else 6))
        for rop in READER_OF.get(op, []):
            fn, conv = R[rop]
            for vi, d in enumerate(variants):
                if vi >= 2 and rop in NO_DAMAGE:
                    continue
                try:
                    # every read is budgeted (a budget large enough for any generated value: ~50 reads per element); on
                    # an EXACT or suffix-extended stream a reader that runs away (e.g. takes a garbage length for a list
                    # because it is out of step with the writer) is a disagreement with the model, not a skipped case
                    ir = do_read(fn, d, conv, guarded=True) if vi >= 2 else \
                        do_read(fn, GuardedBytes(d, 400000 + 60 * len(d)), conv)
                except Budget:
                    if vi >= 2:
                        ctx.count("skipped_unbounded_read")
                        continue
                    ir = {"runaway": "the real reader does not stop on a stream the real writer produced"}
                ctx.count("stream_kind:" + ("exact", "suffix", "damaged")[min(vi, 2)])
                cases.append((rop, {"b": d.hex()}, ir))
    # int / bool array readers with explicit widths
    m = _impl()
    for _ in range(200 if quick else 2000):
        k = rng.choice([1, 2, 4])
        v = rng.choice([0, 1, 255, 256, 65535, 65536, (1 << 32) - 1, 1 << 32, -1, rng.randint(0, 1 << 33)])
        iw = do_write(lambda o: m.S.write_int(v, o, k))
        cases.append(("write_int", {"x": v, "k": k}, iw))
        d = bytes(rng.randint(0, 255) for _ in range(rng.randint(0, 6)))
        cases.append(("read_int", {"b": d.hex(), "k": k}, do_read(lambda i: m.S.read_int(i, k), d)))
        nb = rng.randint(0, 10)
        cases.append(("read_bool_array", {"b": d.hex(), "n": nb}, do_read(lambda i: m.S.read_bool_array(i, nb), d, list)))
    # the old reader of dict values on the bytes of the real writer: the model's `…Buggy` definitions must
    # reproduce the pre-fix behaviour (kept as a regression witness)
    cases.append(("write_string_buggy", {"x": G.cps("é1")}, "0002c3a931"))
    cases.append(("read_dict_buggy", {"b": "00000001000161098000000500"},
                  {"v": [[G.cps("a"), {"i": 2147483653}]], "rest": 1}))
    cases += multimap_writer_cases(ctx, E)
    run_cases(ctx, cases)
    stream_correspondence(ctx, E)
    pipeline_files_correspondence(ctx)
    from props import C15reuse
    C15reuse.correspondence(ctx)
    # the read-level printers (Model/Printers.lean) on generated records, the generated event-name table, merge_files
    from props import C15print
    C15print.correspondence(ctx)


def run_cases(ctx, cases):
    lines = [vlib.req("C15." + op, **kw) for op, kw, _ in cases]
    outs = ctx.driver.run(lines)
    for (op, kw, io_), mo in zip(cases, outs):
        ctx.evaluations += 1
        ctx.count("op:" + op)
        small = kw if len(str(kw)) < 3000 else {"truncated_input": str(kw)[:3000]}
        if isinstance(mo, dict) and "driver_error" in mo:
            ctx.disagree(op, kw if len(str(kw)) < 200000 else small, mo, None)
            continue
        ctx.traces_validated += 1
        mo = norm_out(op, mo)
        if vlib.is_err(mo):
            ctx.count("model_error")
        if not vlib.same(mo, io_):
            ctx.disagree(op, kw if len(str(kw)) < 200000 else small, _short(mo), _short(io_))
        elif not vlib.is_err(mo):
            ctx.mark_nontrivial([op, small])
        if len(ctx.samples) < 8 and len(str(kw)) < 400 and ctx.rng.random() < 0.01:
            ctx.sample({"op": op, "input": kw, "model": mo, "impl": io_})


def _short(x):
    s = str(x)
    return x if len(s) < 4000 else s[:4000] + "..."


def stream_correspondence(ctx, E):
    """whole files through the real TmpFileAssignmentPrinter and the real loaders of dataset_processor"""
    rng = ctx.rng
    quick = ctx.tier == "quick"
    d = tempfile.mkdtemp(prefix="isoverif_c15s_")
    try:
        cases = []
        for k in range(100 if quick else 500):
            gs = G.rand_groups(rng, E)
            items = G.items_of_groups(gs)
            r = rng.random()
            if r < 0.1 and items:
                items = items[1:]            # malformed: a stream that starts with a read record
            elif r < 0.15:
                items = [dict(it) for it in items] + [{"read": G.rand_ra(rng, E, False)}]
            path = os.path.join(d, "s%d" % k)
            try:
                data = impl_write_stream(items, path)
                iw = data.hex()
            except WRITE_ERRORS as ex:
                iw = {"error": "error", "exc": type(ex).__name__}
            cases.append(("enc_stream", {"x": items}, iw))
            if vlib.is_err(iw):
                continue
            variants = [data]
            if rng.random() < 0.5 and len(data) > 2:
                variants.append(data[:rng.randint(0, len(data) - 1)])
            for vi, dd in enumerate(variants):
                p2 = path + "_v%d" % vi
                with open(p2, "wb") as f:
                    f.write(dd)
                for quick_loader, op in ((False, "load_stream"), (True, "load_stream_quick")):
                    ir = impl_load_stream(p2, quick_loader)
                    if not vlib.is_err(ir):
                        ir = {"v": ir, "rest": 0}
                    cases.append((op, {"b": dd.hex()}, ir))
                    ctx.count("stream_file:" + ("exact" if vi == 0 else "truncated"))
        run_cases(ctx, cases)
    finally:
        shutil.rmtree(d, ignore_errors=True)


# ------------------------------------------------------------------------------------------------
# real pipeline: --keep_tmp run (files parsed by the model) and --read_assignments reuse

_PIPE = {}


def multimap_dataset(seed):
    """synthetic data with reads aligned to two places (secondary alignments), so that the multimapper files are
    not empty"""
    from gen import synth
    ds = synth.simple_dataset(seed=seed, n_chroms=2, genes_per_chrom=3, reads_per_tx=5)
    prim = [r for r in ds.reads if r["chr"] == "chr1"]
    other = [r for r in ds.reads if r["chr"] == "chr2"]
    for i, r in enumerate(prim[:8]):
        o = other[i % len(other)]
        ds.add_read(r["name"], o["chr"], o["start0"], o["cigar"], flag=256, mapq=0, seq=o["seq"])
    for i, r in enumerate(prim[8:12]):
        o = prim[(i + 20) % len(prim)]
        ds.add_read(r["name"], o["chr"], o["start0"], o["cigar"], flag=256, mapq=0, seq=o["seq"])
    # the second sequence is named as an alternate locus of the first (GRCh38: chr1 / chr1_KI270706v1_random, chrA / chrA_alt):
    # every file name pattern `<save>_<chr>_*` of the first sequence also matches the files of the second (seed C15_a4)
    ds.chroms = collections.OrderedDict((ALT_NAME if n == "chr2" else n, s_) for n, s_ in ds.chroms.items())
    for g in ds.genes:
        if g["chr"] == "chr2":
            g["chr"] = ALT_NAME
    for r in ds.reads:
        if r["chr"] == "chr2":
            r["chr"] = ALT_NAME
    return ds


ALT_NAME = "chr1_alt"
DUMP_NAMES = {"chr1", "chr2", ALT_NAME, "chr9"}


def is_dump_tail(tail):
    """<prefix>_<tail> is the dump of a chromosome (names of the data sets of this module; otherwise: no '_' in the name)"""
    return tail in DUMP_NAMES or ("_" not in tail and tail != "lock")


def is_saved_data_file(fn):
    """the files a `--read_assignments <prefix>` restart reads: <prefix>_info, <prefix>_<chr>, <prefix>_multimappers_<chr>
    (lock / stat / group side files of the same prefix are rewritten by every run and are not part of the saves)"""
    if not fn.startswith("S.save_"):
        return False
    tail = fn[len("S.save_"):]
    if tail == "info" or tail.startswith("multimappers_"):
        return True
    return is_dump_tail(tail)


def snapshot_saved(aux):
    res = {}
    if os.path.isdir(aux):
        for fn in sorted(os.listdir(aux)):
            if is_saved_data_file(fn):
                with open(os.path.join(aux, fn), "rb") as f:
                    res[fn] = f.read()
    return res


def saved_files_intact(run):
    """None, or how the saved files differ after the first / second restart from what the saving run left"""
    for label, snap in (("first", run.get("after_b", {})), ("second", run.get("after_c", {}))):
        if label == "second" and run.get("rcC") is None:
            continue
        for fn, data in run.get("saved", {}).items():
            if fn not in snap:
                return "saved file %s no longer exists after the %s --read_assignments restart" % (fn, label)
            if snap[fn] != data:
                return "saved file %s was modified by the %s --read_assignments restart" % (fn, label)
    return None


def pipeline_pair(ctx):
    """runs once per check: A = run that keeps its intermediate files, B = run restarted from them"""
    if "dir" in _PIPE:
        return _PIPE
    import pipeline as P
    d = P.scratch("isoverif_c15p_")
    _PIPE["dir"] = d
    runs = []
    seeds = [ctx.seed % 1000 + 1] if ctx.tier == "quick" else [ctx.seed % 1000 + 1, ctx.seed % 1000 + 2, "toy"]
    for s in seeds:
        tag = "d%s" % s
        if s == "toy":
            paths = P.copy_toy(os.path.join(d, tag, "data"))
        else:
            paths = multimap_dataset(s).write(os.path.join(d, tag, "data"))
        outA = os.path.join(d, tag, "outA")
        outB = os.path.join(d, tag, "outB")
        extra = ["--keep_tmp"]
        rcA, logA = P.run_isoquant(outA, P.std_args(paths, extra=extra), home=os.path.join(d, "home"), timeout=150)
        prefix = os.path.join(outA, "S", "aux", "S.save")
        argsB = ["--threads", "1", "--read_assignments", prefix, "--reference", paths["ref"], "--data_type", "nanopore",
                 "-p", "S", "--no_gzip", "--genedb", paths["gtf"], "--complete_genedb"]
        # the saved files, snapshotted right after the saving run (the restart must not touch them)
        saved, aux_copy = {}, os.path.join(d, tag, "aux_after_A")
        if rcA == 0 and os.path.isdir(os.path.dirname(prefix)):
            shutil.copytree(os.path.dirname(prefix), aux_copy)
            for fn in sorted(os.listdir(aux_copy)):
                if is_saved_data_file(fn):
                    with open(os.path.join(aux_copy, fn), "rb") as f:
                        saved[fn] = f.read()
        rcB, logB = (None, "") if rcA else P.run_isoquant(outB, argsB, home=os.path.join(d, "home"), timeout=150)
        after_b = snapshot_saved(os.path.dirname(prefix)) if rcA == 0 else {}
        # a second restart from the same prefix: saved assignments can be reused more than once
        outC = os.path.join(d, tag, "outC")
        argsC = [a if a != outB else outC for a in argsB]
        rcC, logC = (None, "") if (rcA or rcB) else P.run_isoquant(outC, argsC, home=os.path.join(d, "home"), timeout=150)
        after_c = snapshot_saved(os.path.dirname(prefix)) if rcA == 0 else {}
        runs.append({"tag": tag, "outA": outA, "outB": outB, "outC": outC, "rcA": rcA, "rcB": rcB, "rcC": rcC,
                     "logA": logA[-1500:], "logB": logB[-1500:], "logC": logC[-1500:], "prefix": prefix,
                     "aux_copy": aux_copy, "saved": saved, "after_b": after_b, "after_c": after_c})
    _PIPE["runs"] = runs
    return _PIPE


def pipeline_cleanup():
    d = _PIPE.pop("dir", None)
    _PIPE.clear()
    if d:
        shutil.rmtree(d, ignore_errors=True)


def pipeline_files_correspondence(ctx):
    """the intermediate files of a real run: model loaders == real loaders, and model re-encoding == file bytes"""
    pp = pipeline_pair(ctx)
    cases = []
    reenc = []
    try:
        for run in pp["runs"]:
            if run["rcA"] != 0:
                ctx.notes.append("pipeline run A failed (rc=%s): %s" % (run["rcA"], run["logA"][-300:]))
                continue
            aux = run["aux_copy"]
            for fn in sorted(os.listdir(aux)):
                path = os.path.join(aux, fn)
                if not fn.startswith("S.save_"):
                    continue
                tail = fn[len("S.save_"):]
                with open(path, "rb") as f:
                    data = f.read()
                if tail.startswith("multimappers_"):
                    fnr, conv = readers()["load_multimap"]
                    try:
                        ir = do_read(fnr, data, conv, guarded=True)
                    except Budget:
                        # the real reading loop does not terminate on this file (no terminator where it is expected)
                        ir = {"nontermination": "the loop of construct_models_in_parallel does not stop on this file"}
                    cases.append(("load_multimap", {"b": data.hex()}, ir))
                    ctx.count("pipeline_file:multimappers")
                    if not vlib.is_err(ir):
                        ctx.count("pipeline_multimap_records", sum(len(l) for l in ir["v"]))
                elif tail == "info":
                    fnr, conv = readers()["dec_info"]
                    cases.append(("dec_info", {"b": data.hex()}, do_read(fnr, data, conv)))
                    ctx.count("pipeline_file:info")
                elif is_dump_tail(tail):
                    if len(data) > 3_000_000:
                        ctx.count("pipeline_file:skipped_large")
                        continue
                    full = impl_load_stream(path, False)
                    cases.append(("load_stream", {"b": data.hex()}, full if vlib.is_err(full) else {"v": full, "rest": 0}))
                    qk = impl_load_stream(path, True)
                    cases.append(("load_stream_quick", {"b": data.hex()}, qk if vlib.is_err(qk) else {"v": qk, "rest": 0}))
                    if not vlib.is_err(full):
                        reenc.append(("enc_stream", {"x": G.items_of_groups(full)}, data.hex()))
                        ctx.count("pipeline_records", sum(len(g["reads"]) for g in full))
                    ctx.count("pipeline_file:save")
    finally:
        pass
    run_cases(ctx, cases + reenc)


# ------------------------------------------------------------------------------------------------
# oracle: the property on the real code only

def in_domain_event(j):
    u32 = lambda v: 0 <= v < (1 << 32)
    return all(u32(v) for v in j["ir"] + j["rr"]) and abs(j["info"]) < (1 << 31)


def real_roundtrip(kind, x):
    """returns None when the real code round-trips `x` (canonical form), else a detail string.
    `x` is inside the documented domain by construction of the generators (in_domain=True)."""
    m = _impl()
    S, IA = m.S, m.IA
    try:
        b = io.BytesIO()
        if kind == "event":
            mk_event(x).serialize(b)
            rd, cv = IA.MatchEvent.deserialize, j_event
        elif kind == "match":
            mk_match(x).serialize(b)
            rd, cv = IA.IsoformMatch.deserialize, j_match
        elif kind == "ra":
            mk_ra(x).serialize(b)
            rd, cv = (lambda i: IA.ReadAssignment.deserialize(i, None)), j_ra
        elif kind == "basic":
            mk_basic(x).serialize(b)
            rd, cv = IA.BasicReadAssignment.deserialize, j_basic
        elif kind == "header":
            mk_header(x).serialize(b)
            rd, cv = read_header, (lambda v: v)
        elif kind == "dict":
            S.write_dict(mk_dict(x), b)
            rd, cv = S.read_dict, j_dict
        elif kind == "string":
            S.write_string(G.from_cps(x), b)
            rd, cv = S.read_string, G.cps
        elif kind == "string_or_none":
            S.write_string_or_none(opt_s(x), b)
            rd, cv = S.read_string_or_none, j_opt_s
        elif kind == "int_neg":
            S.write_int_neg(x, b)
            rd, cv = S.read_int_neg, int
        elif kind == "bools":
            S.write_bool_array(x, b)
            rd, cv = (lambda i: S.read_bool_array(i, len(x))), list
        else:
            raise RuntimeError(kind)
        sentinel = b"\xa5\x5a\xff"
        data = b.getvalue() + sentinel
        # budgeted: a reader out of step with its writer may take a garbage length for a list and never stop
        inf = GuardedIO(data, 400000 + 60 * len(data))
        got = cv(rd(inf))
        if got != x:
            return "read back %s" % _short(_first_diff(x, got))
        if data[inf.tell():] != sentinel:
            return "reader stopped at byte %d of %d" % (inf.tell(), len(data) - len(sentinel))
        if kind == "ra":
            # the abridged reader on the same bytes: same end position, projection of the record
            inf2 = GuardedIO(data, 400000 + 60 * len(data))
            if x["exons"]:
                q = IA.BasicReadAssignment.deserialize_from_read_assignment(inf2)
                if data[inf2.tell():] != sentinel:
                    return "abridged reader stopped at byte %d, full reader at %d" % (inf2.tell(), inf.tell())
                exp = j_basic(IA.BasicReadAssignment(mk_ra(x)), True)
                if j_basic(q, True) != exp:
                    return "abridged reader: %s" % _short(_first_diff(exp, j_basic(q, True)))
    except Budget:
        return "the reader does not stop on a stream the writer produced (read budget exhausted)"
    except (WRITE_ERRORS + (UnicodeError,)) as ex:
        return "exception %s: %s" % (type(ex).__name__, str(ex)[:200])
    return None


def _first_diff(a, b):
    if isinstance(a, dict) and isinstance(b, dict):
        for k in a:
            if a.get(k) != b.get(k):
                return {k: _first_diff(a.get(k), b.get(k))}
    return {"expected": a, "got": b}


def _fixup(kind, x):
    if kind == "ra":
        x["cintrons"] = G.junctions_from_blocks(x["cexons"])
    return x


def _candidates(x):
    """smaller variants of a canonical JSON value (one step)"""
    if isinstance(x, dict):
        for k, v in x.items():
            if k in ("t", "cls", "atype", "gtype", "flags", "polya", "cintrons", "pen"):
                continue
            for c in _candidates(v):
                y = dict(x)
                y[k] = c
                yield y
    elif isinstance(x, list):
        if x and all(isinstance(e, int) and not isinstance(e, bool) for e in x) and len(x) == 2:
            pass        # a pair (region / exon): keep its shape
        else:
            if x:
                yield []
            for i in range(len(x)):
                yield x[:i] + x[i + 1:]
        for i, e in enumerate(x):
            for c in _candidates(e):
                yield x[:i] + [c] + x[i + 1:]
    elif isinstance(x, bool) or x is None:
        return
    elif isinstance(x, int):
        if x not in (0, 1):
            yield 0
            yield 1


def shrink(kind, x, fails, budget=400):
    """greedy one-step shrinking of a failing canonical input; `fails(x)` re-runs the real code"""
    import copy
    if not isinstance(x, (dict, list)):
        return x
    progress = True
    while progress and budget > 0:
        progress = False
        for c in _candidates(x):
            budget -= 1
            if budget <= 0:
                break
            c = _fixup(kind, copy.deepcopy(c))
            try:
                if fails(c):
                    x = c
                    progress = True
                    break
            except Exception:
                continue
    return x


def report(ctx, kind, x, detail):
    """record a failing round trip, shrunk"""
    if len(ctx.failures) < 5 and len(str(x)) < 200000:
        small = shrink(kind, x, lambda c: real_roundtrip(kind, c) is not None)
        if small is not x:
            detail = real_roundtrip(kind, small) or detail
            x = small
    ctx.fail("roundtrip:" + kind, {"kind": kind, "x": x}, detail)


def penalty_case(p):
    """any float penalty in [0, 2^12): stored value = floor(p*2^20)/2^20, and storing that again changes nothing"""
    m = _impl()
    S = m.S
    b = io.BytesIO()
    S.write_int(int(p * S.SHORT_FLOAT_MULTIPLIER), b)
    b.seek(0)
    q = float(S.read_int(b)) / float(S.SHORT_FLOAT_MULTIPLIER)
    if not (q <= p < q + 2.0 ** -20):
        return "penalty %r stored as %r" % (p, q)
    b2 = io.BytesIO()
    S.write_int(int(q * S.SHORT_FLOAT_MULTIPLIER), b2)
    if b2.getvalue() != b.getvalue():
        return "penalty %r: second encoding differs" % p
    return None


def stream_case(groups):
    """real printer -> file -> both real loaders; returns None or a detail string"""
    d = tempfile.mkdtemp(prefix="isoverif_c15o_")
    try:
        path = os.path.join(d, "s")
        impl_write_stream(G.items_of_groups(groups), path)
        full = impl_load_stream(path, False)
        if vlib.is_err(full):
            return "full loader raised %s" % full.get("exc")
        if full != groups:
            return "full loader: %s" % _short(_first_diff({"g": groups}, {"g": full}))
        qk = impl_load_stream(path, True)
        if vlib.is_err(qk):
            return "abridged loader raised %s" % qk.get("exc")
        m = _impl()
        exp = [{"gene": g["gene"], "reads": [j_basic(m.IA.BasicReadAssignment(mk_ra(r)), True) for r in g["reads"]]}
               for g in groups]
        if qk != exp:
            return "abridged loader: %s" % _short(_first_diff({"g": exp}, {"g": qk}))
    except (WRITE_ERRORS + (UnicodeError,)) as ex:
        return "exception %s: %s" % (type(ex).__name__, str(ex)[:200])
    finally:
        shutil.rmtree(d, ignore_errors=True)
    return None


def multimap_case(ls):
    b = io.BytesIO()
    try:
        impl_write_multimap(ls, b)
        b.seek(0)
        got = [[j_basic(x) for x in l] for l in impl_load_multimap(b)]
    except WRITE_ERRORS as ex:
        return "exception %s" % type(ex).__name__
    if got != ls:
        return "multimapper file read back %s" % _short(_first_diff({"l": ls}, {"l": got}))
    if b.read() != b"":
        return "bytes left after the terminator"
    return None


def _diff_outputs(dirA, dirB, prefB):
    import pipeline as P
    fa = P.out_files(dirA, "S")
    fb = P.out_files(dirB, prefB)
    na = {k[len("S."):]: v for k, v in fa.items()}
    nb = {k[len(prefB) + 1:]: v for k, v in fb.items()}
    if set(na) != set(nb):
        return "output file sets differ: %s" % sorted(set(na) ^ set(nb))
    for k in sorted(na):
        with open(na[k]) as f:
            a = [l for l in f.read().split("\n") if not l.startswith("# ")]
        with open(nb[k]) as f:
            b = [l for l in f.read().split("\n") if not l.startswith("# ")]
        if a != b:
            for i, (x, y) in enumerate(zip(a, b)):
                if x != y:
                    return "%s line %d: %r vs %r" % (k, i + 1, x[:200], y[:200])
            return "%s: %d vs %d lines" % (k, len(a), len(b))
    return None


def compare_outputs(run):
    """reuse clause on one dataset: run A saved its assignments; restart B and a second restart C from the same
    prefix must each reproduce A's outputs file by file, and must leave the saved files byte-identical"""
    if run["rcA"] != 0:
        return "saving run failed rc=%s: %s" % (run["rcA"], run["logA"][-400:])
    if run["rcB"] != 0:
        return "run restarted from saved assignments failed rc=%s: %s" % (run["rcB"], run["logB"][-400:])
    r = _diff_outputs(run["outA"], run["outB"], "S0")
    if r:
        return "first restart: " + r
    r = saved_files_intact(run)
    if r:
        return r
    if run["rcC"] != 0:
        return "second restart from the same saved assignments failed rc=%s: %s" % (run["rcC"], run["logC"][-400:])
    r = _diff_outputs(run["outA"], run["outC"], "S0")
    if r:
        return "second restart: " + r
    return None


def dump_hypothesis_problems(ctx, run):
    """the kept `S.save_<chr>` dumps of saving run A (snapshot taken right after A): no `suspended` record, assignment ids
    pairwise different per file -> [(kind, detail)]"""
    from gen import savedumps
    if run.get("rcA") != 0 or not os.path.isdir(run.get("aux_copy", "")):
        return []
    st, probs = savedumps.check_dumps(run["aux_copy"], "S.save")
    if ctx is not None:
        ctx.count("dump_hypotheses:files", st["files"])
        ctx.count("dump_hypotheses:records", st["records"])
        if st.get("unreadable"):
            ctx.notes.append("dump hypothesis monitor: %d unreadable dump(s), e.g. %s" % (st["unreadable"], st.get("unreadable_example")))
    return probs


def savedumps_selftest():
    from gen import savedumps
    return savedumps.selftest()


def oracle(ctx, disagreements, broken):
    rng = ctx.rng
    quick = ctx.tier == "quick"
    E = enums()
    n_cases = 0
    # regression witnesses of the two repaired defects (Lean: read_dict_buggy_witness, write_string_buggy_witness)
    for kind, x in [("dict", [[G.cps("a"), {"i": -5}]]), ("dict", [[G.cps("p"), {"p": [-1, 3]}]]),
                    ("string", G.cps("é1")), ("string", G.cps("日本")), ("string_or_none", G.cps("é1"))]:
        r = real_roundtrip(kind, x)
        n_cases += 1
        if r:
            report(ctx, kind, x, r)
    # inputs on which model and implementation disagreed come first
    for dg in disagreements:
        kind = {"enc_event": "event", "dec_event": "event", "enc_match": "match", "dec_match": "match", "enc_ra": "ra",
                "dec_ra": "ra", "quick_ra": "ra", "enc_basic": "basic", "dec_basic": "basic", "enc_header": "header",
                "dec_header": "header", "write_dict": "dict", "read_dict": "dict", "write_string": "string",
                "write_string_or_none": "string_or_none", "write_int_neg": "int_neg"}.get(dg["op"])
        x = dg["input"].get("x") if isinstance(dg["input"], dict) else None
        if kind and x is not None and _dom_ok(kind, x):
            r = real_roundtrip(kind, x)
            n_cases += 1
            if r:
                report(ctx, kind, x, r)
    evs, ms = G.enum_sweep(E)
    todo = [("event", e) for e in evs] + [("match", x) for x in ms]
    todo += [("ra", G.rand_ra(rng, E, True, atype=t)) for t in E["ReadAssignmentType"]]
    n = 1200 if quick else 8000
    if broken:
        n *= 3
    for _ in range(n):
        todo.append(("event", G.rand_event(rng, E, True)))
        todo.append(("match", G.rand_match(rng, E, True)))
        todo.append(("ra", G.rand_ra(rng, E, True, allow_empty_exons=True)))
        todo.append(("basic", G.rand_basic(rng, E, True)))
        todo.append(("header", G.rand_header(rng, True)))
        todo.append(("dict", G.rand_dict(rng, True)))
        todo.append(("string", G.cps(G.rand_str(rng, 40))))
        todo.append(("string_or_none", rng.choice([None, G.cps(G.rand_str(rng, 40))])))
        todo.append(("int_neg", G.rand_neg(rng, True)))
        todo.append(("bools", [rng.random() < 0.5 for _ in range(rng.randint(0, 8))]))
    for s in ["a" * 65534, "é" * 32767, "中" * 21844 + "ab"]:
        todo.append(("string", G.cps(s)))
        todo.append(("string_or_none", G.cps(s)))
    todo.append(("string", G.cps("a" * 65535)))
    big = G.rand_ra(rng, E, True)
    big["read_id"] = G.cps("r" * 65534)
    big["matches"] = [dict(G.rand_match(rng, E, True), gene=G.cps("g" * 65534), tr=G.cps("é" * 32767))]
    todo.append(("ra", big))
    order = {"int_neg": 0, "bools": 1, "string": 2, "string_or_none": 3, "dict": 4, "event": 5, "match": 6, "header": 7,
             "basic": 8, "ra": 9}
    todo.sort(key=lambda t: order[t[0]])        # smallest kind of object first: the first failure is the most local one
    for kind, x in todo:
        r = real_roundtrip(kind, x)
        n_cases += 1
        if r:
            report(ctx, kind, x, r)
            if len(ctx.failures) > 20:
                break
    for _ in range(n):
        p = G.rand_penalty(rng, rng.random() < 0.3)
        if 0 <= p < 4096:
            r = penalty_case(p)
            n_cases += 1
            if r:
                ctx.fail("penalty", {"kind": "penalty", "x": G.frac_of_float(p)}, r)
    for _ in range(80 if quick else 500):
        gs = G.rand_groups(rng, E, 3, 3)
        for g in gs:
            g["reads"] = [r for r in g["reads"] if r["exons"]] or g["reads"][:0]
        r = stream_case(gs)
        n_cases += 1
        if r:
            ctx.fail("stream", {"kind": "stream", "x": gs}, r)
        ls = [[G.rand_basic(rng, E, True) for _ in range(rng.randint(1, 3))] for _ in range(rng.randint(0, 3))]
        r = multimap_case(ls)
        n_cases += 1
        if r:
            ctx.fail("multimap", {"kind": "multimap", "x": ls}, r)
    # reuse: a run restarted from saved assignments reproduces the outputs of the run that saved them
    try:
        pp = pipeline_pair(ctx)
        for run in pp["runs"]:
            r = compare_outputs(run)
            n_cases += 1
            ctx.count("pipeline_pair")
            if r:
                ctx.fail("reuse", {"kind": "reuse", "dataset": run["tag"], "seed": ctx.seed, "tier": ctx.tier}, r)
            # G6 (hypothesis audit): `NoSuspendedInput` and pairwise different assignment ids per chromosome, on the
            # dumps the real collecting stage wrote (hypotheses of memory_modes_same_saved_files and of C12's end-to-end
            # theorems; nothing upstream is modelled, so they are monitored here)
            for kind, detail in dump_hypothesis_problems(ctx, run):
                ctx.fail(kind, {"kind": "dump_hyp", "dataset": run["tag"], "seed": ctx.seed, "tier": ctx.tier}, detail)
        st = savedumps_selftest()
        if st:
            ctx.fail("monitor_selftest", {"kind": "monitor_selftest"}, st)
    finally:
        pipeline_cleanup()
    # reuse, the run set-up: several files per experiment, --read_group file_name / file:TABLE / none, several prefixes;
    # the restart is given the options of the saving run and must reproduce every output file (model construction on)
    from props import C15setup
    C15setup.oracle(ctx)
    # reuse on generated saved files, real command line in-process (saving run in both memory modes, two restarts)
    from props import C15reuse
    try:
        C15reuse.oracle(ctx, disagreements, broken)
    finally:
        C15reuse.cleanup()
    # read-level printers: `merged_hash_witness` replayed on the real merge_files and through the real command line
    from props import C15print
    C15print.oracle(ctx)
    ctx.extra["oracle_cases"] = n_cases


def _dom_ok(kind, x):
    """is the canonical value inside the documented domain (so that a failed round trip is a violation)?"""
    u32 = lambda v: isinstance(v, int) and 0 <= v < (1 << 32)
    sneg = lambda v: isinstance(v, int) and abs(v) < (1 << 31)
    sok = lambda s: len(G.from_cps(s).encode("utf-8")) < 65535
    pen = lambda p: p[0] >= 0 and (p[0] * (1 << 20)) % p[1] == 0 and p[0] < p[1] * 4096
    try:
        if kind == "event":
            return in_domain_event(x)
        if kind == "match":
            return all(s is None or sok(s) for s in (x["gene"], x["tr"])) and sok(x["strand"]) and pen(x["pen"]) and \
                all(in_domain_event(e) for e in x["events"])
        if kind == "dict":
            return all(sok(k) and (sneg(v["i"]) if "i" in v else sok(v["s"]) if "s" in v else all(sneg(t) for t in v["p"]))
                       for k, v in x)
        if kind == "ra":
            return (u32(x["id"]) and sok(x["read_id"]) and all(u32(v) for v in x["region"])
                    and all(u32(v) for e in x["exons"] + x["cexons"] for v in e) and all(sneg(v) for v in x["polya"])
                    and all(sok(x[k]) for k in ("group", "mstrand", "strand", "chr")) and 0 <= x["mapq"] < 65536
                    and all(_dom_ok("match", mm) for mm in x["matches"]) and _dom_ok("dict", x["info"])
                    and _dom_ok("dict", x["attrs"]) and all(sneg(v) for v in x["eprof"] + x["iprof"])
                    and x["cintrons"] == G.junctions_from_blocks(x["cexons"]))
        if kind == "basic":
            return (u32(x["id"]) and sok(x["read_id"]) and sok(x["chr"]) and u32(x["start"]) and u32(x["end"])
                    and all(u32(v) for v in x["region"]) and pen(x["pen"]) and all(sok(s) for s in x["genes"] + x["isoforms"]))
        if kind == "header":
            return u32(x["delta"]) and u32(x["start"]) and u32(x["end"]) and sok(x["chr"]) and all(sok(s) for s in x["genes"])
        if kind == "string":
            return len(G.from_cps(x).encode("utf-8")) < 65536
        if kind == "string_or_none":
            return x is None or sok(x)
        if kind == "int_neg":
            return sneg(x)
    except Exception:
        return False
    return False


def matches_finding(failure, entry):
    return failure["kind"] == entry.get("kind")


def replay(ctx, failure):
    if str(failure.get("kind", "")).startswith("reuse:"):
        from props import C15reuse
        try:
            return C15reuse.replay(ctx, failure)["reproduced"]
        finally:
            C15reuse.cleanup()
    inp = failure["input"]
    if str(failure.get("kind", "")).startswith("printers:"):
        from props import C15print
        return C15print.replay(ctx, failure)["reproduced"]
    kind = inp.get("kind")
    if kind == "penalty":
        return penalty_case(G.float_of_frac(inp["x"])) is not None
    if kind == "stream":
        return stream_case(inp["x"]) is not None
    if kind == "multimap":
        return multimap_case(inp["x"]) is not None
    if kind == "monitor_selftest":
        return savedumps_selftest() is not None
    if kind == "reuse_setup":
        from props import C15setup
        return C15setup.replay(ctx, failure)["reproduced"]
    if kind == "dump_hyp":
        c2 = vlib.Ctx(ID, inp.get("tier", "quick"), inp.get("seed", ctx.seed))
        try:
            pp = pipeline_pair(c2)
            return any(k == failure["kind"] for r in pp["runs"] if r["tag"] == inp["dataset"]
                       for k, _ in dump_hypothesis_problems(None, r))
        finally:
            pipeline_cleanup()
    if kind == "reuse":
        c2 = vlib.Ctx(ID, inp.get("tier", "quick"), inp.get("seed", ctx.seed))
        try:
            pp = pipeline_pair(c2)
            return any(compare_outputs(r) is not None for r in pp["runs"] if r["tag"] == inp["dataset"])
        finally:
            pipeline_cleanup()
    return real_roundtrip(kind, inp["x"]) is not None
