"""C20 — concurrent runs under one HOME do not interfere (per-user JSON cache protocol).

correspondence: the Lean model (IsoVerif/Model/Cache.lean, run through the driver with the real JSON text) against the
  REAL functions of /repo under the same interleaving, realised by harness/gen/cachesched.py (threads + step token,
  monkeypatches in this process only): step trace, outcome of every run, what every load observed, final bytes of every
  config file.
oracle: the property itself on the real code – (a) in-process interleavings: every run finishes, every load saw a complete
  buffer, every artefact a run goes on to use was converted from the run's own input; (b) the two Lean witnesses of the
  pre-fix protocol replayed on the current tree (must pass) and, when the pre-fix tree is available in git, on that tree
  (must fail – the witnesses are facts about real code); (c) N real isoquant.py processes started simultaneously under
  one HOME with a GTF annotation and separate outputs, with and without a cross-process step token: all rc 0, outputs equal
  to the solo runs.
"""
import json
import os
import shutil
import subprocess
import sys
import tempfile
import time

import vlib
from gen import cachegen as CG

ID = "C20"
PROPS = ["IsoVerif/Props/C20.lean", "IsoVerif/Props/C20Sites.lean", "IsoVerif/Props/C20Stable.lean",
         "IsoVerif/Props/C20Artefact.lean", "IsoVerif/Props/C20Reuse.lean"]
TARGETS = ["IsoVerif.Props.C20", "IsoVerif.Props.C20Sites", "IsoVerif.Props.C20Stable", "IsoVerif.Props.C20Artefact",
           "IsoVerif.Props.C20Reuse"]
GEN_DEPS = ["CacheProtocol"]
LEVEL = "proof"
RULE = ("seeded random scenarios: 2-8 (thorough: 2-16) simultaneously starting runs with equal or different annotations, "
        "flags, --clean_start, index/bed/alignment clients; cache directory fresh, populated by earlier sequential runs "
        "(optionally with an input touched afterwards; optionally one of the running runs takes the output folder of a "
        "finished run, mostly with a same-named other annotation / reference) or holding a corrupted file; random interleavings (uniform slots, "
        "bursts, round-robin) of their cache steps; a case is non-trivial when model == implementation on trace, outcomes, "
        "observed contents, final bytes and the stable / not stable verdict of every artefact a run took, no run crashed and at "
        "least one lookup hit and one store happened; distinct by scenario")
TRUSTED = ["json.dump/json.load are an external: the theorems assume Codec.Lawful (self-delimiting text), checked on every "
           "content that arises in the correspondence runs",
           "POSIX: open('w') truncates at open, buffered text reaches the inode at close, os.replace is atomic",
           "harness/gen/cachesched.py realises the interleaving with barriers around open/close/os.replace/os.path.exists "
           "of the config files (monkeypatch in the harness process)",
           "Gen/CacheProtocol.lean (entry layouts, config files, inventory of access sites) is extracted from /repo each run"]
ASSUMPTIONS = ["mtimes are compared as the integers the harness sets with os.utime (the code stores os.path.getmtime floats)",
               "the fake conversion gives its target the next value of a strictly increasing clock as mtime "
               "(real conversions: distinct mtimes for distinct conversions of one path)",
               "stat of source/target of store_index/bed/alignment is modelled at the production step (exact when no other "
               "run writes this run's files in between: separate output folders)",
               "config text below the 4 MiB buffer of the wrapper: one write at close"]


def _mods():
    vlib.repo_on_path()
    from gen import cachesched as CS
    return CS


# ------------------------------------------------------------------------------------------------
# running a scenario on the real code

def _client_desc(cfg, RM):
    """static description of the cache clients of one harness cfg, with strings (paths / keys)"""
    out = {"db": None, "stores": []}
    if cfg.get("db"):
        d = cfg["db"]
        out["db"] = {"key": os.path.abspath(d["gtf"]), "src": d["gtf"], "aux": [], "target": os.path.abspath(d["target"]),
                     "tag": 1 if d["complete"] else 0, "clean": bool(cfg["clean_start"])}
    for st in cfg.get("stores", []):
        if st["kind"] == "index":
            k = RM.KMER_SIZE[st["data_type"]]
            ref_name = os.path.splitext(os.path.basename(st["reference"]))[0]
            out["stores"].append({"file": 1, "key": os.path.abspath(st["reference"]), "src": st["reference"], "aux": [],
                                  "target": os.path.join(os.path.abspath(cfg["output"]), "%s_k%s_idx" % (ref_name, k)),
                                  "tag": int(k), "lookup": not cfg["clean_start"]})
        elif st["kind"] == "bed":
            out["stores"].append({"file": 2, "key": os.path.abspath(st["genedb"]), "src": st["genedb"], "aux": [],
                                  "target": os.path.join(cfg["output"], os.path.splitext(os.path.basename(st["genedb"]))[0] + ".bed"),
                                  "tag": 0, "lookup": True})
        else:
            fq = os.path.abspath(st["fastq"])
            ann = os.path.abspath(st["annotation"]) if st["annotation"] else ""
            key = "%s_aligned_to_%s%s" % (fq, os.path.abspath(st["index"]), "_" + ann if ann else "")
            out["stores"].append({"file": 3, "key": key, "src": fq, "aux": [st["index"]] + ([ann] if ann else []),
                                  "target": os.path.join(cfg["output"], "S_%s.bam" % os.path.basename(fq)),
                                  "tag": 0, "lookup": not cfg["clean_start"]})
    return out


def run_real(sc, schedule=None, proto="fixed"):
    """materialise + warm-up + concurrent phase on the real code; returns (real result, model request)"""
    CS = _mods()
    import src.read_mapper as RM
    base = tempfile.mkdtemp(prefix="isoverif_c20_")
    try:
        home, cfgs, warm = CG.materialise(base, sc)
        clock = sc["clock0"]
        wconvs = []
        if warm:
            w = CS.run_scenario(home, warm, [], clock)
            clock = w["clock"]
            if not all(o and o["ok"] for o in w["outcomes"]):
                return {"warm_failed": w["outcomes"]}, None
            # the productions of the finished runs, with the mtimes of their inputs at that time (ghost log of the model)
            for cv in w["convs"]:
                wd = _client_desc(warm[cv["pid"]], RM)
                cl = [c for c in ([wd["db"]] if wd["db"] else []) + wd["stores"]
                      if os.path.abspath(c["target"]) == cv["target"] and c["key"] == cv["key"]]
                if cl:
                    wconvs.append((cl[0], int(cv["src_mtime0"]), [int(os.path.getmtime(a)) for a in cl[0]["aux"]],
                                   int(cv["tgt_mtime"])))
        for fn, m in sc.get("touch", []):
            p = os.path.join(base, fn)
            if os.path.exists(p):
                os.utime(p, (m, m))
        cdir = os.path.join(home, ".config", "IsoQuant")
        for f, text in sc.get("corrupt", {}).items():
            os.makedirs(cdir, exist_ok=True)
            with open(os.path.join(cdir, CS.CONFIG_NAMES[int(f)]), "w") as fh:
                fh.write(text.replace("<S>", base))
        init_files = []
        for nme in CS.CONFIG_NAMES:
            p = os.path.join(cdir, nme)
            init_files.append(open(p).read() if os.path.exists(p) else None)
        # names / mtimes for the model
        descs = [_client_desc(c, RM) for c in cfgs]
        wdescs = [_client_desc(c, RM) for c in warm]
        names = []

        def nid(s):
            if s not in names:
                names.append(s)
            return names.index(s)
        for d in descs + wdescs:
            for c in ([d["db"]] if d["db"] else []) + d["stores"]:
                for s in [c["key"], c["src"], c["target"]] + c["aux"]:
                    nid(s)
        mtimes = []
        for i, s in enumerate(names):
            if os.path.isabs(s) and os.path.isfile(s):
                m = os.path.getmtime(s)
                if m != int(m):
                    raise RuntimeError("non-integral mtime of %s" % s)
                mtimes.append([i, int(m)])
        procs = []
        for d in descs:
            def enc(c):
                r = {"key": nid(c["key"]), "src": nid(c["src"]), "aux": [nid(a) for a in c["aux"]],
                     "target": nid(c["target"]), "tag": c["tag"]}
                return r
            pj = {"proto": proto, "db": None, "stores": []}
            if d["db"]:
                pj["db"] = dict(enc(d["db"]), clean=d["db"]["clean"])
            for c in d["stores"]:
                pj["stores"].append(dict(enc(c), file=c["file"], lookup=c["lookup"]))
            procs.append(pj)
        history = []
        for cl, sm, am, tm in reversed(wconvs):          # newest first
            history.append({"file": cl.get("file", 0), "key": nid(cl["key"]), "src": nid(cl["src"]),
                            "aux": [nid(a) for a in cl["aux"]], "target": nid(cl["target"]), "tag": cl["tag"],
                            "srcM0": sm, "srcM": sm, "auxM": am, "tgtM": tm})
        real = CS.run_scenario(home, cfgs, sc["schedule"] if schedule is None else schedule, clock,
                               late=sc.get("late", ()), hold_build=bool(sc.get("hold_build")))
        real["init_files"] = init_files
        real["base"] = base
        real["warm_targets"] = {cl["target"]: tm for cl, _, _, tm in wconvs}       # version of every artefact of the history
        real["outs"] = [os.path.abspath(c["output"]) for c in cfgs]
        # the version (mtime) every artefact a run took has at the END of all runs (None = the file is gone)
        real["final_mtime"] = {}
        for (_, _, path, _, _) in real["taken"]:
            real["final_mtime"][path] = os.path.getmtime(path) if os.path.isfile(path) else None
        # ground truth of every artefact the runs went on to use: what the fake conversion wrote into it
        prov = {}
        for o in real["outcomes"]:
            for kind, path in (o.get("results") or []) if o else []:
                try:
                    with open(path) as fh:
                        prov[path] = dict(json.load(fh), mtime=os.path.getmtime(path))
                except (OSError, ValueError):
                    prov[path] = None
        real["provenance"] = prov
        real["descs"] = descs
        real["input_mtimes"] = {s: os.path.getmtime(s) for s in names if os.path.isabs(s) and os.path.isfile(s)}
        req = {"names": names, "mtimes": mtimes, "clock": clock, "files": init_files, "procs": procs,
               "sched": [p for (p, _, _) in real["trace"]], "history": history}
        return real, req
    finally:
        shutil.rmtree(base, ignore_errors=True)


def _strip(real, text):
    """scratch-directory independent rendering"""
    if text is None:
        return None
    return text.replace(real["base"], "<S>")


def compare(ctx, sc, real, model):
    """model vs implementation at the observable boundary; returns list of (what, model, impl)"""
    diffs = []
    itrace = [[p, l, f] for (p, l, f) in real["trace"]]
    if model["trace"] != itrace:
        k = next((i for i, (a, b) in enumerate(zip(model["trace"], itrace)) if a != b), min(len(model["trace"]), len(itrace)))
        diffs.append(("trace@%d" % k, model["trace"][k:k + 3], itrace[k:k + 3]))
    for pid, (mp, o) in enumerate(zip(model["procs"], real["outcomes"])):
        if mp["crashed"] != (not o["ok"]):
            diffs.append(("outcome p%d" % pid, "crashed" if mp["crashed"] else "ok", o))
        elif o["ok"]:
            mres = [[k, t] for k, t, _ in mp["results"]]
            if mres != [[k, t] for k, t in o["results"]]:
                diffs.append(("results p%d" % pid, mres, o["results"]))
            if mp["left"] != 0:
                diffs.append(("unfinished p%d" % pid, mp["left"], 0))
    ifiles = [real["files"].get(i) for i in range(4)]
    if model["files"] != ifiles:
        diffs.append(("final files", [_strip(real, x) for x in model["files"]], [_strip(real, x) for x in ifiles]))
    # C20Stable: which version (path @ mtime) every run took, and whether the file at that path is still that version at the end
    for pid, o in enumerate(real["outcomes"]):
        if not (o and o["ok"]) or pid >= len(model.get("stable", [])):
            continue
        ist = [[path, int(m), real["final_mtime"].get(path) == m] for (q, _, path, m, _) in real["taken"] if q == pid]
        if model["stable"][pid] != ist:
            diffs.append(("stability p%d" % pid, [[_strip(real, a), b, c] for a, b, c in model["stable"][pid]],
                          [[_strip(real, a), b, c] for a, b, c in ist]))
    iobs = [[f, seen] for (_, f, seen) in real["loads"]]
    if model["obs"] != iobs:
        diffs.append(("observed contents", len(model["obs"]), len(iobs)))
    return diffs


def artefact_request(real):
    """the database files of a `hold_build` scenario as seen by Model/Artefact.lean: (request for the driver op
    C20.artefact, what every `use` step of the real runs found, in order).  Programs: per run its realised sequence of
    conversions (`build`, ATOMIC - the model describes the repaired gtf2db - image = two records naming the version) and
    re-openings (`use`); schedule: the realised steps (`build` = the first step of the model's build, `produce` = the
    remaining three: two chunks and the os.replace)."""
    paths = []

    def pid_of(path):
        if path not in paths:
            paths.append(path)
        return paths.index(path)
    n = len(real["outcomes"])
    progs = [[] for _ in range(n)]
    dbconvs = {q: [cv for cv in real["convs"] if cv["pid"] == q and cv["kind"] == "db"] for q in range(n)}
    used = {q: 0 for q in range(n)}
    expected = []
    for (q, what, path, extra) in real["events"]:
        if what == "publish":
            cv = dbconvs[q][used[q]]
            used[q] += 1
            c = int(cv["tgt_mtime"])
            progs[q].append({"op": "build", "p": pid_of(path), "atomic": True, "chunks": [[c], [c]]})
        elif what == "use":
            progs[q].append({"op": "use", "p": pid_of(path)})
            if extra.startswith("complete:"):
                m = int(float(extra.rsplit("@", 1)[1]))
                expected.append([pid_of(path), [m, m]])
            else:
                expected.append([pid_of(path), None if extra == "absent" else "partial"])
    files = [[pid_of(t), [int(m), int(m)]] for t, m in sorted(real.get("warm_targets", {}).items()) if t.endswith(".db")]
    sched = []
    for (q, label, f) in real["trace_full"]:
        if f == 0 and label == "build":
            sched.append(q)
        elif f == 0 and label == "produce":
            sched += [q, q, q]
        elif label == "use":
            sched.append(q)
    return {"files": files, "procs": progs, "sched": sched}, expected


def check_property(sc, real):
    """the property itself on what the real code did; returns list of (kind, detail)"""
    fails = []
    cnt = real.setdefault("counters", {})
    for pid, o in enumerate(real["outcomes"]):
        if not o or not o["ok"]:
            fails.append(("run_crashed", "run %d: %s" % (pid, o)))
    # the run re-opens the database it took: it must never find it missing or half built (audit2 C20-G2)
    for (pid, what, path, seen) in real.get("events", []):
        if what == "use":
            cnt["artefact_uses"] = cnt.get("artefact_uses", 0) + 1
            if seen in ("partial", "absent"):
                fails.append(("partial_artefact_observed", "run %d re-opened the database %s it had taken and found it %s "
                              "(another run was rebuilding it in place)" % (pid, path, seen)))
    full = set(t for (_, _, t) in real["stores"] if t is not None) | set(t for t in real["init_files"] if t is not None)
    for pid, f, seen in real["loads"]:
        if seen is not None and seen not in full:
            fails.append(("half_written_observed", "run %d read %r from config %d, which no store ever handed over"
                          % (pid, seen[:80], f)))
    for f, text in real["files"].items():
        if text is not None:
            try:
                ok = isinstance(json.loads(text), dict)
            except ValueError:
                ok = False
            if not ok and str(f) not in sc.get("corrupt", {}):
                fails.append(("config_left_corrupted", "config %d ends as %r" % (f, text[:80])))
    # every artefact a run goes on to use was converted from the run's own input (path, current mtime, flag) – judged on
    # what is in the file at the END of all runs (the run re-opens the path for the rest of its life) – and is still the
    # version (path @ mtime) the run took
    for pid, (o, d) in enumerate(zip(real["outcomes"], real["descs"])):
        if not o or not o["ok"]:
            # the artefacts of a crashed run are not judged (the crash itself is the failure `run_crashed` when the run
            # completes alone: confirmed_failures) - counted in the evidence
            cnt["crashed_runs_artefacts_not_checked"] = cnt.get("crashed_runs_artefacts_not_checked", 0) + 1
            continue
        clients = ([d["db"]] if d["db"] else []) + d["stores"]
        took = [t for t in real.get("taken", []) if t[0] == pid]
        for ci, ((kind, path), c) in enumerate(zip(o["results"], clients)):
            pv = real["provenance"].get(path)
            tk = took[ci] if ci < len(took) and took[ci][2] == os.path.abspath(path) else None
            if tk is None:
                # no record of the version taken: the stability of this result cannot be judged - counted in the evidence
                cnt["results_without_taken_record"] = cnt.get("results_without_taken_record", 0) + 1
            cnt["results_checked"] = cnt.get("results_checked", 0) + 1
            cls = shared_target_class(real, pid, c, tk)
            facts = {"pid": pid, "client": ci, "kind": kind, "artefact": _strip(real, path), "hit": bool(tk and tk[4]),
                     "overwritten_by": cls}
            if pv is None:
                fails.append(("foreign_conversion", {"text": "run %d uses %s which is not a produced artefact" % (pid, path),
                                                     "facts": facts}))
                continue
            want_tag = {"db": bool(c["tag"]), "index": str(c["tag"])}.get(kind)
            src_now = real["input_mtimes"].get(os.path.abspath(c["src"]))
            foreign_file = os.path.abspath(pv["converted_from"]) != os.path.abspath(c["src"]) or pv["src_mtime"] != src_now or \
                (want_tag is not None and pv["tag"] != want_tag) or pv["kind"] != kind
            # what the file itself does not say (the dict key: an alignment against another index has the same read file):
            # the version now at the path was written by another run for another client identity
            foreign_writer = bool(cls and cls["by"] != pid and cls["other_input"])
            if foreign_file or foreign_writer:
                text = "run %d (%s of %s, tag %s) uses %s converted from %s@%s tag %s" \
                       % (pid, kind, c["src"], want_tag, path, pv["converted_from"], pv["src_mtime"], pv["tag"])
                if facts["hit"] and cls and cls["concurrent"] and cls["other_input"] and cls["separate_folders"] and \
                        cls["in_its_folder"]:
                    # the class of the known finding `cached_artefact_overwritten_in_place`
                    fails.append((KIND_SHARED, {"text": text + " – taken from the cache at mtime %s, then overwritten in place "
                                                "by the concurrently running run %d, which uses that output folder for "
                                                "another input (key %s)" % (tk[3], cls["by"], _strip(real, str(cls["key"]))),
                                                "facts": facts}))
                else:
                    fails.append(("foreign_conversion", {"text": text, "facts": facts}))
            elif tk is not None and real["final_mtime"].get(tk[2]) != tk[3]:
                # the file was replaced after the run took it, by a conversion of the same input (same key, flag, source mtime)
                if cls and cls["by"] == pid:
                    note = "self_overwrite"             # a run writing its own artefact again is not interference
                elif cls and cls["concurrent"] and cls["in_its_folder"] and kind != "db":
                    # index / BED / BAM: the producers are stand-ins that write the file in one step (what the real minimap2 /
                    # db2bed do inside the file is not observed here): same exposure as the listed finding, counted
                    note = "rebuilt_in_place_same_input"
                elif cls and cls["concurrent"] and cls["in_its_folder"] and not cls.get("built_in_place"):
                    # the owner of the folder converted the same input again and MOVED the complete file into place: what the
                    # reader holds open and what it opens later are complete conversions of its own input
                    note = "replaced_atomically_same_input"
                elif cls and cls["concurrent"] and cls["in_its_folder"]:
                    # audit2 C20-G2: ... and rebuilt it IN the file the reader holds from the cache (removed it, filled the new
                    # one over the time of a conversion): the reader opens a missing / half-built database
                    fails.append(("rebuilt_in_place_same_input",
                                  {"text": "run %d took %s from the cache (mtime %s); the concurrently running run %d converted the same "
                                           "input again directly into that file (removed, then rebuilt in place)"
                                           % (pid, path, tk[3], cls["by"]), "facts": facts}))
                    continue
                else:
                    note = None
                if note is None:
                    fails.append(("artefact_unstable", {"text": "run %d took %s at mtime %s; at the end the file has mtime %s "
                                                        "although no running run uses that folder" %
                                                        (pid, path, tk[3], real["final_mtime"].get(tk[2])), "facts": facts}))
                else:
                    real.setdefault("stability_notes", []).append(note)
    return fails


KIND_SHARED = "foreign_conversion:shared_target_overwritten"


def _norm_tag(t):
    try:
        return int(t) if t is not None else 0
    except (TypeError, ValueError):
        return 0


def shared_target_class(real, pid, client, tk):
    """who wrote the version that is at the artefact's path at the end, if it is not the version the run took:
    {"by": pid of the writer, "concurrent": it is one of the simultaneously running runs (not the history),
     "other_input": it converted another input (other key / flag / k-mer size) than this client's,
     "separate_folders": writer and this run have different output folders (the property's premise),
     "in_its_folder": the path lies in the writer's output folder}; None when the version is the one taken or the
    writer is unknown.  Ground truth: the log of the harness's fake conversions (pid, target, mtime)."""
    if tk is None:
        return None
    path, m_end = tk[2], real["final_mtime"].get(tk[2])
    if m_end is None or m_end == tk[3]:
        return None
    for cv in real["convs"]:
        if cv["target"] == path and cv["tgt_mtime"] == m_end:
            q = cv["pid"]
            return {"by": q, "concurrent": True, "key": cv["key"],
                    "built_in_place": cv.get("built_at") in (None, path) and cv["kind"] == "db",
                    "other_input": (cv["key"], _norm_tag(cv["tag"])) != (client["key"], _norm_tag(client["tag"])),
                    "separate_folders": real["outs"][q] != real["outs"][pid],
                    "in_its_folder": os.path.dirname(path) == real["outs"][q]}
    return None


def static_class(sc, facts):
    """the class predicate of the known finding evaluated on the scenario alone: the artefact of a cache hit of run `pid`
    lies in the output folder that another simultaneously running run (other folder than `pid`'s own) uses, and that run
    has a client producing into exactly this path for another input"""
    vlib.repo_on_path()
    import src.read_mapper as RM
    if not facts or not facts.get("hit"):
        return False
    cfgs, _ = CG.cfgs("/__S__", sc)
    descs = [_client_desc(c, RM) for c in cfgs]
    pid, ci = facts["pid"], facts["client"]
    if not (0 <= pid < len(descs)):
        return False
    mine = (([descs[pid]["db"]] if descs[pid]["db"] else []) + descs[pid]["stores"])
    if ci >= len(mine):
        return False
    mine = mine[ci]
    for q, d in enumerate(descs):
        if q == pid or sc["runs"][q]["out"] == sc["runs"][pid]["out"]:
            continue
        for c in ([d["db"]] if d["db"] else []) + d["stores"]:
            if c["target"].replace("/__S__", "<S>") == facts["artefact"] and \
                    (c["key"], c["tag"]) != (mine["key"], mine["tag"]):
                return True
    return False


def matches_finding(failure, entry):
    """membership of a failure in a listed finding: the kind AND the class predicate"""
    if failure["kind"] != entry.get("kind"):
        return False
    if entry.get("id") == "cached_artefact_overwritten_in_place":
        inp = failure["input"]
        if inp.get("mode") == "pipeline":
            return pipeline_class(inp.get("case", {}), inp.get("facts", {}))
        return static_class(inp.get("scenario", {}), inp.get("facts", {}))
    return True


def codec_laws(ctx, real, req, model):
    """the assumption interface about json (Codec.Lawful) on the contents of this run: python's parser, the driver's
    parser and the laws"""
    texts = set(t for (_, _, t) in real["stores"] if t) | set(t for t in real["init_files"] if t) | \
        set(t for (_, _, t) in real["loads"] if t)
    lines, probes = [], []
    for t in sorted(texts):
        probes.append(t)
    sers = [t for (_, _, t) in real["stores"] if t]
    for a in sers[:6]:
        for b in sers[:6]:
            if len(a) < len(b):
                probes.append(a + b[len(a):])      # short ++ tail(long)
    for a in sers[:3]:
        probes.append(a + " \n")               # law 1 with a non-empty (blank) tail: still the same dict
        probes.append(a + a)                    # a document followed by a whole document
    probes.append("")
    probes = probes[:70]
    for t in probes:
        lines.append(vlib.req("C20.parse", names=req["names"], text=t))
    outs = ctx.driver.run(lines)
    bad = []
    for t, mo in zip(probes, outs):
        try:
            pv = json.loads(t)
            py_ok = isinstance(pv, dict)
            if py_ok:       # load_config keeps the entries that are dicts
                pv = {k: v for k, v in pv.items() if isinstance(v, dict)}
        except ValueError:
            py_ok = False
        if isinstance(mo, dict) and "driver_error" in mo:
            bad.append(("driver_error", t[:60], mo))
        elif py_ok != (mo is not None):
            bad.append(("parse verdict", t[:80], mo))
        elif py_ok and json.loads(mo) != pv:
            bad.append(("parse value", t[:80], mo))
        ctx.count("codec_probe:" + ("doc" if py_ok else "not_a_doc"))
    return bad


def correspondence(ctx):
    quick = ctx.tier == "quick"
    n_sc = 260 if quick else 2000
    max_n = 8 if quick else 16
    scenarios = CG.witness_scenarios() + CG.stable_scenarios() + CG.late_start_scenarios() + CG.rebuild_scenarios() + \
        [CG.rand_scenario(ctx.rng, max_n=max_n, rich=True) for _ in range(n_sc)]
    for sc in scenarios:
        if "name" not in sc and CG.reuse_finished_folder(sc):
            ctx.count("generator:running_run_takes_finished_folder")
        # (a dict entry that lacks fields is kept verbatim by the code and cannot be represented by the model's Entry:
        # that variant is searched by the oracle only)
        if "name" not in sc and CG.malformed_entries(sc, allow_partial_dict=False):
            ctx.count("generator:malformed_entry_under_looked_up_key")
        if sc.get("late"):
            ctx.count("generator:late_start")
        if sc.get("hold_build"):
            ctx.count("generator:rebuild_with_build_and_use_steps")
    ctx.extra["scenario_generator"] = {"random": n_sc, "max_processes": max_n, "witness_schedules": 2,
                                       "shared_target_scenarios": len(CG.stable_scenarios())}
    batch = []
    for sc in scenarios:
        real, req = run_real(sc)
        if req is None:
            ctx.disagree("warmup", sc, None, real)
            continue
        batch.append((sc, real, req))
    outs = ctx.driver.run([vlib.req("C20.run", **req) for (_, _, req) in batch])
    # Model/Artefact.lean against the database files of the scenarios that have the two phases of a conversion and the
    # re-openings as steps
    abatch = [(sc, real) + artefact_request(real) for (sc, real, _) in batch if sc.get("hold_build")]
    aouts = ctx.driver.run([vlib.req("C20.artefact", **areq) for (_, _, areq, _) in abatch])
    for (sc, real, areq, expected), amodel in zip(abatch, aouts):
        if isinstance(amodel, dict) and "driver_error" in amodel:
            ctx.disagree("artefact", sc, amodel, None)
            continue
        ctx.count("artefact_model:scenarios")
        ctx.count("artefact_model:uses_compared", len(expected))
        ctx.count("artefact_model:builds", sum(1 for pr in areq["procs"] for i in pr if i["op"] == "build"))
        if amodel["obs"] != expected or any(amodel["left"]):
            ctx.disagree("artefact", sc, amodel, {"found_by_the_real_runs": expected})
        elif any(i["op"] == "build" for pr in areq["procs"] for i in pr) and expected:
            ctx.count("artefact_model:nontrivial")
    laws_checked = 0
    for (sc, real, req), model in zip(batch, outs):
        ctx.evaluations += 1
        ctx.count("procs:%d" % sc["n"])
        ctx.count("init:" + ("warm" if sc["warm"] else "malformed_entry" if sc.get("malformed") else
                             "corrupt" if sc["corrupt"] else "fresh"))
        if real.get("reused_by_name"):
            ctx.count("index_reference_returned_a_file_found_by_name", len(real["reused_by_name"]))
        if isinstance(model, dict) and "driver_error" in model:
            ctx.disagree("run", sc, model, None)
            continue
        ctx.traces_validated += 1
        for (_, l, _) in real["trace"]:
            ctx.count("step:" + l)
        diffs = compare(ctx, sc, real, model)
        if diffs:
            ctx.disagree("run", sc, [d[1] for d in diffs][:3], [[d[0], d[2]] for d in diffs][:3])
            continue
        hits = sum(1 for p in model["procs"] for r in p["results"] if r[2])
        ctx.count("lookups_hit", hits)
        # C20Stable: the verdicts agree (compare); the hypothesis of results_stable_partial evaluated by the model on the
        # start state (history in the ghost log) predicts the real runs
        unstable = sum(1 for (_, _, path, m, _) in real["taken"] if real["final_mtime"].get(path) != m)
        ctx.count("results_taken", len(real["taken"]))
        ctx.count("results_unstable_at_end", unstable)
        ctx.count("private_targets:%s" % ("holds" if model.get("private") else "fails"))
        if unstable:
            ctx.count("scenarios_with_unstable_result")
        if model.get("private") and unstable:
            ctx.disagree("stable_partial_prediction", sc, "PrivateTargets holds => every result stable",
                         [[_strip(real, p), m, real["final_mtime"].get(p)] for (_, _, p, m, _) in real["taken"]
                          if real["final_mtime"].get(p) != m][:3])
            continue
        crashed = sum(1 for p in model["procs"] if p["crashed"])
        if crashed:
            ctx.count("model_crash")
        if hits and not crashed and any(l == "replace" or l == "write" for (_, l, _) in real["trace"]):
            ctx.mark_nontrivial(json.dumps(sc, sort_keys=True))
        if laws_checked < (25 if quick else 150):
            laws_checked += 1
            for b in codec_laws(ctx, real, req, model):
                ctx.disagree("codec_law", {"scenario": sc, "probe": b[1]}, b[2], b[0])
        if len(ctx.samples) < 4:
            ctx.sample({"scenario": sc, "trace_len": len(real["trace"]), "hits": hits,
                        "final_db_config": _strip(real, real["files"].get(0))})


# ------------------------------------------------------------------------------------------------
# oracle

def oracle_inprocess(ctx, scenarios):
    n = 0
    for sc in scenarios:
        real, _ = run_real(sc)
        n += 1
        if "warm_failed" in real:
            ctx.fail("run_crashed", {"mode": "inprocess", "scenario": sc}, "sequential warm-up run failed: %s" % real["warm_failed"])
            continue
        seen = set()
        found = confirmed_failures(sc, real)
        for note in real.get("stability_notes", []):
            ctx.count("oracle:" + note)
        for k, v in real.get("counters", {}).items():
            ctx.count("oracle:" + k, v)
        if real.get("reused_by_name"):
            ctx.count("oracle:index_reference_returned_a_file_found_by_name", len(real["reused_by_name"]))
        for kind, detail in found:
            if kind not in seen:
                seen.add(kind)
                small = sc
                if kind != KIND_SHARED and ctx.hist.get("oracle_failure:" + kind, 0) >= 3:
                    # three concrete inputs of one kind are recorded, the rest is counted (so that the other kinds stay visible
                    # within the budget of recorded failures)
                    ctx.count("oracle_failure:" + kind)
                    ctx.count("oracle_failure_counted_only:" + kind)
                    continue
                if kind == KIND_SHARED and ctx.hist.get("oracle_failure:" + kind, 0) >= 8 and isinstance(detail, dict) and \
                        static_class(sc, detail["facts"]):
                    # the listed class, observed often with the generator option: recorded a few times, counted always
                    # (a failure of this kind OUTSIDE the class predicate is always recorded)
                    ctx.count("oracle_failure:" + kind)
                    ctx.count("oracle_failure_counted_only:" + kind)
                    continue
                if kind not in ctx.extra.setdefault("shrunk_kinds", []):
                    ctx.extra["shrunk_kinds"].append(kind)
                    small = shrink(sc, kind)
                    r2, _ = run_real(small)
                    d2 = [d for k, d in confirmed_failures(small, r2) if k == kind]
                    detail = d2[0] if d2 else detail
                    if not d2:
                        small = sc
                inp = {"mode": "inprocess", "scenario": small}
                if isinstance(detail, dict):       # structured: the facts the class predicate of a finding is evaluated on
                    inp["facts"], detail = detail["facts"], detail["text"]
                ctx.fail(kind, inp, detail)
                ctx.count("oracle_failure:" + kind)
        if len([f for f in ctx.failures if f["kind"] != KIND_SHARED]) > 12:
            break
    return n


def _fails(sc, kind):
    real, _ = run_real(sc)
    if "warm_failed" in real:
        return False
    return any(k == kind for k, _ in confirmed_failures(sc, real))


def shrink(sc, kind, budget=80):
    """greedy minimisation of a failing scenario (fewer runs, clients, history, shorter schedule), same failure class"""
    cur = json.loads(json.dumps(sc))
    cur.pop("name", None)
    used = [0]

    def attempt(cand):
        if used[0] >= budget:
            return False
        used[0] += 1
        try:
            return _fails(cand, kind)
        except Exception:   # noqa
            return False
    changed = True
    while changed and used[0] < budget:
        changed = False
        for i in reversed(range(cur["n"])):          # drop a run
            if cur["n"] <= 1:
                break
            cand = dict(cur, n=cur["n"] - 1, runs=cur["runs"][:i] + cur["runs"][i + 1:],
                        schedule=[p - (1 if p > i else 0) for p in cur["schedule"] if p != i])
            if attempt(cand):
                cur, changed = cand, True
        for key in ("warm", "touch"):                # drop history
            for i in reversed(range(len(cur[key]))):
                cand = dict(cur, **{key: cur[key][:i] + cur[key][i + 1:]})
                if attempt(cand):
                    cur, changed = cand, True
        for i, r in enumerate(cur["runs"] + cur["warm"]):     # drop clients
            for j in reversed(range(len(r["stores"]))):
                r2 = dict(r, stores=r["stores"][:j] + r["stores"][j + 1:])
                runs = [r2 if x is r else x for x in cur["runs"]]
                warm = [r2 if x is r else x for x in cur["warm"]]
                cand = dict(cur, runs=runs, warm=warm)
                if (r2["stores"] or r2["db"]) and attempt(cand):
                    cur, changed = cand, True
                    break
        if len(cur["schedule"]) > 1:                 # halve the schedule (the rest runs to completion in pid order)
            cand = dict(cur, schedule=cur["schedule"][:len(cur["schedule"]) // 2])
            if attempt(cand):
                cur, changed = cand, True
    return cur


def confirmed_failures(sc, real):
    """check_property, where a crashed run counts only if the same run completes when started alone on the same
    initial cache directory (the statement compares with what the run does alone)"""
    res = []
    for kind, detail in check_property(sc, real):
        if kind == "run_crashed":
            pid = int(detail.split()[1].rstrip(":"))
            solo = dict(sc, n=1, runs=[sc["runs"][pid]], schedule=[], late=[])
            r2, _ = run_real(solo)
            if "warm_failed" in r2 or not (r2["outcomes"][0] and r2["outcomes"][0]["ok"]):
                real.setdefault("counters", {})["crash_also_alone_not_counted"] = \
                    real["counters"].get("crash_also_alone_not_counted", 0) + 1
                if sc.get("malformed"):
                    # audit2 C20-G5: the file is a JSON dict, one ENTRY is malformed: the run must treat the entry as absent
                    # (tolerant reading), i.e. do what it does alone on an empty cache directory
                    r3, _ = run_real(dict(solo, corrupt={}, malformed=None))
                    if "warm_failed" not in r3 and r3["outcomes"][0] and r3["outcomes"][0]["ok"]:
                        res.append(("malformed_entry_crash", "%s; the config file is a JSON dict whose entry under the looked-up "
                                    "key is malformed (%s: %s); on an empty cache directory the run completes"
                                    % (detail, sc["malformed"], list(sc["corrupt"].values())[0])))
                continue
        res.append((kind, detail))
    return res


def prefix_tree():
    """(path, note): a scratch copy of the tree before the C20 fix commit, from git (None when unavailable)"""
    kf = vlib.load_known_findings()
    commit = None
    for line in kf.get("fixed", []):
        if "property=C20" in line:
            commit = line.split("property=C20", 1)[1].split()[0]
    if not commit:
        return None, "no fix commit recorded"
    d = tempfile.mkdtemp(prefix="isoverif_c20_prefix_")
    try:
        p = subprocess.run("git -C /repo archive %s^ isoquant.py src | tar -x -C %s" % (commit, d), shell=True,
                           capture_output=True, text=True, timeout=120)
        if p.returncode != 0 or not os.path.exists(os.path.join(d, "isoquant.py")):
            shutil.rmtree(d, ignore_errors=True)
            return None, "git archive of %s^ failed: %s" % (commit, p.stderr[-200:])
        return d, commit
    except Exception as ex:   # noqa
        shutil.rmtree(d, ignore_errors=True)
        return None, str(ex)


def witness_on_prefix_tree(ctx):
    """the Lean witnesses are facts about real code: replay them on the tree before the fix, in a subprocess"""
    d, note = prefix_tree()
    if d is None:
        ctx.notes.append("witness replay on the pre-fix tree skipped: %s" % note)
        return
    try:
        code = ("import sys, json, random; sys.path.insert(0, %r); import vlib, props.C20 as P; from gen import cachegen as CG\n"
                "res = []\n"
                "for sc in CG.witness_scenarios():\n"
                "    real, _ = P.run_real(sc)\n"
                "    res.append([sc['name'], sorted(set(k for k, _ in P.check_property(sc, real)))])\n"
                "# the `...Orig` programs of the model against the pre-fix functions\n"
                "ctx = vlib.Ctx('C20', 'quick', %d); bad = []; n = 0\n"
                "if ctx.driver.available():\n"
                "    for sc in CG.witness_scenarios() + [CG.rand_scenario(ctx.rng, 6, True) for _ in range(%d)]:\n"
                "        if any(t.strip() in ('[]', 'null') for t in sc['corrupt'].values()): continue  # a non-dict document: the pre-fix code fails one step later (AttributeError in the lookup), the model at the load\n"
                "        real, req = P.run_real(sc, proto='orig')\n"
                "        if req is None or real.get('reused_by_name') or sc.get('malformed'): continue\n"
                "        model = ctx.driver.run([vlib.req('C20.run', **req)])[0]\n"
                "        n += 1\n"
                "        d = P.compare(ctx, sc, real, model) if 'driver_error' not in model else [['driver', model, None]]\n"
                "        if d: bad.append([sc, str(d)[:600]])\n"
                "print('RESULT ' + json.dumps([res, n, bad[:3]]))\n") % (vlib.HERE, ctx.seed, 25 if ctx.tier == "quick" else 250)
        p = subprocess.run([vlib.PY, "-c", code], capture_output=True, text=True, timeout=300,
                           env=dict(os.environ, VERIF_REPO=d, ABLAB_ISOQUANT_VERIF="1"))
        line = [l for l in p.stdout.split("\n") if l.startswith("RESULT ")]
        if not line:
            ctx.notes.append("witness replay on the pre-fix tree did not run: %s" % (p.stderr[-300:]))
            return
        res, n_orig, bad_orig = json.loads(line[0][7:])
        res = dict(res)
        ctx.extra["witnesses_on_prefix_tree"] = {"commit_before": note + "^", "observed": res,
                                                 "orig_model_vs_prefix_code": {"scenarios": n_orig, "disagreements": len(bad_orig)}}
        for b in bad_orig:
            ctx.notes.append("WARNING: the `Orig` programs of the model disagree with the pre-fix code: %s" % (b[1],))
        exp = {"half_written_observable_witness": "half_written_observed", "lost_tail_corruption_witness": "config_left_corrupted"}
        for nme, kind in exp.items():
            if kind not in res.get(nme, []):
                ctx.notes.append("WARNING: witness %s not reproduced on the pre-fix tree (got %s)" % (nme, res.get(nme)))
    finally:
        shutil.rmtree(d, ignore_errors=True)


# ---- pipeline level: real isoquant.py processes

def _pipeline():
    import pipeline as PL
    return PL


def _second_annotation(src_gz, dst):
    """a different annotation over the same genome: every second gene of the toy GTF dropped"""
    import gzip
    genes = []
    with gzip.open(src_gz, "rt") as f:
        lines = f.readlines()
    for l in lines:
        if "\tgene\t" in l:
            genes.append(l.split('gene_id "')[1].split('"')[0])
    drop = set(genes[1::2])
    with open(dst, "w") as f:
        for l in lines:
            if l.startswith("#") or l.split('gene_id "')[1].split('"')[0] not in drop:
                f.write(l)


WRAPPER = os.path.join(vlib.HERE, "gen", "cachewrap.py")


def _outputs(PL, outdir, prefix):
    res = {}
    for fn, p in PL.out_files(outdir, prefix).items():
        if fn.endswith(".log") or fn.endswith(".params") or fn.endswith(".db") or fn.endswith(".fai"):
            continue
        with open(p, errors="replace") as f:
            res[fn] = PL.strip_cmdline(f.read())
    return res


class PipelineEnv:
    """toy data, a second annotation and the solo baselines (computed once, each under its own HOME)"""

    def __init__(self):
        self.PL = _pipeline()
        self.base = self.PL.scratch("isoverif_c20_pipe_")
        self.paths = self.PL.copy_toy(os.path.join(self.base, "data"))
        self.ann = [self.paths["gtf"], os.path.join(self.base, "data", "second.gtf"),
                    # the second annotation once more under the FILE NAME of the first one, in another folder: a run that
                    # converts it into an output folder writes the same <name>.db path as a run of the first annotation
                    os.path.join(self.base, "data", "alt", os.path.basename(self.paths["gtf"]))]
        _second_annotation(self.paths["gtf"], self.ann[1])
        os.makedirs(os.path.dirname(self.ann[2]))
        import gzip
        with open(self.ann[1], "rb") as fi, gzip.open(self.ann[2], "wb") as fo:
            fo.write(fi.read())
        self.same_content = {2: 1}        # annotation 2 = annotation 1 under another path: same solo outputs
        self.solo = {}
        self.k = 0
        # every process of this oracle run executes one frozen copy of the tree (other work may commit to the
        # repository while the check is running; solo and concurrent runs must execute the same code)
        self.repo = os.path.join(self.base, "tree")
        os.makedirs(self.repo)
        for nme in os.listdir(vlib.REPO):
            srcp = os.path.join(vlib.REPO, nme)
            if os.path.isfile(srcp) and (nme.endswith(".py") or nme == "VERSION"):
                shutil.copy(srcp, os.path.join(self.repo, nme))
        shutil.copytree(os.path.join(vlib.REPO, "src"), os.path.join(self.repo, "src"),
                        ignore=shutil.ignore_patterns("__pycache__"))

    def args_for(self, ann, complete, ref=None):
        a = ["--threads", "1", "--bam", self.paths["bam"], "--reference", ref or self.paths["ref"], "--data_type", "nanopore",
             "-p", "S", "--no_gzip", "--genedb", self.ann[ann]]
        return a + (["--complete_genedb"] if complete else [])

    def fresh_reference(self, kind, folder):
        """a reference nobody has indexed yet, in a folder of its own (audit2 C20-G1: the index next to the reference is
        shared by every run that uses this reference, and the first uses build it).
        `fresh_bgzf`  = the toy BGZF file without .fai / .gzi (pyfaidx rebuilds the .fai whenever the .gzi is missing, so a
                        held writer is repaired by the next one: used free-running, thorough tier);
        `fresh_plain` = the toy sequence + 60 short decoy contigs, not compressed, no .fai;
        `plain_gzip`  = the toy sequence + 60 short decoy contigs, compressed with plain gzip (pyfaidx refuses it: every run
                        unpacks a private copy into its output folder)"""
        os.makedirs(folder, exist_ok=True)
        if kind == "fresh_bgzf":
            dst = os.path.join(folder, os.path.basename(self.paths["ref"]))
            shutil.copy(self.paths["ref"], dst)
            return dst
        import gzip
        fn = "refplain.fa.gz" if kind == "plain_gzip" else "refplain.fa"      # `fresh_plain`: the same, not compressed
        src = os.path.join(self.base, "data", "plain", fn)
        if not os.path.exists(src):
            os.makedirs(os.path.dirname(src), exist_ok=True)
            with gzip.open(self.paths["ref"], "rb") as fi, \
                    (gzip.open(src, "wb", compresslevel=1) if kind == "plain_gzip" else open(src, "wb")) as fo:
                shutil.copyfileobj(fi, fo)
                for k in range(60):
                    fo.write((">decoy_%04d\n" % k).encode() + (b"ACGTTGCAAG" * 6 + b"\n") * 4)
        dst = os.path.join(folder, fn)
        shutil.copy(src, dst)
        return dst

    def baseline(self, ann, complete, refkind=None):
        key = (self.same_content.get(ann, ann), complete) + ((refkind,) if refkind else ())
        ann = key[0]
        if key not in self.solo:
            d = os.path.join(self.base, "solo_%d_%d%s" % (ann, int(complete), "_" + refkind if refkind else ""))
            os.makedirs(d)
            ref = self.fresh_reference(refkind, os.path.join(d, "ref")) if refkind else None
            rc, log = self.PL.run_isoquant(os.path.join(d, "out"), self.args_for(ann, complete, ref), home=os.path.join(d, "home"),
                                           wrapper=os.path.join(self.repo, "isoquant.py"))
            self.solo[key] = _outputs(self.PL, os.path.join(d, "out"), "S") if rc == 0 else ("failed", rc, log[-400:])
        return self.solo[key]

    def close(self):
        shutil.rmtree(self.base, ignore_errors=True)


def run_pipeline_case(case, keep=None, env=None):
    """case = {"anns": [0|1 per process], "complete": [bool...], "sched": [pids] | None}; returns list of (kind, detail)"""
    own = env is None
    env = env or PipelineEnv()
    PL = env.PL
    fails = []
    try:
        n = len(case["anns"])
        refkind = case.get("ref")
        for i in range(n):
            b = env.baseline(case["anns"][i], case["complete"][i], refkind)
            if isinstance(b, tuple):
                return [("infrastructure", "solo run failed rc=%s: %s" % (b[1], b[2]))]
        env.k += 1
        base = os.path.join(env.base, "case%d" % env.k)
        home = os.path.join(base, "home")
        os.makedirs(home)
        sdir = os.path.join(base, "sched")
        os.makedirs(sdir)
        with open(os.path.join(sdir, "sched.json"), "w") as f:
            json.dump(case.get("sched") or [], f)
        procs = []
        outs = case.get("outs") or ["run%d" % i for i in range(n)]
        # history: earlier runs under the same HOME that have FINISHED before the simultaneous ones start
        # audit2 C20-G1: the concurrent runs of such a case are the FIRST users of their reference (no .fai / .gzi yet)
        ref = env.fresh_reference(refkind, os.path.join(base, "ref")) if refkind else None
        for h in case.get("history", []):
            od = os.path.join(base, h["out"], "out")
            os.makedirs(os.path.dirname(od), exist_ok=True)
            rc, log = PL.run_isoquant(od, env.args_for(h["ann"], h["complete"], ref), home=home,
                                      wrapper=os.path.join(env.repo, "isoquant.py"))
            if rc != 0:
                shutil.rmtree(base, ignore_errors=True)
                return [("infrastructure", "history run failed rc=%s: %s" % (rc, log[-300:]))]
        db_before = {}
        for o in set(outs):
            od = os.path.join(base, o, "out")
            for fn in (os.listdir(od) if os.path.isdir(od) else []):
                if fn.endswith(".db"):
                    db_before[os.path.join(od, fn)] = os.path.getmtime(os.path.join(od, fn))
        for i in range(n):
            od = os.path.join(base, outs[i], "out")
            os.makedirs(os.path.dirname(od), exist_ok=True)
            e = dict(os.environ, HOME=home, PYTHONHASHSEED="0", ABLAB_ISOQUANT_VERIF="1", VERIF_REPO=env.repo,
                     VERIF_C20_SCHED_DIR=sdir, VERIF_C20_PID=str(i), VERIF_C20_N=str(n),
                     VERIF_C20_HOLD_USE="1" if case.get("hold_use") else "0",
                     VERIF_C20_HOLD_FAI="1" if case.get("hold_fai") else "0",
                     VERIF_C20_HOLD_DB="1" if case.get("hold_db") else "0",
                     VERIF_C20_START_BARRIER="1" if case.get("start_barrier") else "0")
            hold = case.get("hold")
            if hold and hold["pid"] == i:      # this process stays at barrier `at` until process `for` has exited
                e.update(VERIF_C20_HOLD_AT=hold["at"], VERIF_C20_HOLD_FOR=str(hold["for"]))
            entry = [WRAPPER] if case.get("sched") is not None else [os.path.join(env.repo, "isoquant.py")]
            extra_args = list((case.get("extra_args") or [[]] * n)[i])
            if case.get("stagger") and i:
                time.sleep(case["stagger"])
            if case.get("genedb_output"):
                # one scratch folder for converted annotations shared by all runs (docs/cmd.md: --genedb_output); with the
                # pinned code the option is parsed but the database still goes to the run's own output folder
                # (the folder is NOT created beforehand - audit2 C20-G6: the runs that start together create it themselves;
                # the wrapper puts a barrier at the os.path.exists / os.makedirs of this path)
                gdb = os.path.join(base, "shared_genedb_output")
                e["VERIF_C20_GDB"] = gdb
                extra_args += ["--genedb_output", gdb]
            procs.append((od, subprocess.Popen([vlib.PY] + entry + ["--output", od] + env.args_for(case["anns"][i], case["complete"][i], ref) + extra_args,
                                               env=e, stdout=subprocess.PIPE, stderr=subprocess.STDOUT, text=True,
                                               cwd=os.path.dirname(od))))
        for i, (od, p) in enumerate(procs):
            try:
                log, _ = p.communicate(timeout=600)
            except subprocess.TimeoutExpired:
                p.kill()
                log = "timeout"
            if p.returncode != 0:
                tail = [l for l in log.split("\n") if "Error" in l or "error" in l][-3:]
                fails.append(("run_crashed", "process %d of %d rc=%s: %s" % (i, n, p.returncode, " | ".join(tail)[-400:])))
                continue
            got = _outputs(PL, od, "S")
            want = env.baseline(case["anns"][i], case["complete"][i], refkind)
            if got != want:
                bad = sorted(k for k in set(got) | set(want) if got.get(k) != want.get(k))
                text = "process %d: files %s differ from the solo run" % (i, bad[:5])
                # which database did the run use?  ("Gene annotation file found. Using <path>" = cache hit)
                used = [l.split("Using ", 1)[1].strip() for l in log.split("\n") if "Gene annotation file found. Using " in l]
                facts = None
                if used:
                    owner = [q for q in range(n) if q != i and os.path.dirname(used[0]) == os.path.join(base, outs[q], "out")]
                    facts = {"pid": i, "hit": True, "artefact_out": os.path.basename(os.path.dirname(os.path.dirname(used[0]))),
                             "db_mtime_taken": db_before.get(used[0]),
                             "db_mtime_end": os.path.getmtime(used[0]) if os.path.exists(used[0]) else None,
                             "folder_used_by_running": owner}
                if facts and facts["db_mtime_taken"] is not None and facts["db_mtime_end"] != facts["db_mtime_taken"] and \
                        pipeline_class(dict(case, outs=outs), facts):
                    fails.append((KIND_SHARED, {"text": text + "; it took %s from the cache (db_mtime %s) and the concurrently running "
                                                "process %s, which uses that output folder for another annotation, rewrote it "
                                                "(db_mtime now %s)" % (used[0].replace(base, "<S>"), facts["db_mtime_taken"],
                                                                       owner, facts["db_mtime_end"]), "facts": facts}))
                else:
                    fails.append(("results_differ_from_solo", text))
        cdir = os.path.join(home, ".config", "IsoQuant")
        for nme in (os.listdir(cdir) if os.path.isdir(cdir) else []):
            if nme.endswith(".json"):
                with open(os.path.join(cdir, nme)) as f:
                    txt = f.read()
                try:
                    ok = isinstance(json.loads(txt), dict)
                except ValueError:
                    ok = False
                if not ok:
                    fails.append(("config_left_corrupted", "%s ends as %r" % (nme, txt[:80])))
        if os.path.exists(os.path.join(sdir, "trace.txt")):
            with open(os.path.join(sdir, "trace.txt")) as f:
                tr = f.read().split("\n")
            if keep is not None:
                keep["trace"] = tr
            # a barrier that gave up / a hold that timed out: the schedule of the case was NOT enforced
            lost = [l for l in tr if l.endswith("GAVEUP") or l.endswith("HOLDTIMEOUT")]
            if keep is not None:
                keep["token_given_up"] = len(lost)
            if lost:
                fails.append(("infrastructure", "step token given up / hold timed out: %s" % lost[:3]))
        shutil.rmtree(base, ignore_errors=True)
        return fails
    finally:
        if own:
            env.close()


def pipeline_class(case, facts):
    """the class predicate of the known finding on a pipeline case: the database the run took from the cache lies in the
    output folder that another, simultaneously running process (separate output folder) uses for another annotation / flag"""
    if not facts or not facts.get("hit"):
        return False
    n = len(case.get("anns", []))
    outs = case.get("outs") or ["run%d" % i for i in range(n)]
    pid = facts.get("pid", -1)
    if not (0 <= pid < n):
        return False
    for q in range(n):
        if q != pid and outs[q] != outs[pid] and outs[q] == facts.get("artefact_out") and \
                (case["anns"][q], case["complete"][q]) != (case["anns"][pid], case["complete"][pid]):
            return True
    return False


def pipeline_cases(ctx):
    quick = ctx.tier == "quick"
    rng = ctx.rng
    cases = [
        # the half-written witness across real processes: P0 up to the middle of its store, P1 up to its load
        {"anns": [0, 1], "complete": [True, True], "sched": [0] * 16 + [1] * 5, "name": "half_written_witness_schedule"},
        # the lost-tail witness: both runs reach the middle of their store (T0 T1), the longer dict is written first (W0),
        # the shorter second (W1)
        {"anns": [0, 1], "complete": [True, True], "sched": [0] * 16 + [1] * 8 + [0, 1], "name": "lost_tail_witness_schedule"},
        # shared_target_overwrite_witness on the real isoquant.py (audit finding C20-G1, known finding
        # cached_artefact_overwritten_in_place): A0 (-o X, annotation 0) has finished; B (-o Y, annotation 0) performs its
        # lookup (cache hit on X/<name>.db) and is held before it goes on to use the database; A' (-o X again, a same-named
        # OTHER annotation) runs its whole cache phase (the conversion rewrites X/<name>.db); then B goes on
        {"anns": [0, 2], "complete": [True, True], "outs": ["Y", "X"], "history": [{"ann": 0, "complete": True, "out": "X"}],
         "extra_args": [[], ["--force"]],      # --force only skips the 10-second "press Ctrl+C" countdown of a re-used folder
         "hold_use": True, "sched": [0] * 6 + [1] * 8 + [0], "name": "shared_target_overwrite"},
        # audit2 C20-G2: the owner of a finished run's folder repeats his command with --force --clean_start (SAME annotation)
        # while another run holds a cache hit on that folder's database: B (-o Y) performs its lookup (hit on X/<name>.db);
        # C (-o X --force --clean_start) is held INSIDE the real gffutils.create_db (records inserted, relations / indices
        # not yet built) until B has exited
        {"anns": [0, 0], "complete": [True, True], "outs": ["Y", "X"], "history": [{"ann": 0, "complete": True, "out": "X"}],
         "extra_args": [[], ["--force", "--clean_start"]], "hold_use": True, "hold_db": True,
         "hold": {"pid": 1, "at": "dbMid", "for": 0},
         "sched": [[0, "use", "arrive"], [1, "dbMid", "arrive"], 0], "name": "same_input_rebuild_midway"},
        # audit2 C20-G1 (a): two first users of a reference that has no index yet: run 0 is held between the open(..,'w') of
        # the index it builds and the close that fills it, for the whole life of run 1
        {"anns": [0, 0], "complete": [True, True], "ref": "fresh_plain", "hold_fai": True,
         "hold": {"pid": 0, "at": "faiWrite", "for": 1},
         "sched": [[0, "faiWrite", "arrive"]], "name": "first_use_of_unindexed_reference"},
        # audit2 C20-G1 (b): plain-gzip multi-contig reference (every run unpacks a private copy): run 0 has loaded its
        # reference; run 1 is held between open(..,'w') and close of the index of ITS copy while run 0's workers re-open
        # the index for every sequence
        {"anns": [0, 0], "complete": [True, True], "ref": "plain_gzip", "hold_fai": True,
         "hold": {"pid": 1, "at": "faiWrite", "for": 0},
         "sched": [[0, "refLoaded", "arrive"], [1, "faiWrite", "arrive"], 0], "name": "plain_gzip_reference_shared_index"},
        # seed C20_b2, deterministic: run 1 STARTS (everything before its first cache step included) while run 0 stands
        # between mkstemp and os.replace of a store
        {"anns": [0, 1], "complete": [True, True], "start_barrier": True,
         "sched": [[0, "start"], [0, "replace", "arrive"], [1, "start"], [1, "lookup"], 0],
         "name": "start_during_a_store"},
        # two runs with separate output folders, one shared --genedb_output folder and two DIFFERENT annotations of the same file
        # name: run 0 converts and is held before it uses its database, run 1 converts, run 0 goes on (a change that makes
        # --genedb_output the target of the conversion lets run 1 overwrite run 0's database: seeded change C20_b3)
        # (audit2 C20-G6: nobody created the folder: both runs test for it, then both create it)
        {"anns": [0, 2], "complete": [True, True], "genedb_output": True, "hold_use": True,
         "sched": [[0, "gdbExists"], [1, "gdbExists"], [0, "use", "arrive"], [1, "use"], 0],
         "name": "shared_genedb_output_folder"},
        # both runs reach their store in the fixed protocol, then alternate
        {"anns": [0, 1], "complete": [True, True], "sched": [0] * 11 + [1] * 7 + [0, 1, 1, 0], "name": "overlapping_stores"},
        # free-running simultaneous start, equal and different annotations
        {"anns": [0, 0, 1, 1], "complete": [True, True, True, False], "sched": None, "name": "simultaneous_start"},
    ]
    for _ in range(1 if quick else 6):
        n = rng.randint(2, 4 if quick else 8)
        cases.append({"anns": [rng.randint(0, 1) for _ in range(n)], "complete": [rng.random() < 0.7 for _ in range(n)],
                      "sched": CG.rand_schedule(rng, n, 14 * n), "name": "random_token_schedule"})
    if not quick:
        cases.append({"anns": [i % 2 for i in range(16)], "complete": [True] * 16, "sched": None, "name": "simultaneous_start_16"})
        cases.append({"anns": [0] * 6, "complete": [True] * 6, "ref": "plain_gzip", "stagger": 0.7, "sched": None,
                      "name": "staggered_start_plain_gzip_reference"})
        cases.append({"anns": [0, 1] * 6, "complete": [True] * 12, "ref": "fresh_bgzf", "sched": None,
                      "name": "simultaneous_first_use_12"})
    return cases


def oracle(ctx, disagreements, broken):
    quick = ctx.tier == "quick"
    # 1. the disagreeing scenarios first
    seeds = [d["input"] for d in disagreements if d["op"] == "run" and isinstance(d["input"], dict) and "runs" in d["input"]]
    n = oracle_inprocess(ctx, seeds[:40])
    # 2. the witnesses of the pre-fix protocol on the current tree (must pass), then the normal generator
    scs = CG.witness_scenarios() + CG.stable_scenarios() + CG.late_start_scenarios() + CG.rebuild_scenarios()
    extra = 300 if quick else 2400
    if broken:
        extra *= 2
    scs += [CG.rand_scenario(ctx.rng, max_n=8 if quick else 16, rich=True) for _ in range(extra)]
    for sc in scs:
        if "name" not in sc and CG.reuse_finished_folder(sc):
            ctx.count("oracle_generator:running_run_takes_finished_folder")
        if "name" not in sc and CG.malformed_entries(sc, allow_partial_dict=True):
            ctx.count("oracle_generator:malformed_entry_under_looked_up_key:" + sc["malformed"])
    n += oracle_inprocess(ctx, scs)
    ctx.extra["oracle_inprocess_scenarios"] = n
    if not any(f["kind"] not in ("infrastructure", KIND_SHARED) for f in ctx.failures):
        witness_on_prefix_tree(ctx)
    # 3. real isoquant.py processes
    t0 = time.time()
    ran = 0
    env = PipelineEnv()
    for case in pipeline_cases(ctx):
        if [f for f in ctx.failures if f["kind"] != KIND_SHARED] and ran >= 3 and \
                case["name"] in ("random_token_schedule", "simultaneous_start", "simultaneous_start_16", "overlapping_stores",
                                 "staggered_start_plain_gzip_reference", "simultaneous_first_use_12"):
            continue        # failures are already on record: only the deterministic named cases are still run
        keep = {}
        try:
            fl = run_pipeline_case(case, keep, env)
        except Exception:
            env.close()
            raise
        ran += 1
        seen = set()
        for kind, detail in fl:
            if kind == "infrastructure":
                ctx.notes.append("pipeline case %s: %s" % (case["name"], detail))
                continue
            if kind not in seen:
                seen.add(kind)
                inp = {"mode": "pipeline", "case": case}
                if isinstance(detail, dict):
                    inp["facts"], detail = detail["facts"], detail["text"]
                ctx.fail(kind, inp, detail)
                ctx.count("oracle_failure:pipeline:" + kind)
        ctx.count("pipeline_case:" + case["name"])
        ctx.count("pipeline:step_token_given_up_or_hold_timed_out", keep.get("token_given_up", 0))
    env.close()
    ctx.extra["oracle_pipeline"] = {"cases": ran, "wall_s": round(time.time() - t0, 1)}


def replay(ctx, failure):
    inp = failure["input"]
    if inp.get("mode") == "pipeline":
        return any(k == failure["kind"] for k, _ in run_pipeline_case(inp["case"]))
    real, _ = run_real(inp["scenario"])
    if "warm_failed" in real:
        return True
    return any(k == failure["kind"] for k, _ in confirmed_failures(inp["scenario"], real))
