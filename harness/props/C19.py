"""C19 — interval and profile primitives return exactly the set-theoretic result."""
import itertools
import os
from fractions import Fraction

import vlib
from gen import intervals as G

ID = "C19"
PROPS = ["IsoVerif/Props/C19.lean", "IsoVerif/Props/C19Lists.lean", "IsoVerif/Props/C19Profiles.lean",
         "IsoVerif/Props/C19Split.lean", "IsoVerif/Props/C19Compose.lean",
         # loop functions regenerated from the source (Gen/Loops.lean): refinement theorems Gen.f = Model.f and the headline
         # theorems over Gen.f, one file per group of functions; the loop-invariant lemmas are audited too so that a re-opened
         # proof is named precisely and takes down only its own group
         "IsoVerif/Lemmas/GenBase.lean",
         "IsoVerif/Lemmas/GenSums.lean", "IsoVerif/Props/C19GenSums.lean",
         "IsoVerif/Lemmas/GenJunctions.lean", "IsoVerif/Props/C19GenJunctions.lean",
         "IsoVerif/Lemmas/GenSweeps.lean", "IsoVerif/Props/C19GenSweeps.lean",
         "IsoVerif/Lemmas/GenBinSearch.lean", "IsoVerif/Props/C19GenBinSearch.lean",
         "IsoVerif/Lemmas/GenTruncate.lean", "IsoVerif/Props/C19GenTruncate.lean"]
TARGETS = ["IsoVerif.Props.C19", "IsoVerif.Props.C19Lists", "IsoVerif.Props.C19Profiles", "IsoVerif.Props.C19Split", "IsoVerif.Props.C19Compose",
           "IsoVerif.Props.C19GenSums", "IsoVerif.Props.C19GenJunctions", "IsoVerif.Props.C19GenSweeps",
           "IsoVerif.Props.C19GenBinSearch", "IsoVerif.Props.C19GenTruncate", "IsoVerif.Props.C19Gen"]
GEN_DEPS = ["Prims", "LoopsRt", "Loops", "LoopsOps"]
LEVEL = "proof"
RULE = ("exhaustive small universes (interval pairs over 0..6 x delta 0..4; sorted disjoint lists of <=3 intervals over "
        "1..8, pairs of them) + seeded random large instances (<=60 intervals, coordinates to 1e9) + a malformed stream; "
        "a case is non-trivial when the model returns a non-error value and model == implementation; distinct by (op, input)")
TRUSTED = ["Gen/Prims.lean and Gen/Loops.lean are syntax-directed translations of src/common.py (cross-checked against the Python "
           "functions each run: harness/gencheck.py, ops Gen.<name>)"]
ASSUMPTIONS = ["CPython int semantics = Lean Int", "float results compared as exact fractions num/den against the model's pair"]


def _impl():
    vlib.repo_on_path()
    import src.common as C
    import src.gene_info as GI
    import src.long_read_profiles as LP
    return C, GI, LP


def frac(x):
    return Fraction(x).limit_denominator(10 ** 12)


def impl_call(op, kw):
    C, GI, LP = _impl()
    t = lambda x: tuple(x)
    tl = lambda l: [tuple(x) for x in l]
    try:
        if op == "cmp":
            return C.cmp(kw["x"], kw["y"])
        if op in ("overlaps", "intersection_len", "left_of", "covers_end", "covers_start", "contains"):
            return getattr(C, op)(t(kw["a"]), t(kw["b"]))
        if op in ("overlap_intervals", "max_range"):
            return list(getattr(C, op)(t(kw["a"]), t(kw["b"])))
        if op in ("overlaps_at_least", "overlaps_at_least_when_overlap", "equal_ranges", "contains_well_inside",
                  "contains_approx"):
            return getattr(C, op)(t(kw["a"]), t(kw["b"]), kw["d"])
        if op == "interval_len":
            return C.interval_len(t(kw["a"]))
        if op == "intervals_total_length":
            return C.intervals_total_length(tl(kw["l"]))
        if op == "sum_intervals_to_point":
            return C.sum_intervals_to_point(tl(kw["l"]), kw["p"])
        if op == "sum_intervals_from_point":
            return C.sum_intervals_from_point(tl(kw["l"]), kw["p"])
        if op == "read_coverage_fraction":
            l1, l2 = tl(kw["l1"]), tl(kw["l2"])
            v = C.read_coverage_fraction(l1, l2)
            den = C.intervals_total_length(l1)
            num = round(v * den)
            if abs(v - num / den) > 1e-9:
                return {"float_mismatch": v}
            return [num, den]
        if op == "jaccard_similarity":
            l1, l2 = tl(kw["l1"]), tl(kw["l2"])
            v = C.jaccard_similarity(l1, l2)
            return {"float": v}
        if op == "merge_ranges":
            return vlib.canon(C.merge_ranges(tl(kw["l1"]), tl(kw["l2"])))
        if op == "extra_exon_percentage":
            l = tl(kw["l"])
            v = C.extra_exon_percentage(t(kw["r"]), l)
            den = sum(e[1] - e[0] + 1 for e in l)
            num = round(v * den)
            if abs(v - num / den) > 1e-9:
                return {"float_mismatch": v}
            return [num, den]
        if op == "junctions_from_blocks":
            return vlib.canon(C.junctions_from_blocks(tl(kw["l"])))
        if op == "get_exons":
            return vlib.canon(C.get_exons(t(kw["r"]), tl(kw["l"])))
        if op == "get_exon":
            return vlib.canon(C.get_exon(t(kw["r"]), tl(kw["l"]), kw["i"]))
        if op == "get_following_exon":
            return vlib.canon(C.get_following_exon_from_junctions(t(kw["r"]), tl(kw["l"]), kw["i"]))
        if op == "get_preceding_exon":
            return vlib.canon(C.get_preceding_exon_from_junctions(t(kw["r"]), tl(kw["l"]), kw["i"]))
        if op == "truncate_read_to_polya":
            return vlib.canon(C.truncate_read_to_polya(tl(kw["l"]), kw["a"], kw["t"]))
        if op == "interval_bin_search":
            return C.interval_bin_search(tl(kw["l"]), kw["p"])
        if op == "interval_bin_search_rev":
            return C.interval_bin_search_rev(tl(kw["l"]), kw["p"])
        if op == "split_exons":
            return vlib.canon(GI.GeneInfo.split_exons(tl(kw["l"])))
        if op == "isoform_profile":
            return _impl_isoform_profile(kw)
        if op == "overlapping_profile":
            return _impl_overlapping_profile(kw)
        if op == "nonoverlapping_profile":
            return _impl_nonoverlapping_profile(kw)
    except (IndexError, AssertionError, ZeroDivisionError, KeyError, ValueError, TypeError) as ex:
        return {"error": "error", "exc": type(ex).__name__}
    raise RuntimeError("unknown op " + op)


def _cmp_fn(kind, d):
    C, GI, LP = _impl()
    from functools import partial
    if kind == "equal":
        return partial(C.equal_ranges, delta=d)
    if kind == "contains":
        return lambda f, k: C.contains(k, f)   # split-exon profiles: comparator(feature, known) = contains(feature, known)? see set_profiles use
    raise ValueError(kind)


def _impl_isoform_profile(kw):
    C, GI, LP = _impl()
    fp = GI.FeatureProfiles()
    fp.set_features([tuple(x) for x in kw["features"]])
    if kw["cmp"] == "equal":
        from functools import partial
        comparator = partial(C.equal_ranges, delta=0)
    else:
        comparator = C.contains
    fp.set_profiles("t", [tuple(x) for x in kw["tf"]], tuple(kw["region"]), comparator)
    return {"profile": fp.profiles["t"], "range": list(fp.profile_ranges["t"])}


def _impl_overlapping_profile(kw):
    C, GI, LP = _impl()
    from functools import partial
    d = kw["d"]
    if kw["kind"] == "intron":
        c = LP.OverlappingFeaturesProfileConstructor([tuple(x) for x in kw["known"]], tuple(kw["gene_region"]),
                                                     comparator=partial(C.equal_ranges, delta=d),
                                                     absence_condition=partial(C.overlaps_at_least, delta=kw["abs_d"]),
                                                     delta=d)
    else:
        c = LP.OverlappingFeaturesProfileConstructor([tuple(x) for x in kw["known"]], tuple(kw["gene_region"]),
                                                     comparator=partial(C.equal_ranges, delta=d), delta=d)
    r = c.construct_profile_for_features([tuple(x) for x in kw["read"]], tuple(kw["mapped"]), kw["polya"], kw["polyt"])
    return {"gene": r.gene_profile, "read": r.read_profile, "range": list(r.gene_profile_range)}


def _impl_nonoverlapping_profile(kw):
    C, GI, LP = _impl()
    from functools import partial
    c = LP.NonOverlappingFeaturesProfileConstructor([tuple(x) for x in kw["known"]],
                                                    comparator=partial(C.overlaps_at_least_when_overlap, delta=kw["min_ov"]),
                                                    delta=kw["d"])
    r = c.construct_profile([tuple(x) for x in kw["read"]], kw["polya"], kw["polyt"])
    return {"gene": r.gene_profile, "read": r.read_profile, "range": list(r.gene_profile_range)}


def _same_special(op, mo, io):
    """float-valued ops: the model returns an exact pair"""
    if op == "jaccard_similarity" and isinstance(io, dict) and "float" in io and isinstance(mo, list):
        return abs(io["float"] - mo[0] / mo[1]) < 1e-9
    return None


def gen_cases(ctx, have_ops):
    rng = ctx.rng
    quick = ctx.tier == "quick"
    cases = []
    # --- primitives: exhaustive pairs over 0..U x deltas
    U = 5 if quick else 7
    ivs = [(a, b) for a in range(U + 1) for b in range(a, U + 1)]
    two = ["overlaps", "intersection_len", "left_of", "covers_end", "covers_start", "contains", "overlap_intervals",
           "max_range"]
    three = ["overlaps_at_least", "overlaps_at_least_when_overlap", "equal_ranges", "contains_well_inside",
             "contains_approx"]
    for a in ivs:
        for b in ivs:
            for op in two:
                cases.append((op, {"a": a, "b": b}))
            for d in range(0, 4):
                for op in three:
                    cases.append((op, {"a": a, "b": b, "d": d}))
    for x in range(-2, 3):
        for y in range(-2, 3):
            cases.append(("cmp", {"x": x, "y": y}))
    for _ in range(300):   # malformed / large
        a = G.rand_iv(rng, 10 ** 9, wf=rng.random() < 0.7)
        b = G.rand_iv(rng, 10 ** 9, wf=rng.random() < 0.7)
        d = rng.choice([0, 1, 6, 12, 20, 10 ** 6])
        for op in two:
            cases.append((op, {"a": a, "b": b}))
        for op in three:
            cases.append((op, {"a": a, "b": b, "d": d}))
    # --- list functions
    UL = 7 if quick else 9
    lists = G.all_sd_lists(UL, 3)
    ctx.extra["sd_lists_universe"] = {"max_coord": UL, "max_len": 3, "count": len(lists)}
    for l in lists:
        cases.append(("intervals_total_length", {"l": l}))
        cases.append(("junctions_from_blocks", {"l": l}))
        for p in range(0, UL + 2):
            cases.append(("sum_intervals_to_point", {"l": l, "p": p}))
            cases.append(("sum_intervals_from_point", {"l": l, "p": p}))
            cases.append(("interval_bin_search", {"l": l, "p": p}))
            cases.append(("interval_bin_search_rev", {"l": l, "p": p}))
        if l:
            for a in [-1] + list(range(0, UL + 2)):
                for t_ in [-1] + list(range(0, UL + 2)):
                    if rng.random() < (0.15 if quick else 0.5):
                        cases.append(("truncate_read_to_polya", {"l": l, "a": a, "t": t_}))
    pairs = list(itertools.product(lists, lists))
    if quick:
        pairs = rng.sample(pairs, min(len(pairs), 6000))
    for l1, l2 in pairs:
        cases.append(("read_coverage_fraction", {"l1": l1, "l2": l2}))
        cases.append(("jaccard_similarity", {"l1": l1, "l2": l2}))
        cases.append(("merge_ranges", {"l1": l1, "l2": l2}))
    # get_exons / get_exon / preceding / following on intron lists inside a region
    for l in lists:
        if not l:
            continue
        reg = (l[0][0] - rng.randint(1, 3), l[-1][1] + rng.randint(1, 3))
        cases.append(("get_exons", {"r": reg, "l": l}))
        cases.append(("extra_exon_percentage", {"r": (rng.randint(0, UL), rng.randint(0, UL) + 3), "l": l}))
        for i in range(-len(l) - 2, len(l) + 2):
            cases.append(("get_exon", {"r": reg, "l": l, "i": i}))
            cases.append(("get_following_exon", {"r": reg, "l": l, "i": i}))
            cases.append(("get_preceding_exon", {"r": reg, "l": l, "i": i}))
    # random large
    for _ in range(150 if quick else 1500):
        l1 = G.rand_sd_list(rng, rng.randint(1, 60), 10 ** 9)
        l2 = G.rand_sd_list(rng, rng.randint(1, 60), 10 ** 9) if rng.random() < 0.5 else G.perturb(rng, l1)
        p = G.rand_point(rng, l1)
        cases += [("read_coverage_fraction", {"l1": l1, "l2": l2}), ("jaccard_similarity", {"l1": l1, "l2": l2}),
                  ("merge_ranges", {"l1": l1, "l2": l2}), ("sum_intervals_to_point", {"l": l1, "p": p}),
                  ("sum_intervals_from_point", {"l": l1, "p": p}), ("interval_bin_search", {"l": l1, "p": p}),
                  ("interval_bin_search_rev", {"l": l1, "p": p}), ("junctions_from_blocks", {"l": l1}),
                  ("intervals_total_length", {"l": l1}),
                  ("truncate_read_to_polya", {"l": l1, "a": rng.choice([-1, p]), "t": rng.choice([-1, G.rand_point(rng, l1)])})]
    # empty-list error stream
    for op in ["sum_intervals_to_point", "sum_intervals_from_point", "interval_bin_search", "interval_bin_search_rev"]:
        cases.append((op, {"l": [], "p": 3}))
    cases.append(("truncate_read_to_polya", {"l": [], "a": -1, "t": -1}))
    cases.append(("read_coverage_fraction", {"l1": [], "l2": [(1, 2)]}))
    cases.append(("jaccard_similarity", {"l1": [], "l2": []}))
    cases.append(("merge_ranges", {"l1": [], "l2": []}))
    # --- split_exons, profiles (ops exist once the model has them)
    if "split_exons" in have_ops:
        for ex in G.all_exon_sets(6 if quick else 7, 3):
            cases.append(("split_exons", {"l": ex}))
        for _ in range(200 if quick else 2000):
            cases.append(("split_exons", {"l": G.rand_exon_set(rng, rng.randint(1, 30), 10 ** 6)}))
    if "isoform_profile" in have_ops:
        cases += G.isoform_profile_cases(rng, quick)
    if "overlapping_profile" in have_ops:
        cases += G.overlapping_profile_cases(rng, quick)
    if "nonoverlapping_profile" in have_ops:
        cases += G.nonoverlapping_profile_cases(rng, quick)
    return cases


def model_ops(ctx):
    """which C19 ops the driver knows (probe with a cheap request each)"""
    probes = {"split_exons": {"l": [[1, 2]]},
              "isoform_profile": {"features": [[1, 2]], "tf": [[1, 2]], "region": [1, 2], "cmp": "equal"},
              "overlapping_profile": {"kind": "exon", "known": [[1, 2]], "gene_region": [1, 2], "read": [[1, 2]],
                                      "mapped": [1, 2], "polya": -1, "polyt": -1, "d": 0, "abs_d": 0},
              "nonoverlapping_profile": {"known": [[1, 2]], "read": [[1, 2]], "polya": -1, "polyt": -1, "d": 0, "min_ov": 1}}
    outs = ctx.driver.run([vlib.req("C19." + k, **v) for k, v in probes.items()])
    return {k for k, o in zip(probes, outs) if not (isinstance(o, dict) and "driver_error" in o)}


def correspondence(ctx):
    # translator self-check of the regenerated loop functions (run by vcheck just before; statistics into the evidence)
    try:
        import gencheck
        st = {k: v for k, v in gencheck.LOOP_STATS.get("functions", {}).items()
              if k not in ("get_read_blocks", "concat_gapless_blocks")}
        ctx.extra["gen_loops_selfcheck"] = st
        for name, v in st.items():
            ctx.hist["genloop:%s" % name] = v["cases"]
            ctx.evaluations += v["cases"]
            ctx.traces_validated += v["cases"]
    except Exception:
        pass
    have = model_ops(ctx)
    ctx.extra["model_ops_optional"] = sorted(have)
    cases = gen_cases(ctx, have)
    lines = [vlib.req("C19." + op, **kw) for op, kw in cases]
    outs = ctx.driver.run(lines)
    for (op, kw), mo in zip(cases, outs):
        ctx.evaluations += 1
        ctx.count("op:" + op)
        if isinstance(mo, dict) and "driver_error" in mo:
            ctx.disagree(op, kw, mo, None)
            continue
        io = impl_call(op, kw)
        io = vlib.canon(io)
        ctx.traces_validated += 1
        sp = _same_special(op, mo, io)
        ok = sp if sp is not None else vlib.same(mo, io)
        if vlib.is_err(mo):
            ctx.count("model_error")
            # Python silently wraps negative indices where the model flags an error: only a tie on
            # well-formed inputs matters (the theorems exclude the error there)
            if not vlib.is_err(io) and op in ("interval_bin_search", "interval_bin_search_rev") and not G.is_sd(kw["l"]):
                ctx.count("skipped_malformed_binsearch")
                continue
        if not ok:
            ctx.disagree(op, kw, mo, io)
        elif not vlib.is_err(mo):
            ctx.mark_nontrivial([op, kw])
        if len(ctx.samples) < 6 and ctx.rng.random() < 0.001:
            ctx.sample({"op": op, "input": vlib.canon(kw), "model": mo, "impl": io})
    if not ctx.samples and cases:
        ctx.sample({"op": cases[0][0], "input": vlib.canon(cases[0][1]), "model": outs[0]})
    # glue: GeneInfo built from a gffutils database with a non-zero delta (as the pipeline does)
    annots = gene_profile_annotations(ctx.rng, 60 if ctx.tier == "quick" else 600)
    for tr, delta in annots:
        fails, reqs, exps = gene_profile_case(ctx, tr, delta)
        mouts = ctx.driver.run(reqs)
        for (kind, t_id, got), mo in zip(exps, mouts):
            ctx.evaluations += 1
            ctx.traces_validated += 1
            ctx.count("op:gene_profile_" + kind)
            if isinstance(mo, dict) and mo.get("profile") == got:
                ctx.mark_nontrivial(["gene_profile", kind, t_id, sorted(tr.items()), delta])
            else:
                ctx.disagree("gene_profile_" + kind, {"transcripts": tr, "delta": delta, "t": t_id}, mo, got)



# ------------------------------------------------------------------------------------------------
# glue: isoform profiles as the pipeline builds them (GeneInfo from a gffutils db with the data-type delta)

def _make_db(transcripts, strand="+"):
    import gffutils
    lines = []
    gstart = min(e[0][0] for e in transcripts.values())
    gend = max(e[-1][1] for e in transcripts.values())
    lines.append('chr1\tsyn\tgene\t%d\t%d\t.\t%s\t.\tgene_id "G1";' % (gstart, gend, strand))
    for t_id, exons in transcripts.items():
        lines.append('chr1\tsyn\ttranscript\t%d\t%d\t.\t%s\t.\tgene_id "G1"; transcript_id "%s";'
                     % (exons[0][0], exons[-1][1], strand, t_id))
        for e in exons:
            lines.append('chr1\tsyn\texon\t%d\t%d\t.\t%s\t.\tgene_id "G1"; transcript_id "%s";' % (e[0], e[1], strand, t_id))
    return gffutils.create_db("\n".join(lines) + "\n", ":memory:", from_string=True, force=True, keep_order=True,
                              merge_strategy='error', sort_attribute_values=True,
                              disable_infer_transcripts=True, disable_infer_genes=True)


def gene_profile_annotations(rng, n):
    """isoform sets of one gene whose alternative splice sites differ by a few bases (<= the data-type deltas)"""
    res = []
    for _ in range(n):
        base = 1000 * rng.randint(1, 50)
        nex = rng.randint(2, 5)
        exons = []
        p = base
        for _ in range(nex):
            ln = rng.randint(30, 200)
            exons.append((p, p + ln))
            p += ln + rng.randint(60, 400)
        tr = {"T1": exons}
        for k in range(2, rng.randint(3, 5)):
            e2 = []
            for (a, b) in exons:
                if rng.random() < 0.15 and len(exons) > 2:
                    continue
                e2.append((a + rng.choice([0, 0, 0, 1, 3, -2, 5, -6, 12]), b + rng.choice([0, 0, 0, 1, -3, 2, 4, -5, 9])))
            e2 = [e for e in e2 if e[0] <= e[1]]
            ok = len(e2) >= 1 and all(e2[i][1] + 1 < e2[i + 1][0] for i in range(len(e2) - 1))
            if ok and e2 not in tr.values():
                tr["T%d" % k] = e2
        res.append((tr, rng.choice([0, 3, 4, 6, 12])))
    return res


def gene_profile_case(ctx, transcripts, delta):
    """returns (failures, disagreements) for one annotation: real GeneInfo profiles vs set definition and vs the model"""
    C, GI, LP = _impl()
    db = _make_db(transcripts)
    gi = GI.GeneInfo([db["G1"]], db, delta)
    fails, reqs, exps = [], [], []
    for kind, prof, cmpname in (("intron", gi.intron_profiles, "equal"), ("exon", gi.exon_profiles, "equal"),
                                ("split", gi.split_exon_profiles, "contains")):
        feats = [tuple(f) for f in prof.features]
        for t_id, exons in transcripts.items():
            exons = [tuple(e) for e in exons]
            own = exons if kind != "intron" else [(exons[i][1] + 1, exons[i + 1][0] - 1) for i in range(len(exons) - 1)]
            region = (exons[0][0], exons[-1][1])
            got = list(prof.profiles[t_id])
            exp = []
            for f in feats:
                if f[1] < region[0] or f[0] > region[1]:
                    exp.append(-2)
                elif kind == "split":
                    exp.append(1 if any(e[0] <= f[0] and f[1] <= e[1] for e in exons) else -1)
                else:
                    exp.append(1 if f in own else -1)
            if got != exp:
                fails.append({"kind": kind, "transcript": t_id, "features": feats, "own": own, "delta": delta,
                              "got": got, "expected": exp})
            reqs.append(vlib.req("C19.isoform_profile", features=feats, tf=own, region=region, cmp=cmpname))
            exps.append((kind, t_id, got))
    return fails, reqs, exps


# ------------------------------------------------------------------------------------------------
# oracle: the property itself on the real code (position-set recomputation)

def posset(l):
    s = set()
    for a, b in l:
        s.update(range(a, b + 1))
    return s


def oracle_case(op, kw):
    """returns None if the real function agrees with the position-set definition, else a detail string"""
    C, GI, LP = _impl()
    t = lambda x: tuple(x)
    tl = lambda l: [tuple(x) for x in l]
    try:
        if op in ("overlaps", "contains", "left_of", "intersection_len", "overlap_intervals"):
            a, b = t(kw["a"]), t(kw["b"])
            if a[0] > a[1] or b[0] > b[1] or a[1] - a[0] > 10 ** 4 or b[1] - b[0] > 10 ** 4:
                return None
            A, B = posset([a]), posset([b])
            got = getattr(C, op)(a, b)
            exp = {"overlaps": bool(A & B), "contains": B <= A, "left_of": max(A) < min(B),
                   "intersection_len": len(A & B),
                   "overlap_intervals": (min(A & B), max(A & B)) if A & B else None}[op]
            if op == "overlap_intervals":
                if exp is None:
                    return None if got[0] > got[1] else "expected empty, got %s" % (got,)
            return None if got == exp else "expected %s got %s" % (exp, got)
        if op in ("equal_ranges", "contains_approx", "contains_well_inside"):
            a, b, d = t(kw["a"]), t(kw["b"]), kw["d"]
            got = getattr(C, op)(a, b, d)
            exp = {"equal_ranges": abs(a[0] - b[0]) <= d and abs(a[1] - b[1]) <= d,
                   "contains_approx": a[0] - d <= b[0] and b[1] <= a[1] + d,
                   "contains_well_inside": a[0] <= b[0] - d and b[1] + d <= a[1]}[op]
            return None if got == exp else "expected %s got %s" % (exp, got)
        if op in ("read_coverage_fraction", "jaccard_similarity", "merge_ranges"):
            l1, l2 = tl(kw["l1"]), tl(kw["l2"])
            if not (G.is_sd(l1) and G.is_sd(l2) and l1 and l2) or G.span(l1) > 10 ** 5 or G.span(l2) > 10 ** 5:
                return None
            A, B = posset(l1), posset(l2)
            if op == "read_coverage_fraction":
                got = C.read_coverage_fraction(l1, l2)
                exp = len(A & B) / len(A)
                return None if abs(got - exp) < 1e-9 else "expected %s got %s" % (exp, got)
            if op == "jaccard_similarity":
                got = C.jaccard_similarity(l1, l2)
                exp = len(A & B) / len(A | B)
                return None if abs(got - exp) < 1e-9 else "expected %s got %s" % (exp, got)
            got = C.merge_ranges(l1, l2)
            if posset(got) != (A | B):
                return "union differs: %s" % (got,)
            if got != sorted(got):
                return "unsorted: %s" % (got,)
            return None
        if op in ("sum_intervals_to_point", "sum_intervals_from_point", "intervals_total_length"):
            l = tl(kw["l"])
            if not (G.is_sd(l) and l) or G.span(l) > 10 ** 5:
                return None
            A = posset(l)
            if op == "intervals_total_length":
                got, exp = C.intervals_total_length(l), len(A)
            elif op == "sum_intervals_to_point":
                got, exp = C.sum_intervals_to_point(l, kw["p"]), len([q for q in A if q < kw["p"]])
            else:
                got, exp = C.sum_intervals_from_point(l, kw["p"]), len([q for q in A if q > kw["p"]])
            return None if got == exp else "expected %s got %s" % (exp, got)
        if op in ("interval_bin_search", "interval_bin_search_rev"):
            l = tl(kw["l"])
            p = kw["p"]
            if not (G.is_sd(l) and l):
                return None
            got = getattr(C, op)(l, p)
            if p < l[0][0] or p > l[-1][1]:
                exp = -1
            elif op == "interval_bin_search":
                exp = max(i for i in range(len(l)) if l[i][0] <= p)
            else:
                exp = min(i for i in range(len(l)) if p <= l[i][1])
            return None if got == exp else "expected %s got %s" % (exp, got)
        if op == "junctions_from_blocks":
            l = tl(kw["l"])
            if not (G.is_sd(l) and l) or G.span(l) > 10 ** 5:
                return None
            got = C.junctions_from_blocks(l)
            gaps = set(range(l[0][0], l[-1][1] + 1)) - posset(l)
            return None if posset(got) == gaps and G.is_sd(got) and all(a <= b for a, b in got) else "gaps differ: %s" % (got,)
        if op == "get_exons":
            l = tl(kw["l"])
            r = t(kw["r"])
            if not (G.is_sd(l) and l) or not (r[0] < l[0][0] and l[-1][1] < r[1]) or r[1] - r[0] > 10 ** 5:
                return None
            if any(l[i][1] + 1 >= l[i + 1][0] for i in range(len(l) - 1)):
                return None
            got = C.get_exons(r, l)
            exp = set(range(r[0], r[1] + 1)) - posset(l)
            if posset(got) != exp:
                return "exons differ: %s" % (got,)
            return None if C.junctions_from_blocks(got) == l else "junctions(exons) != introns"
        if op == "split_exons":
            ex = tl(kw["l"])
            if not ex or any(a > b or a < 1 for a, b in ex) or max(b for _, b in ex) - min(a for a, _ in ex) > 10 ** 5:
                return None
            got = GI.GeneInfo.split_exons(ex)
            if posset(got) != posset(ex):
                return "cover differs: %s" % (got,)
            if not G.is_sd(got):
                return "blocks not sorted/disjoint: %s" % (got,)
            for blk in got:
                for e in ex:
                    if C.overlaps(blk, e) and not C.contains(e, blk):
                        return "block %s straddles exon %s" % (blk, e)
            return None
        if op == "truncate_read_to_polya":
            l = tl(kw["l"])
            a, tt = kw["a"], kw["t"]
            if not (G.is_sd(l) and l) or G.span(l) > 10 ** 5:
                return None
            # domain: a tail position lies inside the read span; (dead code in the pipeline: only identity and
            # single-sided truncation are checked)
            if (a != -1 and tt != -1) or (a != -1 and not l[0][0] < a <= l[-1][1]) or (tt != -1 and not l[0][0] <= tt < l[-1][1]):
                return None
            got = C.truncate_read_to_polya(l, a, tt)
            if a == -1 and tt == -1:
                return None if got == l else "not identity"
            lo = tt if tt != -1 else l[0][0]
            hi = a if a != -1 else l[-1][1]
            exp = {q for q in posset(l) if lo <= q <= hi} | {lo, hi}
            gp = posset(got)
            if not (exp <= gp and min(gp) == lo and max(gp) == hi):
                return "truncation differs: %s" % (got,)
            return None
    except (IndexError, AssertionError, ZeroDivisionError) as ex:
        return "exception %s" % type(ex).__name__
    return None


def read_profile_statement(ctx):
    """the last sentence of C19 on the REAL constructors: "read profiles mark a feature present iff a read feature matches it
    within delta and absent iff the read spans it without matching".  The exact expectation for ALL inputs and the class
    predicate of the known finding `micro_feature_sweep_skip` (features shorter than delta+1 / read features <= delta apart:
    the sweep never compares the pair) are C13's (`props/C13.py` `oracle_profile`, `expected_values`, `micro_class`) - C13 reads
    the same profiles as include / exclude counts.  A deviation inside the class is reported under that kind (listed for C19
    too), a deviation outside it as `read_profile_mismatch`; the tie-loser reading of DESIGN §6 is C13's `tie_loser_exon`."""
    from props import C13
    from gen import c13_features as G13
    rng = ctx.rng
    n_cases = n_class = 0
    kept = {}
    cases = [(w["op"], {"known": w["known"], "gene_region": w["gene_region"], "d": w["d"], "abs_d": w.get("abs_d", 20),
                        "blocks": w["blocks"], "polya": -1, "polyt": -1}) for w in C13.MICRO_WITNESSES]
    gen = getattr(G13, "profile_cases", None)
    if gen is not None:
        try:
            cases += [(op, kw) for op, kw in gen(rng, ctx.tier == "quick")][: (1500 if ctx.tier == "quick" else 15000)]
        except TypeError:
            pass
    for op, kw in cases:
        if op not in ("exon_profile", "intron_profile"):
            continue
        n_cases += 1
        for kind, detail in C13.oracle_profile(op, kw):
            if kind == "micro_feature_sweep_skip":
                n_class += 1
            k = kind if kind in ("micro_feature_sweep_skip", "tie_loser_exon") else "read_profile_mismatch:" + kind
            kept[k] = kept.get(k, 0) + 1
            if kept[k] <= 3 and kind != "tie_loser_exon":
                ctx.fail(k, {"op": "read_profile", "args": {"op": op, "case": vlib.canon(kw)}}, detail)
    ctx.extra["read_profile_statement"] = {"cases": n_cases, "in_class_micro_feature_sweep_skip": n_class, "kinds": kept}


def oracle(ctx, disagreements, broken):
    # seeded with the disagreeing inputs first
    n = 0
    for d in disagreements:
        r = oracle_case(d["op"], d["input"])
        n += 1
        if r:
            ctx.fail("set_semantics:" + d["op"], {"op": d["op"], "args": d["input"]}, r)
    # then the normal generator (independent of the driver)
    cases = gen_cases(ctx, {"split_exons"})
    if ctx.tier == "quick" and not broken:
        cases = ctx.rng.sample(cases, min(len(cases), 30000))
    for op, kw in cases:
        r = oracle_case(op, kw)
        n += 1
        if r:
            ctx.fail("set_semantics:" + op, {"op": op, "args": kw}, r)
            if len(ctx.failures) > 20:
                break
    for tr, delta in gene_profile_annotations(ctx.rng, 80 if ctx.tier == "quick" else 800):
        fails, _, _ = gene_profile_case(ctx, tr, delta)
        n += 1
        for f in fails[:2]:
            ctx.fail("isoform_profile_glue:" + f["kind"], {"op": "gene_profile", "args": {"transcripts": tr, "delta": delta}},
                     "isoform %s %s profile %s, expected %s (features %s)" % (f["transcript"], f["kind"], f["got"], f["expected"], f["features"]))
    ctx.extra["oracle_cases"] = n
    read_profile_statement(ctx)
    binsearch_pipeline_monitor(ctx)


# ---- hypothesis audit C19-G1: the argument lists of the two binary searches on every real call of the pipeline
#      (discharged for the only caller by Props/C19Compose.lean; watched here so that a second caller, or a caller that
#      passes another feature list, is noticed)

def binsearch_run(kind, seed):
    """one real pipeline run under harness/mon_wrap.py (`binsearch`) -> (status, calls, [violation records])"""
    import shutil
    import pipeline as P
    import mon_wrap
    d = P.scratch("isoverif_c19bs_")
    try:
        if kind == "toy":
            paths = P.copy_toy(os.path.join(d, "data"))
        else:
            from gen import synth
            paths = synth.simple_dataset(seed=seed, n_chroms=1, genes_per_chrom=4, reads_per_tx=6, polya=True).write(os.path.join(d, "data"))
        if "bam" not in paths:
            return "infra: no input data", 0, []
        mon = os.path.join(d, "mon.jsonl")
        rc, log = P.run_isoquant(os.path.join(d, "out"), P.std_args(paths, threads=2),
                                 wrapper=os.path.join(vlib.HERE, "mon_wrap.py"), env={"MON_FILE": mon, "MON_SET": "binsearch"})
        calls, viol = mon_wrap.read_monitor(mon)
        if rc != 0 and not viol:
            return "infra: rc=%s %s" % (rc, log[-300:]), calls.get("binsearch", 0), []
        return "ok", calls.get("binsearch", 0), viol
    finally:
        shutil.rmtree(d, ignore_errors=True)


def binsearch_pipeline_monitor(ctx):
    import mon_wrap
    want = {(): ["binsearch_empty_list"], ((1, 5), (6, 6), (10, 12)): [],
            ((100, 300), (100, 200), (150, 250)): ["binsearch_starts_not_strict", "binsearch_ends_not_strict"],
            ((1, 5), (8, 7)): ["binsearch_interval_not_wf"]}
    for l, w in want.items():
        got = mon_wrap.binsearch_problems(list(l))
        if got != w:
            ctx.fail("monitor_selftest", {"op": "monitor_selftest", "args": {"list": [list(x) for x in l]}},
                     "binsearch_problems gives %s, expected %s" % (got, w))
    plan = [("toy", 0), ("synth", ctx.seed % 1000 + 1)] + ([] if ctx.tier == "quick" else [("synth", ctx.seed % 1000 + k) for k in (2, 3, 4)])
    total = 0
    for kind, seed in plan:
        st, calls, viol = binsearch_run(kind, seed)
        total += calls
        ctx.count("binsearch_pipeline:%s:calls" % kind, calls)
        if st != "ok":
            ctx.notes.append("binsearch pipeline monitor (%s, %s): %s" % (kind, seed, st))
            continue
        seen = set()
        for r in viol:
            if r.get("kind") in seen:
                continue
            seen.add(r.get("kind"))
            ctx.fail("hyp_" + str(r.get("kind")), {"op": "binsearch_pipeline", "args": {"data": kind, "seed": seed}},
                     "hypothesis of bin_search_spec / bin_search_rev_spec violated by a real caller: %s"
                     % {k: v for k, v in r.items() if k != "mon"})
    ctx.extra["binsearch_pipeline_monitor"] = {"runs": len(plan), "calls": total,
                                               "what": "interval_bin_search(_rev) argument lists: non-empty, well formed, starts and "
                                                       "ends strictly increasing, on every real call (harness/mon_wrap.py)"}
    if not total:
        ctx.notes.append("binsearch pipeline monitor: no call of interval_bin_search(_rev) was observed")


def replay(ctx, failure):
    inp = failure["input"]
    if inp["op"] == "monitor_selftest":
        return True
    if inp["op"] == "binsearch_pipeline":
        st, _, viol = binsearch_run(inp["args"]["data"], inp["args"]["seed"])
        return any("hyp_" + str(r.get("kind")) == failure["kind"] for r in viol)
    if inp["op"] == "read_profile":
        from props import C13
        a = inp["args"]
        return bool(C13.oracle_profile(a["op"], a["case"]))
    if inp["op"] == "gene_profile":
        tr = {k: [tuple(e) for e in v] for k, v in inp["args"]["transcripts"].items()}
        fails, _, _ = gene_profile_case(ctx, tr, inp["args"]["delta"])
        return bool(fails)
    return oracle_case(inp["op"], inp["args"]) is not None
