"""C19 — interval and profile primitives return exactly the set-theoretic result."""
import itertools
import os
from fractions import Fraction

import vlib
from gen import intervals as G

ID = "C19"
PROPS = ["IsoVerif/Props/C19.lean", "IsoVerif/Props/C19Lists.lean", "IsoVerif/Props/C19Profiles.lean",
         "IsoVerif/Props/C19Split.lean", "IsoVerif/Props/C19Compose.lean",
         # audit-2: split-exon read profile (exact spec), guards of the call sites that pass derived lists
         "IsoVerif/Lemmas/C19NoSweep.lean", "IsoVerif/Props/C19NonOverlapping.lean", "IsoVerif/Props/C19Callers.lean",
         # loop functions regenerated from the source (Gen/Loops.lean): refinement theorems Gen.f = Model.f and the headline
         # theorems over Gen.f, one file per group of functions; the loop-invariant lemmas are audited too so that a re-opened
         # proof is named precisely and takes down only its own group
         "IsoVerif/Lemmas/GenBase.lean",
         "IsoVerif/Lemmas/GenSums.lean", "IsoVerif/Props/C19GenSums.lean",
         "IsoVerif/Lemmas/GenJunctions.lean", "IsoVerif/Props/C19GenJunctions.lean",
         "IsoVerif/Lemmas/GenSweeps.lean", "IsoVerif/Props/C19GenSweeps.lean",
         "IsoVerif/Lemmas/GenBinSearch.lean", "IsoVerif/Props/C19GenBinSearch.lean",
         "IsoVerif/Lemmas/GenTruncate.lean", "IsoVerif/Props/C19GenTruncate.lean"]
TARGETS = ["IsoVerif.Props.C19", "IsoVerif.Props.C19Lists", "IsoVerif.Props.C19Profiles", "IsoVerif.Props.C19Split", "IsoVerif.Props.C19Compose",
           "IsoVerif.Props.C19NonOverlapping", "IsoVerif.Props.C19Callers",
           "IsoVerif.Props.C19GenSums", "IsoVerif.Props.C19GenJunctions", "IsoVerif.Props.C19GenSweeps",
           "IsoVerif.Props.C19GenBinSearch", "IsoVerif.Props.C19GenTruncate", "IsoVerif.Props.C19Gen"]
GEN_DEPS = ["Prims", "LoopsRt", "Loops", "LoopsOps"]
LEVEL = "proof"
RULE = ("exhaustive small universes (interval pairs over 0..6 x delta 0..4; sorted disjoint lists of <=3 intervals over "
        "1..8, pairs of them) + seeded random large instances (<=60 intervals, coordinates to 1e9) + a malformed stream; "
        "a case is non-trivial when the model returns a non-error value and model == implementation; distinct by (op, input)")
TRUSTED = ["Gen/Prims.lean and Gen/Loops.lean are syntax-directed translations of src/common.py (cross-checked against the Python "
           "functions each run: harness/gencheck.py, ops Gen.<name>)"]
ASSUMPTIONS = ["CPython int semantics = Lean Int", "float results compared as exact fractions num/den against the model's pair"]


def _impl():
    vlib.repo_on_path()
    import src.common as C
    import src.gene_info as GI
    import src.long_read_profiles as LP
    return C, GI, LP


def frac(x):
    return Fraction(x).limit_denominator(10 ** 12)


def impl_call(op, kw):
    C, GI, LP = _impl()
    t = lambda x: tuple(x)
    tl = lambda l: [tuple(x) for x in l]
    try:
        if op == "cmp":
            return C.cmp(kw["x"], kw["y"])
        if op in ("overlaps", "intersection_len", "left_of", "covers_end", "covers_start", "contains"):
            return getattr(C, op)(t(kw["a"]), t(kw["b"]))
        if op in ("overlap_intervals", "max_range"):
            return list(getattr(C, op)(t(kw["a"]), t(kw["b"])))
        if op in ("overlaps_at_least", "overlaps_at_least_when_overlap", "equal_ranges", "contains_well_inside",
                  "contains_approx"):
            return getattr(C, op)(t(kw["a"]), t(kw["b"]), kw["d"])
        if op == "interval_len":
            return C.interval_len(t(kw["a"]))
        if op == "intervals_total_length":
            return C.intervals_total_length(tl(kw["l"]))
        if op == "sum_intervals_to_point":
            return C.sum_intervals_to_point(tl(kw["l"]), kw["p"])
        if op == "sum_intervals_from_point":
            return C.sum_intervals_from_point(tl(kw["l"]), kw["p"])
        if op == "read_coverage_fraction":
            l1, l2 = tl(kw["l1"]), tl(kw["l2"])
            v = C.read_coverage_fraction(l1, l2)
            den = C.intervals_total_length(l1)
            num = round(v * den)
            if abs(v - num / den) > 1e-9:
                return {"float_mismatch": v}
            return [num, den]
        if op == "jaccard_similarity":
            l1, l2 = tl(kw["l1"]), tl(kw["l2"])
            v = C.jaccard_similarity(l1, l2)
            return {"float": v}
        if op == "merge_ranges":
            return vlib.canon(C.merge_ranges(tl(kw["l1"]), tl(kw["l2"])))
        if op == "extra_exon_percentage":
            l = tl(kw["l"])
            v = C.extra_exon_percentage(t(kw["r"]), l)
            den = sum(e[1] - e[0] + 1 for e in l)
            num = round(v * den)
            if abs(v - num / den) > 1e-9:
                return {"float_mismatch": v}
            return [num, den]
        if op == "junctions_from_blocks":
            return vlib.canon(C.junctions_from_blocks(tl(kw["l"])))
        if op == "get_exons":
            return vlib.canon(C.get_exons(t(kw["r"]), tl(kw["l"])))
        if op == "get_exon":
            return vlib.canon(C.get_exon(t(kw["r"]), tl(kw["l"]), kw["i"]))
        if op == "get_following_exon":
            return vlib.canon(C.get_following_exon_from_junctions(t(kw["r"]), tl(kw["l"]), kw["i"]))
        if op == "get_preceding_exon":
            return vlib.canon(C.get_preceding_exon_from_junctions(t(kw["r"]), tl(kw["l"]), kw["i"]))
        if op == "truncate_read_to_polya":
            return vlib.canon(C.truncate_read_to_polya(tl(kw["l"]), kw["a"], kw["t"]))
        if op == "interval_bin_search":
            return C.interval_bin_search(tl(kw["l"]), kw["p"])
        if op == "interval_bin_search_rev":
            return C.interval_bin_search_rev(tl(kw["l"]), kw["p"])
        if op == "split_exons":
            return vlib.canon(GI.GeneInfo.split_exons(tl(kw["l"])))
        if op == "isoform_profile":
            return _impl_isoform_profile(kw)
        if op == "overlapping_profile":
            return _impl_overlapping_profile(kw)
        if op == "nonoverlapping_profile":
            return _impl_nonoverlapping_profile(kw)
        if op == "corrector_guard":
            return _impl_corrector_guard(kw)
    except (IndexError, AssertionError, ZeroDivisionError, KeyError, ValueError, TypeError) as ex:
        return {"error": "error", "exc": type(ex).__name__}
    raise RuntimeError("unknown op " + op)


def _cmp_fn(kind, d):
    C, GI, LP = _impl()
    from functools import partial
    if kind == "equal":
        return partial(C.equal_ranges, delta=d)
    if kind == "contains":
        return lambda f, k: C.contains(k, f)   # split-exon profiles: comparator(feature, known) = contains(feature, known)? see set_profiles use
    raise ValueError(kind)


def _impl_isoform_profile(kw):
    C, GI, LP = _impl()
    fp = GI.FeatureProfiles()
    fp.set_features([tuple(x) for x in kw["features"]])
    if kw["cmp"] == "equal":
        from functools import partial
        comparator = partial(C.equal_ranges, delta=0)
    else:
        comparator = C.contains
    fp.set_profiles("t", [tuple(x) for x in kw["tf"]], tuple(kw["region"]), comparator)
    return {"profile": fp.profiles["t"], "range": list(fp.profile_ranges["t"])}


def _impl_overlapping_profile(kw):
    C, GI, LP = _impl()
    from functools import partial
    d = kw["d"]
    if kw["kind"] == "intron":
        c = LP.OverlappingFeaturesProfileConstructor([tuple(x) for x in kw["known"]], tuple(kw["gene_region"]),
                                                     comparator=partial(C.equal_ranges, delta=d),
                                                     absence_condition=partial(C.overlaps_at_least, delta=kw["abs_d"]),
                                                     delta=d)
    else:
        c = LP.OverlappingFeaturesProfileConstructor([tuple(x) for x in kw["known"]], tuple(kw["gene_region"]),
                                                     comparator=partial(C.equal_ranges, delta=d), delta=d)
    r = c.construct_profile_for_features([tuple(x) for x in kw["read"]], tuple(kw["mapped"]), kw["polya"], kw["polyt"])
    return {"gene": r.gene_profile, "read": r.read_profile, "range": list(r.gene_profile_range)}


def _impl_nonoverlapping_profile(kw):
    C, GI, LP = _impl()
    from functools import partial
    c = LP.NonOverlappingFeaturesProfileConstructor([tuple(x) for x in kw["known"]],
                                                    comparator=partial(C.overlaps_at_least_when_overlap, delta=kw["min_ov"]),
                                                    delta=kw["d"])
    r = c.construct_profile([tuple(x) for x in kw["read"]], kw["polya"], kw["polyt"])
    return {"gene": r.gene_profile, "read": r.read_profile, "range": list(r.gene_profile_range)}


def _impl_corrector_guard(kw):
    """the REAL tail of ExonCorrector.correct_assigned_read (intron-chain guard, junctions_from_blocks, exon-chain guard) on a
    given result of correct_misalignments (stubbed on the instance: process_events itself is C14's model)"""
    import src.exon_corrector as EC
    from src.isoform_assignment import ReadAssignmentType
    from types import SimpleNamespace
    ec = object.__new__(EC.ExonCorrector)
    reg, ni = tuple(kw["reg"]), [tuple(x) for x in kw["ni"]]
    ec.correct_misalignments = lambda ai, ra: (reg, list(ni))
    ai = SimpleNamespace(read_exons=[tuple(x) for x in kw["exons"]])
    ra = SimpleNamespace(assignment_type=ReadAssignmentType.unique, isoform_matches=[object()])
    return [list(x) for x in ec.correct_assigned_read(ai, ra)]


def corrector_guard_cases(rng, quick):
    """(region, new introns, read exons): exhaustive small universe - every list of <= 2 ARBITRARY intervals (also empty
    / ill-formed (a, a-1), repeated, overlapping, touching) over 0..5 x every region over 0..6 (sampled in quick) - + genome
    scale: the introns of a gapped read with independently jittered sites (what process_events produces), sometimes a
    repeated / dropped intron or a moved region end (terminal-exon correction)"""
    cases = []
    U = 5
    ivs = [(a, b) for a in range(0, U + 1) for b in range(max(0, a - 1), U + 1)]
    lists = [[]] + [[x] for x in ivs] + [[x, y] for x in ivs for y in ivs]
    regs = [(a, b) for a in range(0, U + 2) for b in range(a, U + 2)]
    small = [(r, l) for l in lists for r in regs]
    if quick:
        small = rng.sample(small, 5000)
    for r, l in small:
        cases.append(("corrector_guard", {"reg": r, "ni": l, "exons": [(r[0], r[0]), (r[1] + 2, r[1] + 3)]}))
    for _ in range(600 if quick else 6000):
        ex = G.rand_sd_list(rng, rng.randint(2, 9), 10 ** 6)
        ex = [e for i, e in enumerate(ex) if i == 0 or ex[i - 1][1] + 1 < e[0]]
        if len(ex) < 2:
            continue
        micro = rng.random() < 0.5
        ni = []
        for i in range(len(ex) - 1):
            a, b = ex[i][1] + 1, ex[i + 1][0] - 1
            if micro and rng.random() < 0.4:
                b = a + rng.randint(0, 2)            # a short intron: the exon after it starts right behind
            ni.append((a + rng.choice([0, 0, 0, 1, -1, 2, -3, 6]), b + rng.choice([0, 0, 0, 1, -1, -2, 3, -6])))
        if rng.random() < 0.1 and ni:
            k = rng.randrange(len(ni))
            ni.insert(k, ni[k])
        if rng.random() < 0.1 and len(ni) > 1:
            del ni[rng.randrange(len(ni))]
        reg = (ex[0][0] + rng.choice([0, 0, 0, -30, 40]), ex[-1][1] + rng.choice([0, 0, 0, 30, -40]))
        cases.append(("corrector_guard", {"reg": reg, "ni": ni, "exons": ex}))
    return cases


def _same_special(op, mo, io):
    """float-valued ops: the model returns an exact pair"""
    if op == "jaccard_similarity" and isinstance(io, dict) and "float" in io and isinstance(mo, list):
        return abs(io["float"] - mo[0] / mo[1]) < 1e-9
    return None


def gen_cases(ctx, have_ops):
    rng = ctx.rng
    quick = ctx.tier == "quick"
    cases = []
    # --- primitives: exhaustive pairs over 0..U x deltas
    U = 5 if quick else 7
    ivs = [(a, b) for a in range(U + 1) for b in range(a, U + 1)]
    two = ["overlaps", "intersection_len", "left_of", "covers_end", "covers_start", "contains", "overlap_intervals",
           "max_range"]
    three = ["overlaps_at_least", "overlaps_at_least_when_overlap", "equal_ranges", "contains_well_inside",
             "contains_approx"]
    for a in ivs:
        for b in ivs:
            for op in two:
                cases.append((op, {"a": a, "b": b}))
            for d in range(0, 4):
                for op in three:
                    cases.append((op, {"a": a, "b": b, "d": d}))
    for x in range(-2, 3):
        for y in range(-2, 3):
            cases.append(("cmp", {"x": x, "y": y}))
    for _ in range(300):   # malformed / large
        a = G.rand_iv(rng, 10 ** 9, wf=rng.random() < 0.7)
        b = G.rand_iv(rng, 10 ** 9, wf=rng.random() < 0.7)
        d = rng.choice([0, 1, 6, 12, 20, 10 ** 6])
        for op in two:
            cases.append((op, {"a": a, "b": b}))
        for op in three:
            cases.append((op, {"a": a, "b": b, "d": d}))
    # --- list functions
    UL = 7 if quick else 9
    lists = G.all_sd_lists(UL, 3)
    ctx.extra["sd_lists_universe"] = {"max_coord": UL, "max_len": 3, "count": len(lists)}
    for l in lists:
        cases.append(("intervals_total_length", {"l": l}))
        cases.append(("junctions_from_blocks", {"l": l}))
        for p in range(0, UL + 2):
            cases.append(("sum_intervals_to_point", {"l": l, "p": p}))
            cases.append(("sum_intervals_from_point", {"l": l, "p": p}))
            cases.append(("interval_bin_search", {"l": l, "p": p}))
            cases.append(("interval_bin_search_rev", {"l": l, "p": p}))
        if l:
            for a in [-1] + list(range(0, UL + 2)):
                for t_ in [-1] + list(range(0, UL + 2)):
                    if rng.random() < (0.15 if quick else 0.5):
                        cases.append(("truncate_read_to_polya", {"l": l, "a": a, "t": t_}))
    pairs = list(itertools.product(lists, lists))
    if quick:
        pairs = rng.sample(pairs, min(len(pairs), 6000))
    for l1, l2 in pairs:
        cases.append(("read_coverage_fraction", {"l1": l1, "l2": l2}))
        cases.append(("jaccard_similarity", {"l1": l1, "l2": l2}))
        cases.append(("merge_ranges", {"l1": l1, "l2": l2}))
    # get_exons / get_exon / preceding / following on intron lists inside a region
    for l in lists:
        if not l:
            continue
        reg = (l[0][0] - rng.randint(1, 3), l[-1][1] + rng.randint(1, 3))
        cases.append(("get_exons", {"r": reg, "l": l}))
        cases.append(("get_exons", {"r": (l[0][0] - rng.randint(0, 1), l[-1][1] + rng.randint(0, 1)), "l": l}))   # intron on the border
        cases.append(("extra_exon_percentage", {"r": (rng.randint(0, UL), rng.randint(0, UL) + 3), "l": l}))
        for i in range(-len(l) - 2, len(l) + 2):
            cases.append(("get_exon", {"r": reg, "l": l, "i": i}))
            cases.append(("get_following_exon", {"r": reg, "l": l, "i": i}))
            cases.append(("get_preceding_exon", {"r": reg, "l": l, "i": i}))
    # random large
    for _ in range(150 if quick else 1500):
        l1 = G.rand_sd_list(rng, rng.randint(1, 60), 10 ** 9)
        l2 = G.rand_sd_list(rng, rng.randint(1, 60), 10 ** 9) if rng.random() < 0.5 else G.perturb(rng, l1)
        p = G.rand_point(rng, l1)
        cases += [("read_coverage_fraction", {"l1": l1, "l2": l2}), ("jaccard_similarity", {"l1": l1, "l2": l2}),
                  ("merge_ranges", {"l1": l1, "l2": l2}), ("sum_intervals_to_point", {"l": l1, "p": p}),
                  ("sum_intervals_from_point", {"l": l1, "p": p}), ("interval_bin_search", {"l": l1, "p": p}),
                  ("interval_bin_search_rev", {"l": l1, "p": p}), ("junctions_from_blocks", {"l": l1}),
                  ("intervals_total_length", {"l": l1}),
                  ("truncate_read_to_polya", {"l": l1, "a": rng.choice([-1, p]), "t": rng.choice([-1, G.rand_point(rng, l1)])})]
    # empty-list error stream
    for op in ["sum_intervals_to_point", "sum_intervals_from_point", "interval_bin_search", "interval_bin_search_rev"]:
        cases.append((op, {"l": [], "p": 3}))
    cases.append(("truncate_read_to_polya", {"l": [], "a": -1, "t": -1}))
    cases.append(("read_coverage_fraction", {"l1": [], "l2": [(1, 2)]}))
    cases.append(("jaccard_similarity", {"l1": [], "l2": []}))
    cases.append(("merge_ranges", {"l1": [], "l2": []}))
    # --- split_exons, profiles (ops exist once the model has them)
    if "split_exons" in have_ops:
        for ex in G.all_exon_sets(6 if quick else 7, 3):
            cases.append(("split_exons", {"l": ex}))
        for _ in range(200 if quick else 2000):
            cases.append(("split_exons", {"l": G.rand_exon_set(rng, rng.randint(1, 30), 10 ** 6)}))
    if "isoform_profile" in have_ops:
        cases += G.isoform_profile_cases(rng, quick)
    if "overlapping_profile" in have_ops:
        cases += G.overlapping_profile_cases(rng, quick)
    if "nonoverlapping_profile" in have_ops:
        cases += G.nonoverlapping_profile_cases(rng, quick)
        # audit-2 G7: empty known list (GeneInfo.from_region: intergenic cluster / run without --genedb), with and without a tail
        for pa, pt in ((-1, -1), (3000, -1), (-1, 1000), (3000, 1000)):
            cases.append(("nonoverlapping_profile", {"known": [], "read": [(1000, 1500), (2000, 3000)], "polya": pa, "polyt": pt,
                                                     "d": 6, "min_ov": 5}))
    if "corrector_guard" in have_ops:
        cases += corrector_guard_cases(rng, quick)
    return cases


def model_ops(ctx):
    """which C19 ops the driver knows (probe with a cheap request each)"""
    probes = {"split_exons": {"l": [[1, 2]]},
              "isoform_profile": {"features": [[1, 2]], "tf": [[1, 2]], "region": [1, 2], "cmp": "equal"},
              "overlapping_profile": {"kind": "exon", "known": [[1, 2]], "gene_region": [1, 2], "read": [[1, 2]],
                                      "mapped": [1, 2], "polya": -1, "polyt": -1, "d": 0, "abs_d": 0},
              "nonoverlapping_profile": {"known": [[1, 2]], "read": [[1, 2]], "polya": -1, "polyt": -1, "d": 0, "min_ov": 1},
              "corrector_guard": {"reg": [1, 9], "ni": [[3, 4]], "exons": [[1, 2], [5, 9]]}}
    outs = ctx.driver.run([vlib.req("C19." + k, **v) for k, v in probes.items()])
    return {k for k, o in zip(probes, outs) if not (isinstance(o, dict) and "driver_error" in o)}


def correspondence(ctx):
    # translator self-check of the regenerated loop functions (run by vcheck just before; statistics into the evidence)
    try:
        import gencheck
        st = {k: v for k, v in gencheck.LOOP_STATS.get("functions", {}).items()
              if k not in ("get_read_blocks", "concat_gapless_blocks")}
        ctx.extra["gen_loops_selfcheck"] = st
        for name, v in st.items():
            ctx.hist["genloop:%s" % name] = v["cases"]
            ctx.evaluations += v["cases"]
            ctx.traces_validated += v["cases"]
    except Exception:
        pass
    have = model_ops(ctx)
    ctx.extra["model_ops_optional"] = sorted(have)
    cases = gen_cases(ctx, have)
    lines = [vlib.req("C19." + op, **kw) for op, kw in cases]
    outs = ctx.driver.run(lines)
    for (op, kw), mo in zip(cases, outs):
        ctx.evaluations += 1
        ctx.count("op:" + op)
        if isinstance(mo, dict) and "driver_error" in mo:
            ctx.disagree(op, kw, mo, None)
            continue
        io = impl_call(op, kw)
        io = vlib.canon(io)
        ctx.traces_validated += 1
        sp = _same_special(op, mo, io)
        ok = sp if sp is not None else vlib.same(mo, io)
        if vlib.is_err(mo):
            ctx.count("model_error")
            # Python silently wraps negative indices where the model flags an error: only a tie on
            # well-formed inputs matters (the theorems exclude the error there)
            if not vlib.is_err(io) and op in ("interval_bin_search", "interval_bin_search_rev") and not G.is_sd(kw["l"]):
                ctx.count("skipped_malformed_binsearch")
                continue
        if not ok:
            ctx.disagree(op, kw, mo, io)
        elif not vlib.is_err(mo):
            ctx.mark_nontrivial([op, kw])
        if len(ctx.samples) < 6 and ctx.rng.random() < 0.001:
            ctx.sample({"op": op, "input": vlib.canon(kw), "model": mo, "impl": io})
    if not ctx.samples and cases:
        ctx.sample({"op": cases[0][0], "input": vlib.canon(cases[0][1]), "model": outs[0]})
    # glue: GeneInfo built from a gffutils database with a non-zero delta (as the pipeline does)
    annots = gene_profile_annotations(ctx.rng, 80 if ctx.tier == "quick" else 800)
    for genes, delta, builder in annots:
        fails, reqs, exps = gene_profile_case(ctx, genes, delta, builder)
        mouts = ctx.driver.run(reqs)
        for (kind, t_id, got, grange), mo in zip(exps, mouts):
            ctx.evaluations += 1
            ctx.traces_validated += 1
            ctx.count("op:gene_profile_%s:%s" % (kind, builder))
            if isinstance(mo, dict) and mo.get("profile") == got and list(mo.get("range", [])) == grange:
                ctx.mark_nontrivial(["gene_profile", kind, t_id, vlib.canon(genes), delta, builder])
            else:
                ctx.disagree("gene_profile_" + kind, {"genes": genes, "delta": delta, "builder": builder, "t": t_id}, mo,
                             {"profile": got, "range": grange})



# ------------------------------------------------------------------------------------------------
# glue: isoform profiles as the pipeline builds them (GeneInfo from a gffutils db with the data-type delta)

def _make_db(genes):
    """genes: {gene_id: (strand, {transcript_id: exons})}"""
    import gffutils
    lines = []
    for gid, (strand, transcripts) in genes.items():
        gstart = min(e[0][0] for e in transcripts.values())
        gend = max(e[-1][1] for e in transcripts.values())
        lines.append('chr1\tsyn\tgene\t%d\t%d\t.\t%s\t.\tgene_id "%s";' % (gstart, gend, strand, gid))
        for t_id, exons in transcripts.items():
            lines.append('chr1\tsyn\ttranscript\t%d\t%d\t.\t%s\t.\tgene_id "%s"; transcript_id "%s";'
                         % (exons[0][0], exons[-1][1], strand, gid, t_id))
            for e in exons:
                lines.append('chr1\tsyn\texon\t%d\t%d\t.\t%s\t.\tgene_id "%s"; transcript_id "%s";' % (e[0], e[1], strand, gid, t_id))
    return vlib.gff_db_from_string("\n".join(lines) + "\n", force=True, keep_order=True,
                                   merge_strategy='error', sort_attribute_values=True,
                                   disable_infer_transcripts=True, disable_infer_genes=True)


def _gene_variants(rng, base, genome):
    """isoforms of one gene: T1 + variants whose splice sites differ by a few bases (<= the data-type deltas).  Exons of one
    transcript are sorted and pairwise disjoint; they may TOUCH (DESIGN §6: touching intervals allowed) and be 1 bp long"""
    nex = rng.randint(1 if not genome else 2, 5)
    exons = []
    p = base
    for _ in range(nex):
        ln = rng.randint(30, 200) if genome else rng.choice([1, 1, 2, 3, 5, 30])
        exons.append((p, p + ln - 1))
        p += ln + (rng.randint(60, 400) if genome else rng.choice([0, 0, 1, 1, 2, 5, 60]))     # 0: touching exons, 1: 1-bp intron
    tr = {"T1": exons}
    for k in range(2, rng.randint(3, 5)):
        e2 = []
        for (a, b) in exons:
            if rng.random() < 0.15 and len(exons) > 2:
                continue
            e2.append((a + rng.choice([0, 0, 0, 1, 3, -2, 5, -6, 12]), b + rng.choice([0, 0, 0, 1, -3, 2, 4, -5, 9])))
        e2 = [e for e in e2 if 1 <= e[0] <= e[1]]
        if rng.random() < 0.2 and len(e2) >= 2:            # glue two neighbouring exons so that they touch
            i = rng.randrange(len(e2) - 1)
            if e2[i][1] + 1 <= e2[i + 1][1]:
                e2[i + 1] = (e2[i][1] + 1, e2[i + 1][1])
        ok = len(e2) >= 1 and all(e2[i][1] < e2[i + 1][0] for i in range(len(e2) - 1))
        if ok and e2 not in tr.values():
            tr["T%d" % k] = e2
    return tr, p


def gene_profile_annotations(rng, n):
    """(genes, delta, builder): one or two genes (any strands, possibly overlapping) loaded into ONE GeneInfo, built from a
    gffutils database (as the pipeline does) or by GeneInfo.from_models (as model construction does); genome-scale or
    micro-scale (1-bp exons / introns, touching exons); delta of every data type"""
    res = []
    for _ in range(n):
        genome = rng.random() < 0.5
        base = 1000 * rng.randint(1, 50)
        genes = {}
        tr, end = _gene_variants(rng, base, genome)
        genes["G1"] = (rng.choice("+-"), {"G1" + t: e for t, e in tr.items()})
        if rng.random() < 0.4:
            b2 = rng.choice([base + rng.randint(0, 20), end + rng.randint(-10, 300)])
            tr2, _ = _gene_variants(rng, max(1, b2), genome)
            genes["G2"] = (rng.choice("+-"), {"G2" + t: e for t, e in tr2.items()})
        res.append((genes, rng.choice([0, 3, 4, 6, 12]), rng.choice(["db", "db", "models"])))
    return res


def _junctions(exons):
    # introns of a transcript as GeneInfo computes them (junctions_from_blocks: touching exons have no intron between them)
    return [(exons[i][1] + 1, exons[i + 1][0] - 1) for i in range(len(exons) - 1) if exons[i][1] + 1 < exons[i + 1][0]]


def gene_profile_case(ctx, genes, delta, builder="db"):
    """one annotation: real GeneInfo profiles vs the set definition (-> fails) and the requests / expectations for the model"""
    C, GI, LP = _impl()
    if isinstance(next(iter(genes.values())), list):      # old replay format: {transcript: exons} of one + gene
        genes = {"G1": ("+", genes)}
    if builder == "models":
        from src.gene_info import TranscriptModel, TranscriptModelType
        gi = GI.GeneInfo.from_models([TranscriptModel("chr1", st, t, g, [tuple(e) for e in ex], TranscriptModelType.known)
                                      for g, (st, trs) in genes.items() for t, ex in trs.items()], delta)
    else:
        db = _make_db(genes)
        gi = GI.GeneInfo([db[g] for g in genes], db, delta)
    transcripts = {t: e for _, trs in genes.values() for t, e in trs.items()}
    fails, reqs, exps = [], [], []
    for kind, prof, cmpname in (("intron", gi.intron_profiles, "equal"), ("exon", gi.exon_profiles, "equal"),
                                ("split", gi.split_exon_profiles, "contains")):
        feats = [tuple(f) for f in prof.features]
        for t_id, exons in transcripts.items():
            exons = [tuple(e) for e in exons]
            own = exons if kind != "intron" else _junctions(exons)
            region = (exons[0][0], exons[-1][1])
            got = list(prof.profiles[t_id])
            exp = []
            for f in feats:
                if f[1] < region[0] or f[0] > region[1]:
                    exp.append(-2)
                elif kind == "split":
                    exp.append(1 if any(e[0] <= f[0] and f[1] <= e[1] for e in exons) else -1)
                else:
                    exp.append(1 if f in own else -1)
            ones = [i for i, v in enumerate(got) if v == 1]
            exp_range = (ones[0], ones[-1] + 1) if ones else (len(got), 0)
            if got != exp or tuple(prof.profile_ranges[t_id]) != exp_range:
                fails.append({"kind": kind, "transcript": t_id, "features": feats, "own": own, "delta": delta,
                              "got": got, "expected": exp, "range": list(prof.profile_ranges[t_id]), "expected_range": list(exp_range)})
            reqs.append(vlib.req("C19.isoform_profile", features=feats, tf=own, region=region, cmp=cmpname))
            exps.append((kind, t_id, got, list(prof.profile_ranges[t_id])))
    return fails, reqs, exps


# ------------------------------------------------------------------------------------------------
# oracle: the property itself on the real code (position-set recomputation)

def posset(l):
    s = set()
    for a, b in l:
        s.update(range(a, b + 1))
    return s


def oracle_case(op, kw):
    """returns None if the real function agrees with the position-set definition, else a detail string"""
    C, GI, LP = _impl()
    t = lambda x: tuple(x)
    tl = lambda l: [tuple(x) for x in l]
    try:
        if op in ("overlaps", "contains", "left_of", "intersection_len", "overlap_intervals"):
            a, b = t(kw["a"]), t(kw["b"])
            if a[0] > a[1] or b[0] > b[1] or a[1] - a[0] > 10 ** 4 or b[1] - b[0] > 10 ** 4:
                return None
            A, B = posset([a]), posset([b])
            got = getattr(C, op)(a, b)
            exp = {"overlaps": bool(A & B), "contains": B <= A, "left_of": max(A) < min(B),
                   "intersection_len": len(A & B),
                   "overlap_intervals": (min(A & B), max(A & B)) if A & B else None}[op]
            if op == "overlap_intervals":
                if exp is None:
                    return None if got[0] > got[1] else "expected empty, got %s" % (got,)
            return None if got == exp else "expected %s got %s" % (exp, got)
        if op in ("equal_ranges", "contains_approx", "contains_well_inside"):
            a, b, d = t(kw["a"]), t(kw["b"]), kw["d"]
            got = getattr(C, op)(a, b, d)
            exp = {"equal_ranges": abs(a[0] - b[0]) <= d and abs(a[1] - b[1]) <= d,
                   "contains_approx": a[0] - d <= b[0] and b[1] <= a[1] + d,
                   "contains_well_inside": a[0] <= b[0] - d and b[1] + d <= a[1]}[op]
            return None if got == exp else "expected %s got %s" % (exp, got)
        if op in ("read_coverage_fraction", "jaccard_similarity", "merge_ranges"):
            l1, l2 = tl(kw["l1"]), tl(kw["l2"])
            if not (G.is_sd(l1) and G.is_sd(l2) and l1 and l2) or G.span(l1) > 10 ** 5 or G.span(l2) > 10 ** 5:
                return None
            A, B = posset(l1), posset(l2)
            if op == "read_coverage_fraction":
                got = C.read_coverage_fraction(l1, l2)
                exp = len(A & B) / len(A)
                return None if abs(got - exp) < 1e-9 else "expected %s got %s" % (exp, got)
            if op == "jaccard_similarity":
                got = C.jaccard_similarity(l1, l2)
                exp = len(A & B) / len(A | B)
                return None if abs(got - exp) < 1e-9 else "expected %s got %s" % (exp, got)
            got = C.merge_ranges(l1, l2)
            if posset(got) != (A | B):
                return "union differs: %s" % (got,)
            if got != sorted(got):
                return "unsorted: %s" % (got,)
            return None
        if op in ("sum_intervals_to_point", "sum_intervals_from_point", "intervals_total_length"):
            l = tl(kw["l"])
            if not (G.is_sd(l) and l) or G.span(l) > 10 ** 5:
                return None
            A = posset(l)
            if op == "intervals_total_length":
                got, exp = C.intervals_total_length(l), len(A)
            elif op == "sum_intervals_to_point":
                got, exp = C.sum_intervals_to_point(l, kw["p"]), len([q for q in A if q < kw["p"]])
            else:
                got, exp = C.sum_intervals_from_point(l, kw["p"]), len([q for q in A if q > kw["p"]])
            return None if got == exp else "expected %s got %s" % (exp, got)
        if op in ("interval_bin_search", "interval_bin_search_rev"):
            l = tl(kw["l"])
            p = kw["p"]
            if not (G.is_sd(l) and l):
                return None
            got = getattr(C, op)(l, p)
            if p < l[0][0] or p > l[-1][1]:
                exp = -1
            elif op == "interval_bin_search":
                exp = max(i for i in range(len(l)) if l[i][0] <= p)
            else:
                exp = min(i for i in range(len(l)) if p <= l[i][1])
            return None if got == exp else "expected %s got %s" % (exp, got)
        if op == "junctions_from_blocks":
            l = tl(kw["l"])
            if not (G.is_sd(l) and l) or G.span(l) > 10 ** 5:
                return None
            got = C.junctions_from_blocks(l)
            gaps = set(range(l[0][0], l[-1][1] + 1)) - posset(l)
            return None if posset(got) == gaps and G.is_sd(got) and all(a <= b for a, b in got) else "gaps differ: %s" % (got,)
        if op == "get_exons":
            l = tl(kw["l"])
            r = t(kw["r"])
            # audit-2 G5: domain = region contains the introns (an intron may start / end at the region border, consecutive
            # introns may touch: the exon between them is empty and is dropped); an intron reaching outside the region is outside
            # the domain (no caller: the region is the span of the exons the introns come from)
            if not (G.is_sd(l) and l) or not (r[0] <= l[0][0] and l[-1][1] <= r[1]) or r[1] - r[0] > 10 ** 5:
                return None
            got = C.get_exons(r, l)
            exp = set(range(r[0], r[1] + 1)) - posset(l)
            if posset(got) != exp or not all(a <= b for a, b in got) or not G.is_sd(got):
                return "exons differ: %s" % (got,)
            gapped = r[0] < l[0][0] and l[-1][1] < r[1] and all(l[i][1] + 1 < l[i + 1][0] for i in range(len(l) - 1))
            if gapped != (len(got) == len(l) + 1):
                return "length guard: %d exons for %d introns, gapped=%s" % (len(got), len(l), gapped)
            return None if (not gapped or C.junctions_from_blocks(got) == l) else "junctions(exons) != introns"
        if op == "split_exons":
            ex = tl(kw["l"])
            if not ex or any(a > b or a < 1 for a, b in ex) or max(b for _, b in ex) - min(a for a, _ in ex) > 10 ** 5:
                return None
            got = GI.GeneInfo.split_exons(ex)
            if posset(got) != posset(ex):
                return "cover differs: %s" % (got,)
            if not G.is_sd(got):
                return "blocks not sorted/disjoint: %s" % (got,)
            for blk in got:
                for e in ex:
                    if C.overlaps(blk, e) and not C.contains(e, blk):
                        return "block %s straddles exon %s" % (blk, e)
            return None
        if op == "corrector_guard":
            reg, ni, ex = t(kw["reg"]), tl(kw["ni"]), tl(kw["exons"])
            if len(ex) < 2 or (ni and (ni[-1][1] - ni[0][0] > 10 ** 7)):
                return None
            got = [tuple(x) for x in _impl_corrector_guard(kw)]
            if got == ex:
                return None          # correction discarded (or equal to the read)
            # an accepted correction: sorted disjoint well-formed blocks from the region start to its end whose gaps are
            # EXACTLY the new introns - no intron closed (touching blocks), no exon dropped
            if not (G.is_sd(got) and all(a <= b for a, b in got)):
                return "corrected exons not sorted / disjoint / well formed: %s" % (got,)
            if (got[0][0], got[-1][1]) != reg:
                return "corrected exons %s do not span the corrected region %s" % (got, reg)
            gaps = [(got[i][1] + 1, got[i + 1][0] - 1) for i in range(len(got) - 1)]
            if any(a > b for a, b in gaps):
                return "blocks of the corrected alignment touch (an intron was closed): new introns %s, exons %s" % (ni, got)
            if gaps != ni:
                return "new introns %s, introns of the corrected alignment %s (exons %s)" % (ni, [g for g in gaps if g[0] <= g[1]], got)
            return None
        if op == "nonoverlapping_profile":
            known, read = tl(kw["known"]), tl(kw["read"])
            if not known and G.is_sd(read) and read:
                got = _impl_nonoverlapping_profile(kw)      # audit-2 G7: must not raise on an empty gene info
                return None if got["gene"] == [] and got["read"] == [0] * len(read) else "empty known list: %s" % (got,)
            if not (G.is_sd(known) and G.is_sd(read) and known and read):
                return None
            got = _impl_nonoverlapping_profile(kw)
            exp = nonoverlapping_spec(known, read, kw["min_ov"], kw["d"], kw["polya"], kw["polyt"])
            if got["gene"] != exp:
                return "split-exon read profile %s, statement %s" % (got["gene"], exp)
            expr = nonoverlapping_read_side(known, read, kw["min_ov"])
            return None if got["read"] == expr else "split-exon read profile, read side %s, statement %s" % (got["read"], expr)
        if op == "truncate_read_to_polya":
            l = tl(kw["l"])
            a, tt = kw["a"], kw["t"]
            if not (G.is_sd(l) and l) or G.span(l) > 10 ** 5:
                return None
            # domain: a tail position lies inside the read span; (dead code in the pipeline: only identity and
            # single-sided truncation are checked)
            if (a != -1 and tt != -1) or (a != -1 and not l[0][0] < a <= l[-1][1]) or (tt != -1 and not l[0][0] <= tt < l[-1][1]):
                return None
            got = C.truncate_read_to_polya(l, a, tt)
            if a == -1 and tt == -1:
                return None if got == l else "not identity"
            lo = tt if tt != -1 else l[0][0]
            hi = a if a != -1 else l[-1][1]
            exp = {q for q in posset(l) if lo <= q <= hi} | {lo, hi}
            gp = posset(got)
            if not (exp <= gp and min(gp) == lo and max(gp) == hi):
                return "truncation differs: %s" % (got,)
            return None
    except (IndexError, AssertionError, ZeroDivisionError) as ex:
        return "exception %s" % type(ex).__name__
    return None


def nonoverlapping_spec(known, read, min_ov, d, pa, pt):
    """statement for NonOverlappingFeaturesProfileConstructor.construct_profile (reading rule proposed for DESIGN §6, theorem
    Props/C19NonOverlapping.nonoverlapping_profile_spec): a block is PRESENT iff some read exon overlaps it and passes the
    comparator; ABSENT iff not present and its END lies strictly inside a gap between two consecutive read exons; else 0
    (undetermined: outside the read, or overlapping a read exon by fewer than min_ov bases without its end in a gap);
    -2 beyond the block holding polyA + delta / before the block holding polyT - delta"""
    C, GI, LP = _impl()
    out = []
    for k in known:
        present = any(C.overlaps(r, k) and C.overlaps_at_least_when_overlap(r, k, min_ov) for r in read)
        absent = (not present) and any(read[j][1] < k[1] < read[j + 1][0] for j in range(len(read) - 1))
        out.append(1 if present else (-1 if absent else 0))
    if pa != -1:
        p = pa + d
        if known[0][0] <= p <= known[-1][1]:
            idx = max(i for i in range(len(known)) if known[i][0] <= p)
            for i in range(idx + 1, len(known)):
                out[i] = -2
    if pt != -1:
        p = pt - d
        if known[0][0] <= p <= known[-1][1]:
            idx = min(i for i in range(len(known)) if p <= known[i][1])
            for i in range(idx):
                out[i] = -2
    return out


def nonoverlapping_read_side(known, read, min_ov):
    """read exon: 1 iff it overlaps a block and passes the comparator; -1 iff not and its end lies in a gap between two consecutive
    blocks (K[i].2 <= r.2 < K[i+1].1); else 0"""
    C, GI, LP = _impl()
    out = []
    for r in read:
        present = any(C.overlaps(r, k) and C.overlaps_at_least_when_overlap(r, k, min_ov) for k in known)
        absent = (not present) and any(known[i][1] <= r[1] < known[i + 1][0] for i in range(len(known) - 1))
        out.append(1 if present else (-1 if absent else 0))
    return out


def witness_replays(ctx):
    """the `_witness` theorems of Props/C19NonOverlapping.lean / C19Callers.lean on the real code"""
    res = {}
    # nonoverlapping_literal_witness: the literal sentence differs from the code (0, not -1)
    kw = {"known": [(2, 3)], "read": [(1, 1), (3, 5)], "polya": -1, "polyt": -1, "d": 0, "min_ov": 2}
    got = impl_call("nonoverlapping_profile", kw)
    res["nonoverlapping_literal_witness"] = got
    if not (isinstance(got, dict) and got.get("gene") == [0]):
        ctx.fail("witness_stale:nonoverlapping_literal_witness", {"op": "nonoverlapping_profile", "args": kw},
                 "the real constructor gives %s, the witness theorem says gene profile [0]" % (got,))
    # corrector_guard_orig_witness / _overlap: the repaired tail returns the read's own exons on both pipeline inputs
    for name, kw in (("corrector_guard_orig_witness",
                      {"reg": (7479, 7940), "ni": [(7510, 7513), (7518, 7571), (7577, 7576), (7608, 7607), (7639, 7639)],
                       "exons": [(7479, 7509), (7514, 7517), (7573, 7575), (7577, 7606), (7608, 7637), (7640, 7940)]}),
                     ("corrector_guard_orig_witness_overlap",
                      {"reg": (10150, 11223), "ni": [(10152, 11050), (11172, 11172), (11181, 11185), (11182, 11185), (11188, 11192)],
                       "exons": [(10150, 10151), (11051, 11171), (11173, 11177), (11180, 11181), (11186, 11187), (11193, 11223)]})):
        r = oracle_case("corrector_guard", kw)
        res[name] = "discarded" if r is None else r
        if r:
            ctx.fail("corrector_guard:intron_lost", {"op": "corrector_guard", "args": vlib.canon(kw)}, r)
    ctx.extra["witness_replays"] = res


def read_profile_statement(ctx):
    """the last sentence of C19 on the REAL constructors: "read profiles mark a feature present iff a read feature matches it
    within delta and absent iff the read spans it without matching".  The exact expectation for ALL inputs and the class
    predicate of the known finding `micro_feature_sweep_skip` (features shorter than delta+1 / read features <= delta apart:
    the sweep never compares the pair) are C13's (`props/C13.py` `oracle_profile`, `expected_values`, `micro_class`) - C13 reads
    the same profiles as include / exclude counts.  A deviation inside the class is reported under that kind (listed for C19
    too), a deviation outside it as `read_profile_mismatch`; the tie-loser reading of DESIGN §6 is C13's `tie_loser_exon`."""
    from props import C13
    from gen import c13_features as G13
    rng = ctx.rng
    n_cases = n_class = 0
    kept = {}
    cases = [(w["op"], {"known": w["known"], "gene_region": w["gene_region"], "d": w["d"], "abs_d": w.get("abs_d", 20),
                        "blocks": w["blocks"], "polya": -1, "polyt": -1}) for w in C13.MICRO_WITNESSES]
    gen = getattr(G13, "profile_cases", None)
    n_small = n_genome = 0
    if gen is not None:
        try:
            allc = [(op, kw) for op, kw in gen(rng, ctx.tier == "quick")]
            # audit-2 G1: the generator emits the small universe first; a PREFIX cap kept only that part (delta <= 2) in both
            # tiers.  Now: every genome-scale / empty-block case + a stride through the small universe
            small = [c for c in allc if c[1]["blocks"] and max(b[1] for b in c[1]["blocks"]) <= 8 and c[1]["d"] <= 2]
            rest = [c for c in allc if not (c[1]["blocks"] and max(b[1] for b in c[1]["blocks"]) <= 8 and c[1]["d"] <= 2)]
            want = 1200 if ctx.tier == "quick" else 12000
            small = small[:: max(1, len(small) // want)]
            n_small, n_genome = len(small), len(rest)
            cases += small + rest
        except TypeError:
            pass
    # audit-2 G6: wider pools (1-4 known features, 1-4 read blocks, delta 0..3, polyA / polyT anywhere, gene region wider
    # than the hull of the known features)
    wide = G.wide_read_profile_cases(rng, 700 if ctx.tier == "quick" else 8000)
    cases += wide
    for op, kw in cases:
        if op not in ("exon_profile", "intron_profile"):
            continue
        n_cases += 1
        for kind, detail in C13.oracle_profile(op, kw):
            if kind == "micro_feature_sweep_skip":
                n_class += 1
            k = kind if kind in ("micro_feature_sweep_skip", "tie_loser_exon") else "read_profile_mismatch:" + kind
            kept[k] = kept.get(k, 0) + 1
            if kept[k] <= 3 and kind != "tie_loser_exon":
                ctx.fail(k, {"op": "read_profile", "args": {"op": op, "case": vlib.canon(kw)}}, detail)
    ctx.extra["read_profile_statement"] = {"cases": n_cases, "small_universe": n_small, "genome_scale_and_empty": n_genome,
                                           "wide_pools": len(wide), "in_class_micro_feature_sweep_skip": n_class, "kinds": kept}


def site_contract_check(ctx):
    """the weaker contract of the monitor at `get_exons` in construct_fl_isoforms (mon_wrap.LISTFN_SITE_CONTRACT) is justified by
    the length test right behind the call (Props/C19Callers.get_exons_length_guard): the test must be there in the source"""
    import ast
    path = os.path.join(vlib.REPO, "src", "graph_based_model_construction.py")
    want_call = "novel_exons = get_exons(transcript_range, list(intron_path))"
    want_test = "len(novel_exons) != len(intron_path) + 1"
    found = None
    try:
        tree = ast.parse(open(path).read())
        for fn in ast.walk(tree):
            if isinstance(fn, ast.FunctionDef) and fn.name == "construct_fl_isoforms":
                for node in ast.walk(fn):
                    body = getattr(node, "body", None)
                    if not isinstance(body, list):
                        continue
                    for a, b in zip(body, body[1:]):
                        if ast.unparse(a) == want_call:
                            found = isinstance(b, ast.If) and ast.unparse(b.test) == want_test and \
                                len(b.body) == 1 and isinstance(b.body[0], ast.Continue) and not b.orelse
    except (OSError, SyntaxError) as exc:
        found = None
        ctx.notes.append("site_contract_check: %r" % (exc,))
    ctx.extra["site_contract_get_exons_length_guard_in_source"] = found
    if not found:
        ctx.fail("site_contract_unjustified", {"op": "site_contract", "args": {"file": "src/graph_based_model_construction.py"}},
                 "construct_fl_isoforms: `%s` is no longer followed by `if %s: continue` - the monitor's weaker contract for this call "
                 "site (well-formed introns only) rests on that test (get_exons_length_guard)" % (want_call, want_test))
    return bool(found)


def oracle(ctx, disagreements, broken):
    # the witnesses of the theorems first (realistic inputs from the pipeline), then the disagreeing inputs
    witness_replays(ctx)
    site_contract_check(ctx)
    n = 0
    for d in disagreements:
        r = oracle_case(d["op"], d["input"])
        n += 1
        if r:
            ctx.fail("set_semantics:" + d["op"], {"op": d["op"], "args": d["input"]}, r)
    # then the normal generator (independent of the driver)
    cases = gen_cases(ctx, {"split_exons", "nonoverlapping_profile", "corrector_guard"})
    if ctx.tier == "quick" and not broken:
        cases = ctx.rng.sample(cases, min(len(cases), 30000))
    for op, kw in cases:
        r = oracle_case(op, kw)
        n += 1
        if r:
            ctx.fail("set_semantics:" + op, {"op": op, "args": kw}, r)
            if len(ctx.failures) > 20:
                break
    for genes, delta, builder in gene_profile_annotations(ctx.rng, 100 if ctx.tier == "quick" else 1000):
        fails, _, _ = gene_profile_case(ctx, genes, delta, builder)
        n += 1
        for f in fails[:2]:
            ctx.fail("isoform_profile_glue:" + f["kind"],
                     {"op": "gene_profile", "args": {"genes": genes, "delta": delta, "builder": builder}},
                     "isoform %s %s profile %s range %s, expected %s range %s (features %s)"
                     % (f["transcript"], f["kind"], f["got"], f["range"], f["expected"], f["expected_range"], f["features"]))
    ctx.extra["oracle_cases"] = n
    read_profile_statement(ctx)
    binsearch_pipeline_monitor(ctx)


# ---- hypothesis audit C19-G1: the argument lists of the two binary searches on every real call of the pipeline
#      (discharged for the only caller by Props/C19Compose.lean; watched here so that a second caller, or a caller that
#      passes another feature list, is noticed)

def binsearch_run(kind, seed):
    """one real pipeline run under harness/mon_wrap.py (`binsearch` + `listfns`) -> (status, calls {mon: n}, [violation records]).
    kind: toy | synth (simple synthetic polyA data) | adv (gen/c19adv.py: touching exons, 1-bp introns, 1-3 bp exons)"""
    import shutil
    import pipeline as P
    import mon_wrap
    d = P.scratch("isoverif_c19bs_")
    try:
        extra = []
        if kind == "toy":
            paths = P.copy_toy(os.path.join(d, "data"))
        elif kind == "adv":
            from gen import c19adv
            paths = c19adv.adversarial_dataset(seed).write(os.path.join(d, "data"))
            extra = ["--count_exons"]
        else:
            from gen import synth
            paths = synth.simple_dataset(seed=seed, n_chroms=1, genes_per_chrom=4, reads_per_tx=6, polya=True).write(os.path.join(d, "data"))
            extra = ["--count_exons"]
        if "bam" not in paths:
            return "infra: no input data", {}, []
        mon = os.path.join(d, "mon.jsonl")
        rc, log = P.run_isoquant(os.path.join(d, "out"), P.std_args(paths, threads=2, extra=extra),
                                 wrapper=os.path.join(vlib.HERE, "mon_wrap.py"), env={"MON_FILE": mon, "MON_SET": "binsearch,listfns"})
        calls, viol = mon_wrap.read_monitor(mon)
        if rc != 0 and not viol:
            return "infra: rc=%s %s" % (rc, log[-300:]), calls, []
        return "ok", calls, viol
    finally:
        shutil.rmtree(d, ignore_errors=True)


ADV_SEEDS_QUICK = (3, 9)
ADV_SEEDS_THOROUGH = (3, 5, 6, 7, 8, 9)


def binsearch_pipeline_monitor(ctx):
    import mon_wrap
    want = {(): ["binsearch_empty_list"], ((1, 5), (6, 6), (10, 12)): [],
            ((100, 300), (100, 200), (150, 250)): ["binsearch_starts_not_strict", "binsearch_ends_not_strict"],
            ((1, 5), (8, 7)): ["binsearch_interval_not_wf"]}
    for l, w in want.items():
        got = mon_wrap.binsearch_problems(list(l))
        if got != w:
            ctx.fail("monitor_selftest", {"op": "monitor_selftest", "args": {"list": [list(x) for x in l]}},
                     "binsearch_problems gives %s, expected %s" % (got, w))
    want2 = {(): ["listfns_empty"], ((1, 5), (6, 6), (10, 12)): [], ((1, 5), (5, 8)): ["listfns_not_sd"],
             ((7577, 7576), (7608, 7607)): ["listfns_not_wf"], ((3, 9), (3, 9)): ["listfns_not_sd"],
             ((11181, 11185), (11182, 11185)): ["listfns_not_sd"], ((9, 3), (1, 2)): ["listfns_not_wf", "listfns_not_sd"]}
    for l, w in want2.items():
        got = mon_wrap.listfns_problems(list(l))
        if got != w:
            ctx.fail("monitor_selftest", {"op": "monitor_selftest", "args": {"list": [list(x) for x in l]}},
                     "listfns_problems gives %s, expected %s" % (got, w))
    plan = [("toy", 0), ("synth", ctx.seed % 1000 + 1)] + ([] if ctx.tier == "quick" else [("synth", ctx.seed % 1000 + k) for k in (2, 3, 4)])
    plan += [("adv", k) for k in (ADV_SEEDS_QUICK if ctx.tier == "quick" else ADV_SEEDS_THOROUGH)]
    total = {"binsearch": 0, "listfns": 0, "listfns_site_contract": 0}
    sites = {}
    for kind, seed in plan:
        st, calls, viol = binsearch_run(kind, seed)
        for m in total:
            total[m] += calls.get(m, 0)
            ctx.count("%s_pipeline:%s:calls" % (m, kind), calls.get(m, 0))
        if st != "ok":
            ctx.notes.append("pipeline monitor (%s, %s): %s" % (kind, seed, st))
            continue
        seen = set()
        for r in viol:
            key = (r.get("kind"), r.get("fn"), str(r.get("where", "")).split(":")[0])
            sites[str(key)] = sites.get(str(key), 0) + 1
            if key in seen:
                continue
            seen.add(key)
            which = "bin_search_spec / bin_search_rev_spec" if r.get("mon") == "binsearch" else \
                "the C19 list theorems (DESIGN §6: sorted, pairwise disjoint, well formed)"
            ctx.fail("hyp_" + str(r.get("kind")), {"op": "binsearch_pipeline", "args": {"data": kind, "seed": seed}},
                     "hypothesis of %s violated by a real caller: %s" % (which, {k: v for k, v in r.items() if k != "mon"}))
    ctx.extra["binsearch_pipeline_monitor"] = {"runs": len(plan), "calls": total["binsearch"],
                                               "what": "interval_bin_search(_rev) argument lists: non-empty, well formed, starts and "
                                                       "ends strictly increasing, on every real call (harness/mon_wrap.py)"}
    ctx.extra["listfns_pipeline_monitor"] = {"runs": len(plan), "calls": total["listfns"], "violating_sites": sites,
                                             "calls_under_a_weaker_site_contract (get_exons in construct_fl_isoforms, non-SD "
                                             "intron path, rejected by the length guard)": total["listfns_site_contract"],
                                             "what": "every interval-list argument of the 15 list functions of src/common.py, of the "
                                                     "profile constructors and of set_profiles on every real call: well formed, sorted, "
                                                     "pairwise disjoint, non-empty where required (harness/mon_wrap.py `listfns`); runs: "
                                                     "toy data, simple synthetic polyA data, adversarial annotations (gen/c19adv.py)"}
    if not total["binsearch"]:
        ctx.notes.append("binsearch pipeline monitor: no call of interval_bin_search(_rev) was observed")
    if not total["listfns"]:
        ctx.notes.append("listfns pipeline monitor: no call of a list function was observed")


def replay(ctx, failure):
    inp = failure["input"]
    if inp["op"] == "monitor_selftest":
        return True
    if inp["op"] == "site_contract":
        return not site_contract_check(ctx)
    if inp["op"] == "binsearch_pipeline":
        st, _, viol = binsearch_run(inp["args"]["data"], inp["args"]["seed"])
        return any("hyp_" + str(r.get("kind")) == failure["kind"] for r in viol)
    if inp["op"] == "read_profile":
        from props import C13
        a = inp["args"]
        return bool(C13.oracle_profile(a["op"], a["case"]))
    if inp["op"] == "gene_profile":
        a = inp["args"]
        if "genes" in a:
            genes = {g: (v[0], {k: [tuple(e) for e in ex] for k, ex in v[1].items()}) for g, v in a["genes"].items()}
        else:
            genes = {"G1": ("+", {k: [tuple(e) for e in v] for k, v in a["transcripts"].items()})}
        fails, _, _ = gene_profile_case(ctx, genes, a["delta"], a.get("builder", "db"))
        return bool(fails)
    return oracle_case(inp["op"], inp["args"]) is not None
