"""C05 (growth c05edge) — records the pipeline must digest, twin BED lines, the domain of "read".

Called from props/C05.py (correspondence + oracle + replay).  Everything here runs the REAL code:
* in-process: the real `AlignmentCollector.process()` loop on record lists in which some records have
  `reference_end = None` (placed unmapped read / no CIGAR) against the model `collectRaw` (Model/RegionsEdge.lean);
  the real `BEDPrinter` on retained records against `bedLines`;
* pipeline: `isoquant.py` on synthetic BAMs holding such records (one file, two files with a `(start)` tie, the
  paired-end convention flag 73 / 133), a spliced read bridging two genes across a region cut, repeated query names,
  primary records with MAPQ 0..5 with and without annotation.
"""
import collections
import os
import random
import re
import shutil
import types

import vlib
from gen import coverage as G

# ------------------------------------------------------------------------------------------------
# in-process: records without reference span through the real process() loop


def raw_sets(rng, n):
    """small record sets [start, stop|None, flags, mapq, rid]; about every 6th record has no reference span"""
    res = []
    for k in range(n):
        alns = G.small_cluster_set(rng, n_max=25, p_special=0.2)
        alns = [list(a) for a in alns if not a[2] & 4]
        for a in alns:
            if rng.random() < 0.17:
                a[1] = None
        if k % 7 == 0 and alns:
            alns[0][1] = None            # the very first record of the chromosome (empty storage: add_alignment raises)
        if k % 11 == 0 and alns:
            alns[-1][1] = None
        res.append(alns)
    return res


def raw_split_sets(rng, n):
    """split clusters (>= 1024 reads / >= 32 kb) with records without span inside piles, valleys and at sub-region ends"""
    res = []
    for _ in range(n):
        kind, alns = G.split_cluster(rng)
        alns = [list(a) for a in alns if not a[2] & 4]
        for _ in range(rng.randint(1, 6)):
            a = rng.choice(alns)
            extra = [a[0] + rng.choice([0, 0, 1, 255, 256]), None, 0, 0, 0]
            alns.append(extra)
        alns.sort(key=lambda a: a[0])
        for i, a in enumerate(alns):
            a[4] = i
        res.append(alns)
    return res


def check_raw(alns):
    """the property on the real loop: no exception; every record WITH a span forwarded for a region it overlaps, in both
    modes alike; a record without span is never forwarded and counts in no category"""
    import props.C05 as C
    spanned = [a for a in alns if a[1] is not None]
    nospan = set(a[4] for a in alns if a[1] is None)
    res = {}
    for mode, hm in (("default", False), ("high_memory", True)):
        try:
            r = C.real_collect(alns, hm)
        except C.Hang:
            return ("collector_hangs:" + mode, "process() did not terminate")
        if vlib.is_err(r):
            return ("collector_raises_on_record_without_span:" + mode,
                    "%s; %d of %d records have reference_end None (placed unmapped read / no CIGAR)"
                    % (r.get("exc"), len(nospan), len(alns)))
        res[mode] = r
        seen = collections.Counter()
        for region, ids in r["out"]:
            bad = [i for i in ids if i in nospan]
            if bad:
                return ("record_without_span_forwarded:" + mode, "record %s in region %s" % (bad[:3], region))
            seen.update(set(ids))
        lost = [a for a in spanned if seen[a[4]] == 0]
        if lost:
            return ("alignment_not_forwarded:" + mode, "%d record(s) reach no region, e.g. %s" % (len(lost), lost[0]))
        exp = {"secondary": sum(1 for a in spanned if a[2] & 1),
               "supplementary": sum(1 for a in spanned if not a[2] & 1 and a[2] & 2),
               "primary": sum(1 for a in spanned if not a[2] & 3), "unaligned": 0}
        if r["stats"] != exp:
            return ("stats_mismatch:" + mode, "log counters %s, categories of the records with a span %s" % (r["stats"], exp))
    if res["default"]["out"] != res["high_memory"]["out"]:
        return ("memory_modes_differ", "with records without span")
    return None


# --- the real BEDPrinter on retained records ------------------------------------------------------

def bed_cases(rng, n):
    """lists of retained records [rid, chr, exons, blocks, multi]: twins of one alignment (equal exons, equal or
    different corrected blocks), different alignments of one read, single-record reads"""
    res = []
    for _ in range(n):
        recs = []
        for _ in range(rng.randint(1, 7)):
            rid = rng.randint(0, 3)
            s = rng.choice([100, 100, 500, 900])
            exons = [[s, s + 50], [s + 100 + rng.choice([0, 0, 7]), s + 200]][:rng.choice([1, 2, 2])]
            multi = rng.random() < 0.7
            blocks = [list(e) for e in exons]
            if rng.random() < 0.3:
                blocks[0][0] += rng.choice([1, 2])
            recs.append([rid, rng.choice([0, 0, 1]), exons, blocks, multi])
            if rng.random() < 0.5:
                tw = [rid, recs[-1][1], [list(e) for e in exons], [list(e) for e in blocks], rng.random() < 0.85]
                if rng.random() < 0.3:
                    tw[3][-1][1] += 3
                recs.append(tw)
        rng.shuffle(recs)
        res.append(recs)
    return res


def real_bed_lines(recs):
    """the real BEDPrinter.add_read_info on the records, in order -> [[rid, chr, blocks]...]"""
    vlib.repo_on_path()
    import src.assignment_io as AIO
    d = vlib.scratch_dir("isoverif_c05_bed_")
    try:
        fn = os.path.join(d, "x.bed")
        pr = AIO.BEDPrinter(fn, types.SimpleNamespace(), print_corrected=True)
        for r in recs:
            ra = types.SimpleNamespace(assignment_type=1, gene_info=types.SimpleNamespace(chr_id="c%d" % r[1]),
                                       mapped_strand="+", read_id="r%d" % r[0], multimapper=bool(r[4]), chr_id="c%d" % r[1],
                                       exons=[tuple(e) for e in r[2]], corrected_exons=[tuple(e) for e in r[3]])
            pr.add_read_info(ra)
        pr.output_file.close()
        out = []
        for line in open(fn):
            if line.startswith("#"):
                continue
            f = line.rstrip("\n").split("\t")
            st = int(f[1])
            sizes = [int(x) for x in f[10].split(",")]
            starts = [int(x) for x in f[11].split(",")]
            out.append([int(f[3][1:]), int(f[0][1:]), [[st + 1 + o, st + o + z] for o, z in zip(starts, sizes)]])
        return out
    finally:
        shutil.rmtree(d, ignore_errors=True)


def check_bed(recs):
    """one line per alignment of a multi-record read: no two lines of records with equal (read, chr, exons) when both
    carry the multimapper mark; every record without an earlier twin is printed"""
    try:
        lines = real_bed_lines(recs)
    except Exception as ex:      # noqa
        return ("bed_printer_raises", "%s: %s" % (type(ex).__name__, ex))
    exp = []
    seen = set()
    for r in recs:
        key = (r[0], r[1], json_key(r[2]))
        if r[4]:
            if key in seen:
                continue
            seen.add(key)
        exp.append([r[0], r[1], r[3]])
    if lines != exp:
        return ("alignment_twice_in_bed" if len(lines) > len(exp) else "alignment_line_missing_in_bed",
                "printed %d line(s), %d alignment(s) to print; first difference at %s"
                % (len(lines), len(exp), next((i for i in range(min(len(lines), len(exp))) if lines[i] != exp[i]), min(len(lines), len(exp)))))
    return None


def json_key(x):
    return tuple(tuple(e) for e in x)


# ------------------------------------------------------------------------------------------------
# correspondence (called from C05.correspondence)

def correspondence(ctx):
    import props.C05 as C
    rng = ctx.rng
    quick = ctx.tier == "quick"
    D = ctx.driver
    sets = raw_sets(rng, 250 if quick else 2500) + raw_split_sets(rng, 6 if quick else 60)
    sets.append([[0, None, 0, 0, 0]])
    sets.append([[5, 9, 0, 60, 0], [5, None, 0, 0, 1], [7, 30, 0, 60, 2]])
    for mode in ("bam", "memory"):
        cases = [{"mode": mode, "alns": a} for a in sets]
        outs = D.run([vlib.req("C05.collect_raw", **kw) for kw in cases])
        for kw, mo in zip(cases, outs):
            ctx.evaluations += 1
            ctx.count("op:collect_raw")
            if isinstance(mo, dict) and "driver_error" in mo:
                ctx.disagree("collect_raw", kw, mo, None)
                continue
            io = vlib.canon(C._flat(C.real_collect(kw["alns"], mode == "memory")))
            ctx.traces_validated += 1
            n_nospan = sum(1 for a in kw["alns"] if a[1] is None)
            ctx.count("raw_records_without_span:%s" % (n_nospan if n_nospan < 3 else ">=3"))
            if not vlib.same(mo, io):
                ctx.disagree("collect_raw", kw, C._short(mo), C._short(io))
            elif not vlib.is_err(mo) and n_nospan and any(len(x[1]) > 0 for x in mo):
                ctx.mark_nontrivial(C._digest("collect_raw", kw))
    cases = [{"alns": a} for a in sets]
    outs = D.run([vlib.req("C05.raw_stats", **kw) for kw in cases])
    for kw, mo in zip(cases, outs):
        ctx.evaluations += 1
        ctx.count("op:raw_stats")
        r = C.real_collect(kw["alns"], False)
        io = vlib.canon(r if vlib.is_err(r) else r["stats"])
        ctx.traces_validated += 1
        if not vlib.same(mo, io):
            ctx.disagree("raw_stats", kw, mo, io)
        elif any(a[1] is None for a in kw["alns"]):
            ctx.mark_nontrivial(C._digest("raw_stats", kw))
    # the BED printer on retained records
    cases = [{"recs": r} for r in bed_cases(rng, 400 if quick else 4000)]
    outs = D.run([vlib.req("C05.bed_lines", **kw) for kw in cases])
    for kw, mo in zip(cases, outs):
        ctx.evaluations += 1
        ctx.count("op:bed_lines")
        if isinstance(mo, dict) and "driver_error" in mo:
            ctx.disagree("bed_lines", kw, mo, None)
            continue
        try:
            io = vlib.canon(real_bed_lines(kw["recs"]))
        except Exception as ex:      # noqa
            io = {"error": "error", "exc": type(ex).__name__}
        ctx.traces_validated += 1
        if not vlib.same(mo, io):
            ctx.disagree("bed_lines", kw, C._short(mo), C._short(io))
        elif len(mo) < len(kw["recs"]):
            ctx.mark_nontrivial(C._digest("bed_lines", kw))
    _check_fetch_raw(ctx)


def _check_fetch_raw(ctx):
    """pysam on a real BAM: fetch returns a record without CIGAR / a placed unmapped read exactly when the ONE base at its
    position lies in the window, and gives reference_end None for it (`RawAln.fetchIv`, `rawFetch`)"""
    import pysam
    from gen import synth
    rng = ctx.rng
    d = vlib.scratch_dir("isoverif_c05_fetchraw_")
    try:
        ds = synth.Dataset(rng.randint(0, 10 ** 6))
        ds.add_chrom("chrA", 20000)
        recs = []
        for i in range(120):
            st = rng.randint(0, 15000)
            k = rng.random()
            if k < 0.3:
                ds.add_raw_record("q%d" % i, "chrA", st, None, flag=4, mapq=0)
                recs.append((st, None, "q%d" % i))
            elif k < 0.4:
                ds.add_raw_record("q%d" % i, "chrA", st, None, flag=0)
                recs.append((st, None, "q%d" % i))
            else:
                ln = rng.choice([1, 2, 50, 256, 700])
                ds.add_read("q%d" % i, "chrA", st, "%dM" % ln)
                recs.append((st, st + ln, "q%d" % i))
        paths = ds.write(d, write_ref=False)
        recs.sort(key=lambda r: r[0])
        bam = pysam.AlignmentFile(paths["bam"], "rb", require_index=True)
        ends = {x.query_name: x.reference_end for x in bam.fetch("chrA")}
        for s, e, n in recs:
            ctx.evaluations += 1
            ctx.count("op:pysam_reference_end_none")
            ctx.traces_validated += 1
            if ends.get(n, "absent") != e:
                ctx.disagree("pysam_reference_end_none", {"name": n}, e, ends.get(n, "absent"))
        for _ in range(150):
            a = rng.randint(0, 16000)
            b = a + rng.choice([0, 1, 255, 1000])
            got = sorted(x.query_name for x in bam.fetch("chrA", a, b + 1))
            exp = sorted(n for s, e, n in recs if s <= b and (s if e is None else e - 1) >= a)
            ctx.evaluations += 1
            ctx.count("op:pysam_fetch_raw_assumption")
            ctx.traces_validated += 1
            if got != exp:
                ctx.disagree("pysam_fetch_raw_assumption", {"a": a, "b": b}, exp[:20], got[:20])
        bam.close()
    finally:
        shutil.rmtree(d, ignore_errors=True)


# ------------------------------------------------------------------------------------------------
# pipeline level

EDGE_CASES = ["placed_unmapped", "unmapped_mate", "no_cigar", "placed_unmapped_tie_two_files",
              "bridge_twin", "bridge_control", "dup_names_two_files", "dup_names_one_file",
              "low_mapq_plain", "low_mapq_genes"]


def _base_reads(ds, n=20):
    for i in range(n):
        ds.add_read("r%d" % i, "chrS", 1000 + 300 * i, "200M")
    return collections.Counter({"r%d" % i: 1 for i in range(n)})


def build_edge(spec):
    """-> dict(dss=[Dataset per BAM file], genedb, need (name -> min lines), allow (name -> max lines), cats, note)"""
    from gen import synth
    case, seed = spec["case"], spec.get("seed", 5)
    rng = random.Random(seed)
    ds = synth.Dataset(seed)
    res = {"dss": [ds], "genedb": False, "cats": collections.Counter(), "single_alignment": set()}
    if case in ("placed_unmapped", "unmapped_mate", "no_cigar", "placed_unmapped_tie_two_files"):
        ds.add_chrom("chrS", 20000)
        need = _base_reads(ds)
        res["cats"]["primary"] = 20
        pos = 1000 + 300 * rng.randint(0, 19) + rng.choice([0, 0, 50, 250])
        if case == "placed_unmapped":
            ds.add_raw_record("u_placed", "chrS", pos, None, flag=4, mapq=0)
            res["cats"]["unaligned"] += 1
        elif case == "unmapped_mate":
            # paired-end convention: mapped first mate (flag 73 = paired, mate unmapped, first), unmapped second mate
            # (flag 133 = paired, unmapped, second) placed at the position of its mate, same query name
            ds.add_read("pair0", "chrS", pos, "150M", flag=73)
            ds.add_raw_record("pair0", "chrS", pos, None, flag=133, mapq=0)
            need["pair0"] = 1
            res["cats"]["primary"] += 1
            res["cats"]["unaligned"] += 1
        elif case == "no_cigar":
            ds.add_raw_record("nocigar", "chrS", pos, None, flag=0, mapq=60)     # in no category (reading rule)
        else:
            ds2 = synth.Dataset(seed)
            ds2.chroms = ds.chroms
            ds2.add_raw_record("u_placed", "chrS", 1000 + 300 * 3, None, flag=4, mapq=0)    # same start as r3 of file 1
            ds2.add_read("x0", "chrS", 300, "100M")
            need["x0"] = 1
            res["cats"]["primary"] += 1
            res["cats"]["unaligned"] += 1
            res["dss"].append(ds2)
        res["need"], res["allow"] = need, dict(need)
    elif case in ("bridge_twin", "bridge_control"):
        gap = 58000 + 256 * rng.randint(0, 8) if case == "bridge_twin" else 20000
        ds.add_chrom("chrS", 2000 + gap + 6000)
        g2 = 2000 + gap
        t1 = [(2001, 2300), (2601, 3000)]
        t2 = [(g2 + 1, g2 + 300), (g2 + 601, g2 + 1000)]
        ds.add_gene("chrS", "G1", "+", [("T1", t1)])
        ds.add_gene("chrS", "G2", "+", [("T2", t2)])
        ds.plant_sites("chrS", [(3001, g2)], "+")
        ds.read_from_exons("bridge", "chrS", t1 + t2)
        need = collections.Counter({"bridge": 1})
        for i in range(5):
            ds.read_from_exons("g1_%d" % i, "chrS", t1)
            ds.read_from_exons("g2_%d" % i, "chrS", t2)
            need["g1_%d" % i] = 1
            need["g2_%d" % i] = 1
        res["cats"]["primary"] = 11
        res["genedb"] = True
        res["need"], res["allow"] = need, dict(need)
    elif case in ("dup_names_two_files", "dup_names_one_file"):
        # GAP 3 (reading rule: a read is a query name): every name on two primary records at different loci
        ds.add_chrom("chrS", 30000)
        ds2 = synth.Dataset(seed)
        ds2.chroms = ds.chroms
        need, allow = collections.Counter(), {}
        for i in range(10):
            ds.add_read("read_%d" % i, "chrS", 1000 + 400 * i, "200M")
            (ds2 if case == "dup_names_two_files" else ds).add_read("read_%d" % i, "chrS", 12000 + 400 * i, "200M")
            need["read_%d" % i] = 1
            allow["read_%d" % i] = 2
        if case == "dup_names_two_files":
            res["dss"].append(ds2)
        res["cats"]["primary"] = 20
        res["need"], res["allow"] = need, allow
        res["dup_names"] = True
    elif case in ("low_mapq_plain", "low_mapq_genes"):
        # GAP 5: primary records with MAPQ 0..5 and 60, near a gene and far from it on a thin 49-kb chain that is cut
        ds.add_chrom("chrS", 70000)
        genes = case == "low_mapq_genes"
        need, allow = collections.Counter(), {}
        t = [(5001, 5300), (5601, 6000)]
        if genes:
            ds.add_gene("chrS", "G1", "+", [("T1", t)])
        n = 0
        for i in range(5):
            ds.read_from_exons("g1_%d" % i, "chrS", t)
            need["g1_%d" % i] = 1
            n += 1
        pos = 5800
        k = 0
        while pos < 56000:                       # thin chain: every read overlaps the next one
            ds.add_read("chain_%d" % k, "chrS", pos, "1500M")
            need["chain_%d" % k] = 1
            n += 1
            k += 1
            pos += 1200
        for where, p0 in (("near", 6500), ("far", 48000)):
            for q in (0, 1, 2, 3, 4, 5, 60):
                name = "%s_mapq%d" % (where, q)
                ds.add_read(name, "chrS", p0 + 37 * q, "300M", mapq=q)
                n += 1
                if genes:
                    # with an annotation: >= inconsistent_mapq_cutoff (5) always reported; below it the verdict depends on
                    # whether the sub-region holding the read loads a gene (documented cut-offs 5 / 1): optional
                    if q >= 5:
                        need[name] = 1
                    else:
                        allow[name] = 1
                else:
                    # annotation-free mode: 1 or 2 exons and MAPQ < simple_alignments_mapq_cutoff (1) filtered
                    if q >= 1:
                        need[name] = 1
        res["cats"]["primary"] = n
        res["genedb"] = genes
        for k_, v in need.items():
            allow.setdefault(k_, v)
        res["need"], res["allow"] = need, allow
    else:
        raise ValueError("unknown edge case %r" % case)
    return res


def check_edge_pipeline(spec, notes=None):
    """runs the real pipeline in both memory modes; returns (kind, detail) or None"""
    import pipeline as P
    b = build_edge(spec)
    for mode in ("default", "high_memory"):
        d = P.scratch("isoverif_c05e_")
        try:
            paths, bams = None, []
            for i, ds in enumerate(b["dss"]):
                p = ds.write(os.path.join(d, "in%d" % i), write_ref=(i == 0))
                if paths is None:
                    paths = p
                bams.append(p["bam"])
            out = os.path.join(d, "out")
            args = P.std_args(paths, genedb=b["genedb"], extra=(["--high_memory"] if mode == "high_memory" else []))
            k = args.index("--bam")
            args = args[:k + 1] + bams + args[k + 2:]
            rc, log = P.run_isoquant(out, args)
            if rc != 0:
                err = [l for l in log.splitlines() if "Error" in l][-1:]
                return ("pipeline_aborts:%s:%s" % (spec["case"], mode), "rc %d %s" % (rc, err or log[-300:]))
            files = P.out_files(out)
            bedname = [f for f in files if f.endswith("corrected_reads.bed")][0]
            rows = P.read_bed(files[bedname])
            bed = collections.Counter(r[3] for r in rows)
            missing = sorted(n for n, c in b["need"].items() if bed[n] < c)
            if missing:
                return ("read_missing_in_bed:%s:%s" % (spec["case"], mode),
                        "%d of %d reads passing the filters are absent from corrected_reads.bed, e.g. %s"
                        % (len(missing), len(b["need"]), missing[:3]))
            over = sorted(n for n, c in bed.items() if c > b["allow"].get(n, 0))
            if over:
                n0 = over[0]
                mine = [tuple(r) for r in rows if r[3] == n0]
                ident = len(set(mine)) < len(mine)
                kind = "alignment_twice_in_bed" if (ident and b["allow"].get(n0, 0) >= 1) else "read_repeated_or_unexpected_in_bed"
                return ("%s:%s:%s" % (kind, spec["case"], mode),
                        "read %s has %d line(s) in corrected_reads.bed (%s), at most %d expected"
                        % (n0, bed[n0], "byte-identical" if ident else "different", b["allow"].get(n0, 0)))
            if b["genedb"]:
                tsv = [f for f in files if f.endswith("read_assignments.tsv")][0]
                lines = P.read_lines(files[tsv])
                twins = [l for l, c in collections.Counter(lines).items() if c > 1]
                if twins:
                    return ("identical_records_in_tsv:%s:%s" % (spec["case"], mode), twins[0][:200])
                ids = set(l.split("\t")[0] for l in lines)
                missing = sorted(n for n in b["need"] if n not in ids)
                if missing:
                    return ("read_missing_in_tsv:%s:%s" % (spec["case"], mode), str(missing[:3]))
            m = re.search(r"overall alignment statistics:?(.*?)(?:Finishing read assignment|No reads were assigned)", log, re.S)
            if not m:
                return ("log_stats_missing:%s:%s" % (spec["case"], mode), "statistics block not found in the log")
            st = {k_: int(v) for k_, v in re.findall(r"(primary|secondary|supplementary|unaligned): (\d+)", m.group(1))}
            st = {k_: v for k_, v in st.items() if v}
            exp = {k_: v for k_, v in b["cats"].items() if v}
            if st != exp:
                return ("log_stats_mismatch:%s:%s" % (spec["case"], mode), "log %s vs input categories %s" % (st, exp))
            if notes is not None and mode == "default":
                if b.get("dup_names"):
                    notes["%s" % spec["case"]] = {
                        "primary_records": 20, "names": 10, "bed_lines": sum(bed.values()), "distinct_names_in_bed": len(bed),
                        "classification": "documented domain (reading rule 'a read is a query name'): every name reported, "
                                          "%d of 20 primary records have no line of their own" % (20 - sum(bed.values()))}
                if spec["case"].startswith("low_mapq"):
                    notes[spec["case"]] = {"optional_reported": sorted(n for n in bed if n not in b["need"]),
                                           "optional_not_reported": sorted(n for n in b["allow"] if n not in b["need"] and n not in bed)}
        finally:
            shutil.rmtree(d, ignore_errors=True)
    return None


def oracle(ctx, disagreements, broken):
    rng = ctx.rng
    quick = ctx.tier == "quick"
    n = 0
    # 1. disagreeing inputs first (one replay per failure kind)
    done = set()
    for dsg in disagreements[:60]:
        inp = dsg.get("input")
        if dsg["op"] in ("collect_raw", "raw_stats") and isinstance(inp, dict):
            r = check_raw(inp["alns"])
            n += 1
            if r and r[0] not in done:
                done.add(r[0])
                alns = _shrink_raw(inp["alns"], r[0])
                ctx.fail(r[0], {"level": "edge_raw", "alns": alns}, (check_raw(alns) or r)[1])
        if dsg["op"] == "bed_lines" and isinstance(inp, dict):
            r = check_bed(inp["recs"])
            n += 1
            if r and r[0] not in done:
                done.add(r[0])
                recs = _shrink_list(inp["recs"], lambda c: (lambda x: x is not None and x[0] == r[0])(check_bed(c)))
                ctx.fail(r[0], {"level": "edge_bed", "recs": recs}, (check_bed(recs) or r)[1])
    # 2. in-process search
    done |= set(f["kind"] for f in ctx.failures)
    for alns in raw_sets(rng, 120 if quick else 1500) + raw_split_sets(rng, 4 if quick else 40):
        n += 1
        r = check_raw(alns)
        if r and r[0] not in done:
            done.add(r[0])
            alns = _shrink_raw(alns, r[0])
            ctx.fail(r[0], {"level": "edge_raw", "alns": alns}, (check_raw(alns) or r)[1])
    for recs in bed_cases(rng, 150 if quick else 2000):
        n += 1
        r = check_bed(recs)
        if r and r[0] not in done:
            done.add(r[0])
            recs = _shrink_list(recs, lambda c: (lambda x: x is not None and x[0] == r[0])(check_bed(c)))
            ctx.fail(r[0], {"level": "edge_bed", "recs": recs}, (check_bed(recs) or r)[1])
    # 3. the real pipeline
    notes = {}
    for case in EDGE_CASES:
        if ctx.elapsed() > (160 if quick else 1100):
            ctx.notes.append("edge pipeline oracle stopped early (time budget)")
            break
        for seed in ([5] if quick else [5, 6, 7]):
            spec = {"case": case, "seed": seed}
            n += 1
            ctx.count("oracle_edge_pipeline:" + case)
            r = check_edge_pipeline(spec, notes)
            if r:
                ctx.fail(r[0], {"level": "edge_pipeline", "spec": spec}, r[1])
                break
    ctx.extra["edge_domain_classification"] = notes
    ctx.extra["oracle_edge_cases"] = n


def _shrink_list(items, fails):
    cur = list(items)
    i = 0
    while i < len(cur) and len(cur) > 1:
        cand = cur[:i] + cur[i + 1:]
        if fails(cand):
            cur = cand
        else:
            i += 1
    return cur


def _shrink_raw(alns, kind):
    if len(alns) > 400:
        return alns
    def fails(c):
        c = [list(a) for a in c]
        r = check_raw(c)
        return r is not None and r[0] == kind
    return _shrink_list(alns, fails)


def replay(ctx, failure):
    inp = failure["input"]
    if inp.get("level") == "edge_raw":
        return check_raw(inp["alns"]) is not None
    if inp.get("level") == "edge_bed":
        return check_bed(inp["recs"]) is not None
    if inp.get("level") == "edge_pipeline":
        return check_edge_pipeline(inp["spec"]) is not None
    return False
