"""C13 — exon / intron inclusion and exclusion counts equal a recount from the alignments."""
import os
import shutil
import tempfile
from functools import partial
from types import SimpleNamespace

import vlib
from gen import c13_features as F

ID = "C13"
PROPS = ["IsoVerif/Props/C13.lean", "IsoVerif/Props/C13Profiles.lean", "IsoVerif/Props/C13Rows.lean", "IsoVerif/Props/C13Chromosome.lean",
         "IsoVerif/Props/C13Local.lean"]
TARGETS = ["IsoVerif.Props.C13", "IsoVerif.Props.C13Profiles", "IsoVerif.Props.C13Rows", "IsoVerif.Props.C13Chromosome",
           "IsoVerif.Props.C13Local"]
GEN_DEPS = ["Prims", "Strategies", "Constants", "Enums", "EventClasses", "Resolver"]
LEVEL = "proof"
RULE = ("model vs implementation on (a) construct_exon_profile / construct_intron_profile through the real "
        "CombinedProfileConstructor wiring: sampled small universe (<=2 known features, <=3 gapped blocks over 1..8, delta 0..2) "
        "+ genome-scale annotations with alternative sites within delta, contained and multi-gene features; "
        "(b) GeneInfo.set_feature_properties on generated isoform sets; (c) ProfileFeatureCounter histories (real "
        "ExonCounter/IntronCounter fed with fake assignments, dumped file parsed back, exact row text) incl. a malformed "
        "stream (profile longer than the property map); (d) whole in-process 'chromosomes': GeneInfo.from_models loaded "
        "several times (also through split sub-regions: gene infos built from different gene subsets), real profiles, the four "
        "real counters, dumped tables parsed back; (e) FeatureInfo.merge on generated description pairs (well-formed + malformed) and "
        "on descriptions the real set_feature_properties derives from gene subsets.  A case is non-trivial when the "
        "model returns a non-error value with at least one counted feature / non-zero profile entry and model == "
        "implementation; distinct by (op, input)")
TRUSTED = ["Model/Profiles.lean constructors are corresponded under C19 as well as here through the wrappers",
           "the in-process feed mirrors AlignmentCollector.process_genic (profile constructor wiring, fields copied to the "
           "read assignment) and ReadAssignmentAggregator (four counters); the pipeline oracle exercises the real feed"]
ASSUMPTIONS = ["CPython int semantics = Lean Int; Python str order on ASCII group names / strands = Lean String order",
               "gene lists come from a Python set: compared as sorted lists (their order is C06's subject)",
               "pipeline oracle domain: primary alignments, MAPQ 60, unique read ids; features longer than delta and read "
               "features more than delta apart (synthetic data); processed blocks are read back from read_assignments.tsv "
               "when polyA trimming changed them",
               "reading of 'skips': exon inside (first exon end + delta, last exon start - delta) or strictly inside a read "
               "intron; intron overlapped by the read span per overlaps_at_least(minimal_intron_absence_overlap = 20); "
               "a feature matched within delta that loses the tie to a closer annotated variant is not 'contained' "
               "(DESIGN.md §6)"]

DEFAULT_GROUP = "NA"
STATS = {"pairs_exact": 0, "pairs_micro_class": 0, "present": 0, "absent": 0, "tie_loser": 0}


def _impl():
    vlib.repo_on_path()
    import src.common as C
    import src.gene_info as GI
    import src.long_read_profiles as LP
    import src.long_read_counter as LC
    import src.isoform_assignment as IA
    return C, GI, LP, LC, IA


def tl(l):
    return [tuple(x) for x in l]


# ------------------------------------------------------------------------------------------------
# implementation adapters

def _stub_gene_info(known_exons, known_introns, region):
    C, GI, LP, LC, IA = _impl()
    gi = SimpleNamespace()
    gi.start, gi.end = region
    gi.intron_profiles = GI.FeatureProfiles()
    gi.intron_profiles.set_features(tl(known_introns))
    gi.exon_profiles = GI.FeatureProfiles()
    gi.exon_profiles.set_features(tl(known_exons))
    gi.split_exon_profiles = GI.FeatureProfiles()
    gi.split_exon_profiles.set_features([])
    return gi


def _params(d, abs_d):
    return SimpleNamespace(delta=d, minimal_intron_absence_overlap=abs_d, minimal_exon_overlap=5, count_exons=True)


def impl_profile(op, kw):
    C, GI, LP, LC, IA = _impl()
    known = tl(kw["known"])
    if op == "exon_profile":
        cpc = LP.CombinedProfileConstructor(_stub_gene_info(known, [], tuple(kw["gene_region"])), _params(kw["d"], 20))
        r = cpc.exon_profile_constructor.construct_exon_profile(tl(kw["blocks"]), kw["polya"], kw["polyt"])
    else:
        cpc = LP.CombinedProfileConstructor(_stub_gene_info([], known, tuple(kw["gene_region"])), _params(kw["d"], kw["abs_d"]))
        r = cpc.intron_profile_constructor.construct_intron_profile(tl(kw["blocks"]), kw["polya"], kw["polyt"])
    return {"gene": r.gene_profile, "read": r.read_profile, "range": list(r.gene_profile_range)}


def impl_feature_properties(kw):
    C, GI, LP, LC, IA = _impl()
    gi = GI.GeneInfo.__new__(GI.GeneInfo)
    gi.chr_id = kw["chr"]
    gi.delta = kw["d"]
    gi.isoform_strands = {t["tid"]: t["strand"] for t in kw["isoforms"]}
    gi.gene_id_map = {t["tid"]: t["gene"] for t in kw["isoforms"]}
    fp = GI.FeatureProfiles()
    fp.set_features(tl(kw["features"]))
    GI.FeatureInfo.feature_id_counter.value = kw["next_id"]
    props = gi.set_feature_properties({t["tid"]: tl(t["feats"]) for t in kw["isoforms"]}, fp)
    return {"props": [fi_dict(p) for p in props],
            "strs": [p.to_str() for p in props]}


def _mk_fi(f):
    C, GI, LP, LC, IA = _impl()
    o = GI.FeatureInfo(f["chr"], f["start"], f["end"], f["strand"], f["type"], list(f["genes"]))
    o.id = f.get("id", o.id)
    return o


def impl_merge_info(kw):
    m = _mk_fi(kw["a"]).merge(_mk_fi(kw["b"]))
    return {"chr": m.chr_id, "start": m.start, "end": m.end, "strand": m.strand, "type": m.type, "genes": list(m.gene_ids),
            "str": m.to_str()}


def fi_dict(p):
    return {"id": p.id, "chr": p.chr_id, "start": p.start, "end": p.end, "strand": p.strand, "type": p.type,
            "genes": sorted(p.gene_ids)}


def parse_counts(path):
    """dumped ProfileFeatureCounter file -> (header, [row dict], [raw text lines])"""
    rows, texts, header = [], [], None
    with open(path) as f:
        for l in f:
            l = l.rstrip("\n")
            if l.startswith("#"):
                header = l
                continue
            p = l.split("\t")
            rows.append({"chr": p[0], "start": int(p[1]), "end": int(p[2]), "strand": p[3], "type": p[4],
                         "genes": sorted(g for g in p[5].split(",")) if p[5] else [], "group": p[6], "incl": int(p[7]),
                         "excl": int(p[8])})
            texts.append(l)
    return header, rows, texts


EXPECTED_HEADER = "#chr\tstart\tend\tstrand\tflags\tgene_ids\tgroup_id\tinclude_counts\texclude_counts"


def impl_count_dump(kw, which="exon"):
    C, GI, LP, LC, IA = _impl()
    pmaps = []
    for pm in kw["pmaps"]:
        objs = []
        for f in pm:
            o = GI.FeatureInfo(f["chr"], f["start"], f["end"], f["strand"], f["type"], list(f["genes"]))
            o.id = f["id"]
            objs.append(o)
        pmaps.append(objs)
    d = tempfile.mkdtemp(prefix="isoverif_c13_")
    try:
        cls = LC.ExonCounter if which == "exon" else LC.IntronCounter
        cnt = cls(os.path.join(d, "x"), ignore_read_groups=kw["ignore_groups"])
        for ev in kw["events"]:
            ra = SimpleNamespace(exon_gene_profile=list(ev["profile"]) if which == "exon" else [],
                                 intron_gene_profile=list(ev["profile"]) if which != "exon" else [],
                                 gene_info=SimpleNamespace(exon_property_map=pmaps[ev["pmap"]], intron_property_map=pmaps[ev["pmap"]]),
                                 read_group=ev["group"])
            cnt.add_read_info(ra)
        cnt.dump()
        header, rows, texts = parse_counts(cnt.output_counts_file_name)
        if header != EXPECTED_HEADER:
            return {"bad_header": header}
        for r, t in zip(rows, texts):
            r["text"] = t
        return rows
    finally:
        shutil.rmtree(d, ignore_errors=True)


def build_loads(case):
    """real GeneInfo objects for the loads of a pipeline case (+ the id counter value before the first load)"""
    C, GI, LP, LC, IA = _impl()
    gis = []
    next_id = GI.FeatureInfo.feature_id_counter.value
    for isos in case["loads"]:
        models = [GI.TranscriptModel(case["chr"], t["strand"], t["tid"], t["gene"], tl(t["feats"]), GI.TranscriptModelType.known)
                  for t in isos]
        gi = GI.GeneInfo.from_models(models, case["d"])
        # GeneInfo.__init__ / deserialize: exon map first, then intron map
        gi.exon_property_map = gi.set_feature_properties(gi.all_isoforms_exons, gi.exon_profiles)
        gi.intron_property_map = gi.set_feature_properties(gi.all_isoforms_introns, gi.intron_profiles)
        gis.append(gi)
    return gis, next_id


def impl_pipeline_counts(case, gis=None, want_profiles=False):
    """the feed of process_genic + ReadAssignmentAggregator on one in-process chromosome"""
    C, GI, LP, LC, IA = _impl()
    if gis is None:
        gis, _ = build_loads(case)
    params = _params(case["d"], case["abs_d"])
    d = tempfile.mkdtemp(prefix="isoverif_c13_")
    try:
        counters = {"exon": LC.ExonCounter(os.path.join(d, "S.exon"), ignore_read_groups=True),
                    "intron": LC.IntronCounter(os.path.join(d, "S.intron"), ignore_read_groups=True),
                    "exon_grouped": LC.ExonCounter(os.path.join(d, "S.exon_grouped")),
                    "intron_grouped": LC.IntronCounter(os.path.join(d, "S.intron_grouped"))}
        comp = LC.CompositeCounter([])
        comp.add_counters(list(counters.values()))
        cpcs = [LP.CombinedProfileConstructor(gi, params) for gi in gis]
        profiles = []
        for i, r in enumerate(case["reads"]):
            gi = gis[r["gene"]]
            pinfo = SimpleNamespace(external_polya_pos=r["polya"], external_polyt_pos=r["polyt"], internal_polya_pos=-1,
                                    internal_polyt_pos=-1)
            comb = cpcs[r["gene"]].construct_profiles(tl(r["blocks"]), pinfo, [])
            ra = IA.ReadAssignment("r%d" % i, IA.ReadAssignmentType.unique)
            ra.gene_info = gi
            ra.read_group = r["group"]
            ra.exon_gene_profile = comb.read_exon_profile.gene_profile
            ra.intron_gene_profile = comb.read_intron_profile.gene_profile
            profiles.append((list(ra.exon_gene_profile), list(ra.intron_gene_profile)))
            comp.add_read_info(ra)
        comp.dump()
        res = {}
        for k, c in counters.items():
            header, rows, _ = parse_counts(c.output_counts_file_name)
            if header != EXPECTED_HEADER:
                return {"bad_header": header}
            res[k] = rows
        if want_profiles:
            res["_profiles"] = profiles
        return res
    finally:
        shutil.rmtree(d, ignore_errors=True)


def case_to_req(case, gis, next_id):
    genes = [{"region": [gi.start, gi.end], "isoforms": isos} for gi, isos in zip(gis, case["loads"])]
    return {"chr": case["chr"], "d": case["d"], "abs_d": case["abs_d"], "default_group": case["default_group"],
            "next_id": next_id, "genes": genes, "reads": case["reads"]}


# ---- chromosome level: real forward_alignments / gene loading / resolver / counter, table-driven per-alignment answers ----

class _FakeAln:
    __slots__ = ("reference_start", "reference_end", "is_secondary", "is_supplementary", "reference_id", "mapping_quality",
                 "query_name", "rid", "is_reverse")

    def __init__(self, a):
        self.reference_start, self.reference_end = a[0], a[1]
        self.is_secondary = bool(a[2] & 1)
        self.is_supplementary = bool(a[2] & 2)
        self.reference_id = -1 if a[2] & 4 else 0
        self.mapping_quality = a[3]
        self.rid = a[4]
        self.query_name = "r%06d" % a[4]
        self.is_reverse = False


class _FakeBam:
    """pysam fetch = overlap filter on the half-open interval, file order"""

    def __init__(self, objs):
        self.objs = objs

    def fetch(self, chr_id, start, end, multiple_iterators=False):
        return iter([a for a in self.objs if a.reference_start < end and a.reference_end > start])

    def get_reference_length(self, chr_id):
        return 10 ** 12

    def reset(self):
        pass


class _FakeGene:
    def __init__(self, g):
        self.id, self.start, self.end = g[0], g[1], g[2]


class _FakeGenedb:
    """gffutils FeatureDB.region(seqid, start, end, featuretype='gene'): the gene records overlapping [start, end]"""

    def __init__(self, genes):
        self.genes = [_FakeGene(g) for g in genes]

    def region(self, seqid=None, start=None, end=None, featuretype=None):
        return iter([g for g in self.genes if g.start <= end and g.end >= start])


def _assigned(a, kw):
    """mirror of the first two `continue`s of process_genic / process_intergenic (the table-driven `work` replaces those
    functions): reference_id -1, supplementary, --no_secondary secondaries, MAPQ < --min_mapq get no record"""
    return not (a.reference_id == -1 or a.is_supplementary or (kw.get("no_secondary") and a.is_secondary) or
                (kw.get("min_mapq") and a.mapping_quality < kw["min_mapq"]))


def _assigned_rids(kw):
    return {a[4] for a in kw["alns"] if _assigned(_FakeAln(a), kw)}


def impl_chromosome(kw):
    """one chromosome through the REAL AlignmentCollector.process / forward_alignments / process_alignments_in_region /
    get_gene_info_for_region (storages, splitting, which region the genes are asked for), the REAL MultimapResolver and the
    REAL ExonCounter; only GeneInfo construction and the per-alignment work of process_genic / process_intergenic are replaced
    by the tables of the case"""
    C, GI, LP, LC, IA = _impl()
    import src.alignment_processor as AP
    import src.multimap_resolver as MR
    import src.stats as ST
    hits = {r: h for r, h in kw["hits"]}
    marks = {r: m for r, m in kw["marks"]}
    asked = []

    class FakeGI:
        def __init__(self, gene_list, db, delta):
            self.gids = [g.id for g in gene_list]

        @classmethod
        def from_region(cls, chr_id, start, end, delta=0, chr_record=None):
            o = cls([], None, delta)
            return o

        def empty(self):
            return not self.gids

        def set_reference_sequence(self, *a):
            pass

    objs = [_FakeAln(a) for a in kw["alns"]]
    col = AP.AlignmentCollector.__new__(AP.AlignmentCollector)
    col.chr_id = "chrF"
    col.params = SimpleNamespace(high_memory=kw["mode"] == "memory", needs_reference=False, delta=6,
                                 no_secondary=bool(kw.get("no_secondary")), min_mapq=kw.get("min_mapq", 0))
    col.bam_pairs = [(_FakeBam(objs), "fake.bam")]
    col.bam_merger = AP.BAMOnlineMerger(col.bam_pairs, "chrF", 0, 10 ** 12, multiple_iterators=kw["mode"] != "memory")
    col.alignment_stat_counter = ST.EnumStats()
    col.genedb = _FakeGenedb(kw["genes"])
    col.chr_record = None
    real_get = col.get_gene_info_for_region

    def get(region):
        asked.append([region[0], region[1]])
        return real_get(region)
    col.get_gene_info_for_region = get

    def work(alignment_storage, gene_info, region):
        res = []
        vis = set(gene_info.gids)
        for _, a in alignment_storage:
            if not _assigned(a, kw):
                continue
            h = [x for x in hits.get(a.rid, []) if x[1] in vis]
            ra = IA.BasicReadAssignment.__new__(IA.BasicReadAssignment)
            ra.assignment_id = 0
            ra.read_id, ra.chr_id, ra.start, ra.end = a.query_name, "chrF", a.reference_start, a.reference_end
            ra.genomic_region = tuple(region)
            ra.multimapper = a.is_secondary
            ra.polyA_found = False
            if not h:
                t = IA.ReadAssignmentType.intergenic if not vis else IA.ReadAssignmentType.noninformative
                ra.assignment_type = ra.gene_assignment_type = t
            else:
                ra.assignment_type = IA.ReadAssignmentType.unique if len(h) == 1 else IA.ReadAssignmentType.ambiguous
                ra.gene_assignment_type = IA.ReadAssignmentType.unique
            ra.penalty_score = 0.0
            ra.isoforms = ["T%06d" % x[0] for x in h]
            ra.genes = ["G%06d" % x[1] for x in h]
            ra.rid = a.rid
            if vis:
                ms = [m for m in marks.get(a.rid, []) if m[0] in vis]
                ra.profile = [m[3] for m in ms]
                ra.pmap = [GI.FeatureInfo("chrF", m[1], m[2], "+", "I", []) for m in ms]
            else:
                ra.profile = None
            res.append(ra)
        return res
    col.process_genic = work
    col.process_intergenic = lambda alignment_storage, region: work(alignment_storage, SimpleNamespace(gids=[]), region)
    saved = AP.GeneInfo
    AP.GeneInfo = FakeGI
    loads, records = [], []
    try:
        for gene_info, storage in col.process():
            loads.append({"genes": list(gene_info.gids), "rids": [ra.rid for ra in storage], "region": list(storage[0].genomic_region) if storage else None})
            records += storage
    finally:
        AP.GeneInfo = saved
    for l, g in zip(loads, asked):
        l["gene_region"] = g
        if l["region"] is None:
            l["region"] = g
    by_read = {}
    for ra in records:
        by_read.setdefault(ra.rid, []).append(ra)
    resolver = MR.MultimapResolver(MR.MultimapResolvingStrategy.take_best)
    kept, feed = [], []
    for rid in by_read:           # insertion order = first occurrence
        out = resolver.resolve(by_read[rid])
        evs = [ra for ra in out if ra.assignment_type != IA.ReadAssignmentType.suspended and ra.profile is not None]
        kept.append([rid, len(evs)])
        feed += evs
    d = tempfile.mkdtemp(prefix="isoverif_c13_")
    try:
        cnt = LC.ExonCounter(os.path.join(d, "x"), ignore_read_groups=True)
        for ra in feed:
            cnt.add_read_info(SimpleNamespace(exon_gene_profile=ra.profile, intron_gene_profile=[], read_group="NA",
                                              gene_info=SimpleNamespace(exon_property_map=ra.pmap, intron_property_map=[])))
        cnt.dump()
        _, rows, _ = parse_counts(cnt.output_counts_file_name)
    finally:
        shutil.rmtree(d, ignore_errors=True)
    return {"loads": loads, "kept": kept, "rows": [[r["start"], r["end"], r["incl"], r["excl"]] for r in rows]}


def oracle_chromosome(kw):
    """the chromosome-level statement on the real code: the row of feature f = the number of alignments of the chromosome that
    include / exclude f - every alignment once, whatever sub-regions it was handed to, with respect to the WHOLE annotation"""
    r = guarded(impl_chromosome, kw)
    if vlib.is_err(r):
        return [("crash", "chromosome feed raised: %s" % r)]
    exp = {}
    ok = _assigned_rids(kw)
    for rid, ms in kw["marks"]:
        if rid not in ok:
            continue
        for g, s_, e_, v in ms:
            e = exp.setdefault((s_, e_), [0, 0])
            e[0 if v == 1 else 1] += 1
    got = {(a, b): [i, e] for a, b, i, e in r["rows"]}
    fails = []
    # records that are never assigned need no genes: the region a (sub-)region asks the annotation for is the hull of the
    # sub-region and of the alignments it ASSIGNS (fix 48f2521-stretch-only-over-processed; Model `procOut`)
    by_rid = {a[4]: a for a in kw["alns"]}
    for l in r["loads"]:
        lo = min([l["region"][0]] + [by_rid[x][0] for x in l["rids"]])
        hi = max([l["region"][1]] + [by_rid[x][1] - 1 for x in l["rids"]])
        if list(l["gene_region"]) != [lo, hi]:
            fails.append(("gene_region_overreach", "sub-region %s assigns alignments %s and asks the annotation for %s, the extent "
                          "of the sub-region and its assigned alignments is %s" % (l["region"], l["rids"][:6], l["gene_region"], [lo, hi])))
            break
    if got != exp:
        bad = sorted(k for k in set(got) | set(exp) if got.get(k) != exp.get(k))
        twice = [x for x in r["kept"] if x[1] > 1]
        fails.append(("count_mismatch", "chromosome level (%s mode): %d features differ, e.g. %s reported incl/excl %s, recount %s; "
                      "alignments counted more than once: %s"
                      % (kw["mode"], len(bad), bad[0], got.get(bad[0]), exp.get(bad[0]), twice[:3])))
    return fails



# ---- chromosome level with the REAL GeneInfo / profile constructors (closure p13local) ----

def _real_gene_info(case, gene_ids):
    """the GeneInfo `get_gene_info_for_region` builds for the loaded gene records: the real constructor path needs a gffutils
    database; `GeneInfo.from_models` over the transcripts of exactly those genes builds the same feature lists, isoform maps
    and property maps (as `build_loads` of the in-process level)"""
    C, GI, LP, LC, IA = _impl()
    isos = {g: t for g, t in case["isoforms"]}
    models = [GI.TranscriptModel(case["chr"], t["strand"], t["tid"], t["gene"], tl(t["feats"]), GI.TranscriptModelType.known)
              for g in gene_ids for t in isos.get(g, [])]
    gi = GI.GeneInfo.from_models(models, case["d"]) if models else GI.GeneInfo.from_region(case["chr"], 0, 0, case["d"])
    if models:
        gi.exon_property_map = gi.set_feature_properties(gi.all_isoforms_exons, gi.exon_profiles)
        gi.intron_property_map = gi.set_feature_properties(gi.all_isoforms_introns, gi.intron_profiles)
    gi.gids = list(gene_ids)
    return gi


def _profiles_of(case, gi, cpc, rid):
    r = {k: v for k, v in case["reads"]}[rid] if not isinstance(case["reads"], dict) else case["reads"][rid]
    pinfo = SimpleNamespace(external_polya_pos=r["polya"], external_polyt_pos=r["polyt"], internal_polya_pos=-1,
                            internal_polyt_pos=-1)
    comb = cpc.construct_profiles(tl(r["blocks"]), pinfo, [])
    return list(comb.read_exon_profile.gene_profile), list(comb.read_intron_profile.gene_profile)


def impl_chromosome_profiles(kw):
    """one chromosome through the REAL AlignmentCollector.process / forward_alignments / process_alignments_in_region /
    get_gene_info_for_region, the REAL GeneInfo of the loaded genes (from_models + set_feature_properties), the REAL
    CombinedProfileConstructor for every alignment, the REAL MultimapResolver and the REAL ExonCounter / IntronCounter; only the
    assigner answers (assignment type, isoforms) come from the table of the case"""
    C, GI, LP, LC, IA = _impl()
    import src.alignment_processor as AP
    import src.multimap_resolver as MR
    import src.stats as ST
    hits = {r: h for r, h in kw["hits"]}
    reads = {r: v for r, v in kw["reads"]}
    case = dict(kw, reads=reads)
    params = _params(kw["d"], kw["abs_d"])
    asked = []

    class GIProxy:
        def __new__(cls, gene_list, db, delta):
            return _real_gene_info(kw, [g.id for g in gene_list])

        @classmethod
        def from_region(cls, chr_id, start, end, delta=0, chr_record=None):
            gi = GI.GeneInfo.from_region(chr_id, start, end, delta, chr_record)
            gi.gids = []
            return gi

    objs = [_FakeAln(a) for a in kw["alns"]]
    col = AP.AlignmentCollector.__new__(AP.AlignmentCollector)
    col.chr_id = kw["chr"]
    col.params = SimpleNamespace(high_memory=kw["mode"] == "memory", needs_reference=False, delta=kw["d"],
                                 no_secondary=bool(kw.get("no_secondary")), min_mapq=kw.get("min_mapq", 0))
    col.bam_pairs = [(_FakeBam(objs), "fake.bam")]
    col.bam_merger = AP.BAMOnlineMerger(col.bam_pairs, kw["chr"], 0, 10 ** 12, multiple_iterators=kw["mode"] != "memory")
    col.alignment_stat_counter = ST.EnumStats()
    col.genedb = _FakeGenedb(kw["genes"])
    col.chr_record = None
    real_get = col.get_gene_info_for_region

    def get(region):
        asked.append([region[0], region[1]])
        return real_get(region)
    col.get_gene_info_for_region = get

    def work(alignment_storage, gene_info, region):
        res = []
        genic = not gene_info.empty()
        vis = set(gene_info.gids)
        cpc = LP.CombinedProfileConstructor(gene_info, params) if genic else None
        for _, a in alignment_storage:
            if not _assigned(a, kw):
                continue
            h = [x for x in hits.get(a.rid, []) if x[1] in vis]
            ra = IA.BasicReadAssignment.__new__(IA.BasicReadAssignment)
            ra.assignment_id = 0
            ra.read_id, ra.chr_id, ra.start, ra.end = a.query_name, kw["chr"], a.reference_start, a.reference_end
            ra.genomic_region = tuple(region)
            ra.multimapper = a.is_secondary
            ra.polyA_found = False
            if not h:
                t = IA.ReadAssignmentType.intergenic if not vis else IA.ReadAssignmentType.noninformative
                ra.assignment_type = ra.gene_assignment_type = t
            else:
                ra.assignment_type = IA.ReadAssignmentType.unique if len(h) == 1 else IA.ReadAssignmentType.ambiguous
                ra.gene_assignment_type = IA.ReadAssignmentType.unique
            ra.penalty_score = 0.0
            ra.isoforms = ["T%06d" % x[0] for x in h]
            ra.genes = ["G%06d" % x[1] for x in h]
            ra.rid = a.rid
            ra.read_group = reads[a.rid]["group"]
            ra.gene_info = gene_info
            if genic:
                ra.exon_gene_profile, ra.intron_gene_profile = _profiles_of(case, gene_info, cpc, a.rid)
            else:
                ra.exon_gene_profile = ra.intron_gene_profile = None
            res.append(ra)
        return res
    col.process_genic = work
    col.process_intergenic = lambda alignment_storage, region: work(alignment_storage, GIProxy.from_region(kw["chr"], region[0], region[1]), region)
    saved = AP.GeneInfo
    AP.GeneInfo = GIProxy
    loads, records = [], []
    try:
        for gene_info, storage in col.process():
            loads.append({"genes": list(gene_info.gids), "rids": [ra.rid for ra in storage], "region": list(storage[0].genomic_region) if storage else None})
            records += storage
    finally:
        AP.GeneInfo = saved
    for l, g in zip(loads, asked):
        l["gene_region"] = g
        if l["region"] is None:
            l["region"] = g
    by_read = {}
    for ra in records:
        by_read.setdefault(ra.rid, []).append(ra)
    resolver = MR.MultimapResolver(MR.MultimapResolvingStrategy.take_best)
    kept, feed = [], []
    for rid in by_read:
        out = resolver.resolve(by_read[rid])
        evs = [ra for ra in out if ra.assignment_type != IA.ReadAssignmentType.suspended and ra.exon_gene_profile is not None]
        kept.append([rid, len(evs)])
        feed += evs
    d = tempfile.mkdtemp(prefix="isoverif_c13_")
    try:
        ce = LC.ExonCounter(os.path.join(d, "x"), ignore_read_groups=True)
        ci = LC.IntronCounter(os.path.join(d, "i"), ignore_read_groups=True)
        for ra in feed:
            ce.add_read_info(ra)
            ci.add_read_info(ra)
        ce.dump()
        ci.dump()
        _, rows_e, _ = parse_counts(ce.output_counts_file_name)
        _, rows_i, _ = parse_counts(ci.output_counts_file_name)
    finally:
        shutil.rmtree(d, ignore_errors=True)
    return {"loads": loads, "kept": kept, "exon": [[r["start"], r["end"], r["incl"], r["excl"]] for r in rows_e],
            "intron": [[r["start"], r["end"], r["incl"], r["excl"]] for r in rows_i]}


def whole_annotation_recount(kw):
    """the right-hand side of `chromosome_exon_rows` / `chromosome_intron_rows` on the real constructors: every alignment of the
    chromosome once, its profile against the GeneInfo of ALL genes of the chromosome"""
    C, GI, LP, LC, IA = _impl()
    reads = {r: v for r, v in kw["reads"]}
    case = dict(kw, reads=reads)
    gi = _real_gene_info(kw, [g[0] for g in kw["genes"]])
    exp = {"exon": {}, "intron": {}}
    if gi.empty():
        return exp
    cpc = LP.CombinedProfileConstructor(gi, _params(kw["d"], kw["abs_d"]))
    ok = _assigned_rids(kw)
    for a in kw["alns"]:
        if a[4] not in ok:
            continue
        pe, pi = _profiles_of(case, gi, cpc, a[4])
        for kind, prof, feats in (("exon", pe, gi.exon_profiles.features), ("intron", pi, gi.intron_profiles.features)):
            for v, f in zip(prof, feats):
                if v in (1, -1):
                    e = exp[kind].setdefault(tuple(f), [0, 0])
                    e[0 if v == 1 else 1] += 1
    return exp


def oracle_chromosome_profiles(kw):
    """`chromosome_exon_rows` / `chromosome_intron_rows` on the real code: the exon / intron table of the chromosome (collector,
    cuts, gene loading per sub-region, resolver, counters) = the recount of every alignment against the whole annotation"""
    r = guarded(impl_chromosome_profiles, kw)
    if vlib.is_err(r):
        return [("crash", "chromosome feed (real profiles) raised: %s" % r)]
    exp = whole_annotation_recount(kw)
    fails = []
    for kind in ("exon", "intron"):
        got = {(a, b): [i, e] for a, b, i, e in r[kind]}
        if got != exp[kind]:
            bad = sorted(k for k in set(got) | set(exp[kind]) if got.get(k) != exp[kind].get(k))
            twice = [x for x in r["kept"] if x[1] > 1]
            fails.append(("count_mismatch", "chromosome level, real profiles (%s mode, %s table): %d features differ, e.g. %s reported "
                          "incl/excl %s, recount against the whole annotation %s; alignments counted more than once: %s"
                          % (kw["mode"], kind, len(bad), bad[0], got.get(bad[0]), exp[kind].get(bad[0]), twice[:3])))
    return fails


# `last_base_gene_witness` (Props/C13Local.lean): gB starts at the 1-based last base of read 0; alone in its cluster the read
# never sees gB (the region asked for is (1000, 1999)), with a longer neighbour (read 1) gB is loaded and read 0 includes
# gB's first exon 2000-2004
LAST_BASE_CASE = {"no_secondary": False, "min_mapq": 0, "alns": [[1000, 2000, 0, 60, 0]], "genes": [[0, 1001, 1900], [1, 2000, 3000]], "hits": [[0, [[7, 0]]]],
                  "chr": "chr1", "d": 4, "abs_d": 20, "mode": "bam", "repaired": True,
                  "isoforms": [[0, [{"tid": "A.t1", "strand": "+", "gene": "gA", "feats": [[1001, 1200], [1801, 1900]]}]],
                               [1, [{"tid": "B.t1", "strand": "+", "gene": "gB", "feats": [[2000, 2004], [2500, 3000]]}]]],
                  "reads": [[0, {"blocks": [[1001, 1200], [1801, 1900], [1996, 2000]], "polya": -1, "polyt": -1, "group": "NA"}]]}
LAST_BASE_NEIGHBOUR = dict(LAST_BASE_CASE, alns=[[1000, 2000, 0, 60, 0], [1500, 2600, 0, 60, 1]],
                           hits=[[0, [[7, 0]]], [1, [[8, 1]]]],
                           reads=LAST_BASE_CASE["reads"] + [[1, {"blocks": [[1501, 1900], [2500, 2600]], "polya": -1, "polyt": -1,
                                                                "group": "NA"}]])


def impl_effective_delta(strategy, delta):
    try:
        return run_set_matching_options(strategy, delta).delta
    except (KeyError, SystemExit) as ex:
        return {"error": "error", "exc": type(ex).__name__}


def guarded(fn, *a, **kw):
    try:
        return vlib.canon(fn(*a, **kw))
    except (IndexError, AssertionError, ZeroDivisionError, KeyError, ValueError, TypeError, AttributeError) as ex:
        return {"error": "error", "exc": type(ex).__name__}


# ------------------------------------------------------------------------------------------------
# correspondence

def strip_text(rows):
    if isinstance(rows, list):
        return [{k: v for k, v in r.items() if k != "text"} for r in rows]
    return rows


def correspondence(ctx):
    rng = ctx.rng
    quick = ctx.tier == "quick"
    C, GI, LP, LC, IA = _impl()
    lines, post = [], []          # post: (op, kw, impl value, nontrivial predicate, comparer)

    # (a) profile wrappers
    for op, kw in F.profile_cases(rng, quick):
        lines.append(vlib.req("C13." + op, **kw))
        post.append((op, kw, guarded(impl_profile, op, kw), lambda mo: any(v in (1, -1) for v in mo["gene"]), None))

    # (b) set_feature_properties
    iso_sets = F.small_isoform_sets(rng, quick)
    for _ in range(60 if quick else 600):
        iso_sets.append(F.genome_annotation(rng, micro=rng.random() < 0.3))
    for isos in iso_sets:
        for kind in ("exon", "intron"):
            ii = isos if kind == "exon" else [dict(t, feats=F.junctions(t["feats"])) for t in isos]
            feats = sorted({tuple(e) for t in ii for e in t["feats"]})
            kw = {"chr": "chrQ", "d": rng.choice([0, 1, 2, 6]), "features": feats, "isoforms": ii, "next_id": rng.randint(0, 50)}
            lines.append(vlib.req("C13.feature_properties", **kw))
            post.append(("feature_properties", kw, guarded(impl_feature_properties, kw),
                         lambda mo: len(mo["props"]) > 0, _cmp_props))

    # (c) counter histories
    for i in range(400 if quick else 4000):
        h = F.history_case(rng, quick, malformed=(i % 7 == 0))
        for ignore in (True, False):
            kw = dict(h, key="coord", ignore_groups=ignore)
            lines.append(vlib.req("C13.count_dump", **kw))
            post.append(("count_dump", kw, guarded(impl_count_dump, kw, "exon" if i % 2 else "intron"),
                         lambda mo: len(mo) > 0, None))

    # (d) in-process chromosomes
    for i in range(150 if quick else 1500):
        case = F.pipeline_case(rng, quick, micro=(i % 5 == 0), split=(i % 3 == 1))
        try:
            gis, next_id = build_loads(case)
        except Exception as ex:   # annotation the real GeneInfo rejects: not in the domain
            ctx.count("pipeline_case_rejected:" + type(ex).__name__)
            continue
        kw = case_to_req(case, gis, next_id)
        io = guarded(impl_pipeline_counts, case, gis)
        lines.append(vlib.req("C13.pipeline_counts", **kw))
        post.append(("pipeline_counts", {"case": case}, io, lambda mo: len(mo["exon"]) + len(mo["intron"]) > 0, _cmp_pipeline))

    # (f) FeatureInfo.merge: generated description pairs + descriptions the real code derives from gene subsets
    pairs = list(F.label_pairs(rng, quick))
    for _ in range(40 if quick else 400):
        pairs += subset_label_pairs(rng, F.genome_annotation(rng, micro=rng.random() < 0.2), rng.choice([0, 2, 6]))[:12]
    for a, b in pairs:
        kw = {"a": a, "b": b}
        lines.append(vlib.req("C13.merge_info", **kw))
        post.append(("merge_info", kw, guarded(impl_merge_info, kw),
                     lambda mo: True, None))

    # (g) chromosome level: collector (C05 model) + gene loading of every (sub-)region + resolver (C08 model) + counter against
    #     the real forward_alignments / get_gene_info_for_region / MultimapResolver / ExonCounter (table-driven answers)
    for i in range(120 if quick else 1200):
        case = F.chromosome_case(rng, quick, small=(i % 3 == 0))
        kw = dict(case, mode="memory" if i % 2 else "bam", repaired=True)
        lines.append(vlib.req("C13.chromosome", **kw))
        post.append(("chromosome", kw, guarded(impl_chromosome, kw),
                     lambda mo: any(l["region"] != l["gene_region"] for l in mo["loads"]) and len(mo["rows"]) > 0, _cmp_chromosome))

    # (h) chromosome level with the REAL profile work (closure p13local): the `exonProc` / `intronProc` instances of the
    #     chromosome model against real GeneInfo objects of the loaded genes + real CombinedProfileConstructor + both counters;
    #     every fourth case leaves the hypotheses of the theorems (micro features), model and code must still agree
    for i in range(90 if quick else 900):
        case = F.chromosome_profile_case(rng, quick, small=(i % 3 == 0), micro=(i % 4 == 3))
        kw = dict(case, mode="memory" if i % 2 else "bam", repaired=True)
        lines.append(vlib.req("C13.chromosome_profiles", **kw))
        post.append(("chromosome_profiles", kw, guarded(impl_chromosome_profiles, kw),
                     lambda mo: any(l["region"] != l["gene_region"] for l in mo["loads"]) and len(mo["exon"]) + len(mo["intron"]) > 0,
                     _cmp_chromosome_profiles))
    for wcase in (LAST_BASE_CASE, LAST_BASE_NEIGHBOUR):
        lines.append(vlib.req("C13.chromosome_profiles", **wcase))
        post.append(("chromosome_profiles", wcase, guarded(impl_chromosome_profiles, wcase), lambda mo: len(mo["exon"]) > 0,
                     _cmp_chromosome_profiles))

    # (e) the delta a run uses: real set_matching_options vs the model over the regenerated preset table
    for strategy in ("exact", "precise", "default", "loose", "no_such_strategy"):
        for dv in (None, 0, 1, 2, 4, 6, 12, 30, -1):
            kw = {"strategy": strategy, "delta": dv}
            lines.append(vlib.req("C13.effective_delta", **kw))
            post.append(("effective_delta", kw, impl_effective_delta(strategy, dv), lambda mo: True, None))

    outs = ctx.driver.run(lines)
    for (op, kw, io, nontriv, cmpf), mo in zip(post, outs):
        ctx.evaluations += 1
        ctx.count("op:" + op)
        if isinstance(mo, dict) and "driver_error" in mo:
            ctx.disagree(op, kw, mo, None)
            continue
        ctx.traces_validated += 1
        if vlib.is_err(mo):
            ctx.count("model_error:" + op)
        ok = cmpf(mo, io) if (cmpf and not vlib.is_err(mo) and not vlib.is_err(io)) else vlib.same(mo, io)
        if not ok:
            ctx.disagree(op, kw, mo, io)
        elif not vlib.is_err(mo) and nontriv(mo):
            ctx.mark_nontrivial([op, kw])
            if op == "count_dump":
                ctx.count("rows_dumped", len(mo))
            if op == "pipeline_counts":
                ctx.count("pipeline_rows", sum(len(mo[k]) for k in ("exon", "intron", "exon_grouped", "intron_grouped")))
        if len(ctx.samples) < 8 and (ctx.rng.random() < 0.002 or len(ctx.samples) < 2):
            ctx.sample({"op": op, "input": vlib.canon(kw), "model": mo, "impl": io})
    ctx.extra["universe"] = {"profile_wrappers": "known sets of <=2 intervals over 1..8 (sampled), gapped block lists of <=3 blocks, "
                                                 "delta 0..2; genome-scale annotations (<=3 genes, <=4 isoforms each, micro-exon variant)",
                             "histories": "<=4 property maps sharing coordinates under different running ids, <=12 events, 5 groups"}


def subset_labels(isos, d, genes, kind):
    """the real set_feature_properties on the isoforms of the genes in `genes`: feature -> FeatureInfo dict"""
    sub = [t for t in isos if t["gene"] in genes]
    if kind == "intron":
        sub = [dict(t, feats=F.junctions(t["feats"])) for t in sub]
    feats = sorted({tuple(e) for t in sub for e in t["feats"]})
    if not feats:
        return {}
    r = impl_feature_properties({"chr": "chr1", "d": d, "features": feats, "isoforms": sub, "next_id": 0})
    return {(p["start"], p["end"]): p for p in r["props"]}


def subset_label_pairs(rng, isos, d):
    """pairs (description of f under gene subset A, under gene subset B) for features both subsets have"""
    gids = sorted({t["gene"] for t in isos})
    res = []
    for kind in ("exon", "intron"):
        A = [g for g in gids if rng.random() < 0.6] or gids[:1]
        B = [g for g in gids if rng.random() < 0.6] or gids[-1:]
        la, lb = subset_labels(isos, d, A, kind), subset_labels(isos, d, B, kind)
        for f in sorted(set(la) & set(lb)):
            res.append((la[f], lb[f]))
    rng.shuffle(res)
    return res


def oracle_merge_union(rng, isos, d):
    """FeatureInfo.merge against its meaning on the real code: merging the descriptions a feature gets under the gene
    subsets A and B gives the description it gets when the genes of A and B are loaded together (strand string, flags,
    gene list), in either order"""
    C, GI, LP, LC, IA = _impl()
    if not hasattr(GI.FeatureInfo, "merge"):
        return []
    fails = []
    gids = sorted({t["gene"] for t in isos})
    for kind in ("exon", "intron"):
        A = [g for g in gids if rng.random() < 0.6] or gids[:1]
        B = [g for g in gids if rng.random() < 0.6] or gids[-1:]
        la, lb, lu = (subset_labels(isos, d, X, kind) for X in (A, B, sorted(set(A) | set(B))))
        for f in sorted(set(la) & set(lb)):
            for x, y in ((la[f], lb[f]), (lb[f], la[f])):
                m = impl_merge_info({"a": x, "b": y})
                STATS["merge_union_checked"] = STATS.get("merge_union_checked", 0) + 1
                if (m["strand"], m["type"], m["genes"]) != (lu[f]["strand"], lu[f]["type"], lu[f]["genes"]):
                    fails.append(("merge_not_union", {"level": "merge", "isos": isos, "d": d, "A": A, "B": B, "kind": kind, "f": list(f)},
                                  "%s %s: merge of the descriptions under genes %s and %s gives %s/%s/%s, loading %s together gives %s/%s/%s"
                                  % (kind, f, A, B, m["strand"], m["type"], m["genes"], sorted(set(A) | set(B)),
                                     lu[f]["strand"], lu[f]["type"], lu[f]["genes"])))
    return fails


def _cmp_props(mo, io):
    """ids, coordinates, strand, flags exactly; gene lists sorted; to_str compared modulo gene order"""
    if mo["props"] != io["props"]:
        return False
    for a, b in zip(mo["strs"], io["strs"]):
        pa, pb = a.split("\t"), b.split("\t")
        if pa[:5] != pb[:5] or sorted(pa[5].split(",")) != sorted(pb[5].split(",")):
            return False
    return True


def _cmp_chromosome(mo, io):
    """regions, gene regions, alignment ids and kept-record counts exactly; loaded genes and rows as sets (gene_list is sorted
    by start in the code, rows follow the feed order)"""
    if len(mo["loads"]) != len(io["loads"]):
        return False
    for a, b in zip(mo["loads"], io["loads"]):
        if list(a["region"]) != list(b["region"]) or list(a["gene_region"]) != list(b["gene_region"]) or \
                sorted(a["genes"]) != sorted(b["genes"]) or list(a["rids"]) != list(b["rids"]):
            return False
    return [list(x) for x in mo["kept"]] == [list(x) for x in io["kept"]] and \
        sorted(map(tuple, mo["rows"])) == sorted(map(tuple, io["rows"]))


def _cmp_chromosome_profiles(mo, io):
    if len(mo["loads"]) != len(io["loads"]):
        return False
    for a, b in zip(mo["loads"], io["loads"]):
        if list(a["region"]) != list(b["region"]) or list(a["gene_region"]) != list(b["gene_region"]) or \
                sorted(a["genes"]) != sorted(b["genes"]) or list(a["rids"]) != list(b["rids"]):
            return False
    return [list(x) for x in mo["kept"]] == [list(x) for x in io["kept"]] and \
        all(sorted(map(tuple, mo[k])) == sorted(map(tuple, io[k])) for k in ("exon", "intron"))


def _cmp_pipeline(mo, io):
    for k in ("exon", "intron", "exon_grouped", "intron_grouped"):
        if strip_text(mo.get(k)) != strip_text(io.get(k)):
            return False
    return True


# ------------------------------------------------------------------------------------------------
# oracle: the property itself, recounted independently of the sweep

def iabs(x):
    return -x if x < 0 else x


def matches(r, k, d):
    return iabs(r[0] - k[0]) <= d and iabs(r[1] - k[1]) <= d


def dist(r, k):
    return iabs(r[0] - k[0]) + iabs(r[1] - k[1])


def span_overlap_test(span, k, min_ov):
    """'an intron overlapped by the read's span': shares >= min_ov positions, or the span lies inside it, or the span
    contains it (the reading of overlaps_at_least proved as C19.overlaps_at_least_spec; since the repair of audit2-C G7
    "inside" no longer excludes a span that ends exactly at the intron's end)"""
    lo, hi = max(span[0], k[0]), min(span[1], k[1])
    if lo > hi:
        return False
    return (hi - lo + 1 >= min_ov) or (k[0] <= span[0] and span[1] <= k[1]) or (span[0] <= k[0] and k[1] <= span[1])


def hyp_ok(K, R, d):
    """the decidable hypotheses `Hyp δ K R` of the `…_partial` profile theorems (Props/C13Profiles.lean)"""
    return all(k[1] - k[0] >= d for k in K) and all(R[j + 1][0] - R[j][1] >= d + 1 for j in range(len(R) - 1)) \
        and all(r[0] <= r[1] for r in R)


def micro_class(k, K, R, d):
    """class predicate of the known finding `micro_feature_sweep_skip` for the known feature `k` of one read:
    some read feature r equals a known feature k' within delta where k' is k itself or competes with k for r (r equals
    k within delta too), and the pair (k', r) is one the sweep of construct_profile_for_features may never compare:
    k' is shorter than delta + 1 (so r can equal it within delta without overlapping it), or r starts at most delta
    after the end of the preceding read feature (so that one is compared with k' and the pointer moves on).
    Exactly the inputs `Hyp` excludes (LongerThan / SepBy), localised to the feature; outside the class the statement
    is checked exactly."""
    for j, r in enumerate(R):
        if not (matches(r, k, d)):
            continue
        close = j > 0 and r[0] - R[j - 1][1] <= d
        for k2 in K:
            if matches(r, k2, d) and (k2[1] - k2[0] < d or close):
                return True
    return False


def expected_values(kind, K, blocks, d, abs_d, polya, polyt):
    """per known feature: (strict, lenient, exact, candidates): the profile value in {1,-1,0} the STATEMENT gives for
    one read (all inputs, also outside `Hyp`); strict = the statement; lenient = statement + tie-loser exons outside the
    inner region; exact = the feature is outside the class `micro_feature_sweep_skip` for this read"""
    if kind == "exon":
        R = list(blocks)
        M = (blocks[0][1] + d, blocks[-1][0] - d)
        absent = lambda k: M[0] <= k[0] and k[1] <= M[1]
    else:
        R = F.junctions(blocks)
        M = (blocks[0][0], blocks[-1][1])
        absent = lambda k: span_overlap_test(M, k, abs_d)
    res = []
    for k in K:
        exact = not micro_class(k, K, R, d)
        STATS["pairs_exact" if exact else "pairs_micro_class"] += 1
        masked = (polya != -1 and k[0] > polya + d) or (polyt != -1 and k[1] < polyt - d)
        cands = [r for r in R if matches(r, k, d)]
        best = any(dist(r, k) == min(dist(r, k2) for k2 in K if matches(r, k2, d)) for r in cands)
        loser = bool(cands) and not best
        in_gap = any(R[j][1] < k[0] and k[1] < R[j + 1][0] for j in range(len(R) - 1))
        if masked:
            res.append((0, 0, exact, cands))
        elif best:
            STATS["present"] += 1
            res.append((1, 1, exact, cands))
        elif loser:
            STATS["tie_loser"] += 1
            if kind == "intron":
                res.append((-1, -1, exact, cands))
            else:
                between = blocks[0][1] < k[0] and k[1] < blocks[-1][0]
                res.append((-1 if (between or absent(k) or in_gap) else 0, -1, exact, cands))
        elif absent(k) or in_gap:
            STATS["absent"] += 1
            res.append((-1, -1, exact, cands))
        else:
            res.append((0, 0, exact, cands))
    return res


def annotation_rows(kind, isos, chrom):
    """what the annotation says about every feature: coordinates -> (strand string, gene set)"""
    info = {}
    for t in isos:
        feats = tl(t["feats"]) if kind == "exon" else F.junctions(tl(t["feats"]))
        for f in feats:
            e = info.setdefault(f, (set(), set()))
            e[0].add(t["strand"])
            e[1].add(t["gene"])
    return {f: ("".join(sorted(s)), sorted(g)) for f, (s, g) in info.items()}


def oracle_tables(tables, reads, chrom, d, abs_d, default_group, annotation=None):
    """reads: list of dict(blocks, polya, polyt, group, isos = the annotation visible to the read [, touched = the
    (exon, intron) features at which the real profile of the read is +1 / -1]).
    tables: {'exon': rows, 'intron': rows, 'exon_grouped': rows, 'intron_grouped': rows} as parsed from the dumps.
    Returns list of (kind, detail)."""
    fails = []
    for kind in ("exon", "intron"):
        strict, lenient, lo, hi, micro = {}, {}, {}, {}, {}
        # what a row must say is what the ANNOTATION says about the feature (all genes of the chromosome), not what the
        # genes loaded for one read cluster happen to contain
        if annotation is None:
            seen_t, annotation_ = set(), []
            for r in reads:
                for t in r["isos"]:
                    if t["tid"] not in seen_t:
                        seen_t.add(t["tid"])
                        annotation_.append(t)
        else:
            annotation_ = annotation
        ann = dict(annotation_rows(kind, annotation_, chrom))
        seen_isos = {}          # feature -> isoforms of the gene infos through which a processed read touched it
        for r in reads:
            a = annotation_rows(kind, r["isos"], chrom)
            K = sorted(a)
            for f in K:
                ann.setdefault(f, a[f])
            if not K:
                continue
            vals = expected_values(kind, K, tl(r["blocks"]), d, abs_d, r["polya"], r["polyt"])
            touched = r.get("touched")
            for f, (vs, vl, exact, cands) in zip(K, vals):
                if (f in touched[0 if kind == "exon" else 1]) if touched is not None else True:
                    e = seen_isos.setdefault(f, {})
                    for t in r.get("loaded", r["isos"]):
                        e[t["tid"]] = t
                for g in (None, r["group"]):
                    key = (f, g)
                    for tab, v in ((strict, vs), (lenient, vl)):
                        e = tab.setdefault(key, [0, 0])
                        if v == 1:
                            e[0] += 1
                        elif v == -1:
                            e[1] += 1
                    l_, h_ = lo.setdefault(key, [0, 0]), hi.setdefault(key, [0, 0])
                    if exact:
                        for i, x in ((0, 1), (1, -1)):
                            if vl == x and vs == x:
                                l_[i] += 1
                            if vl == x or vs == x:
                                h_[i] += 1
                    else:
                        # class micro_feature_sweep_skip: soundness bounds only: included needs a read feature matching
                        # within delta; excluded is not constrained from below
                        micro[key] = micro.get(key, 0) + 1
                        if cands:
                            h_[0] += 1
                        h_[1] += 1
        for name, grouped in ((kind, False), (kind + "_grouped", True)):
            rows = tables.get(name)
            if rows is None:
                continue
            seen = {}
            for row in rows:
                f = (row["start"], row["end"])
                g = row["group"]
                k3 = (row["chr"], row["start"], row["end"], g)
                if k3 in seen:
                    fails.append(("feature_row_split", "%s: two rows for %s group %s (strand/genes %s/%s and %s/%s)"
                                  % (name, k3[:3], g, seen[k3]["strand"], seen[k3]["genes"], row["strand"], row["genes"])))
                seen[k3] = row
                if row["chr"] != chrom or f not in ann:
                    fails.append(("row_not_annotated", "%s: row %s is not an annotated %s" % (name, k3[:3], kind)))
                    continue
                if row["strand"] != ann[f][0] or row["genes"] != ann[f][1]:
                    part = annotation_rows(kind, list(seen_isos.get(f, {}).values()), chrom).get(f)
                    if part is not None and (row["strand"], row["genes"]) == part and len(part[1]) < len(ann[f][1]):
                        fails.append(("partial_load_label", "%s: row %s strand/genes %s/%s describes the feature with respect to the "
                                      "genes loaded for the sub-regions in which it was counted; the annotation says %s/%s"
                                      % (name, k3[:3], row["strand"], row["genes"], ann[f][0], ann[f][1])))
                    else:
                        fails.append(("row_identity", "%s: row %s strand/genes %s/%s, annotation %s/%s"
                                      % (name, k3[:3], row["strand"], row["genes"], ann[f][0], ann[f][1])))
                if not grouped and g != default_group:
                    fails.append(("row_group", "%s: ungrouped row with group %s" % (name, g)))
            got = {}
            for row in rows:
                e = got.setdefault(((row["start"], row["end"]), row["group"] if grouped else None), [0, 0])
                e[0] += row["incl"]
                e[1] += row["excl"]
            keys = {k for k in set(strict) | set(lenient) | set(got) if (k[1] is not None) == grouped}
            for k in sorted(keys, key=str):
                g_ = got.get(k, [0, 0])
                l_, h_ = lo.get(k, [0, 0]), hi.get(k, [0, 0])
                s_ = strict.get(k, [0, 0])
                if g_ == s_:
                    continue
                if all(l_[i] <= g_[i] <= h_[i] for i in (0, 1)):
                    if g_ == lenient.get(k, [0, 0]) and kind == "exon" and g_[0] == s_[0]:
                        fails.append(("tie_loser_exon", "%s: %s %s reported incl/excl %s, the statement gives %s (exon matched "
                                                         "within delta by a terminal read exon but a closer annotated variant exists)"
                                      % (name, kind, k, g_, s_)))
                        continue
                    if micro.get(k):
                        fails.append(("micro_feature_sweep_skip", "%s: %s %s reported incl/excl %s, the statement gives %s; %d of the "
                                      "reads have a read feature equal within delta=%d to a known feature shorter than delta+1 / starting "
                                      "<= delta after the preceding read feature (pair never compared by the sweep)"
                                      % (name, kind, k, g_, s_, micro[k], d)))
                        continue
                fails.append(("count_mismatch", "%s: %s %s reported incl/excl %s, recount %s (bounds %s..%s)"
                              % (name, kind, k, g_, s_, l_, h_)))
        # grouped variants partition the ungrouped counts
        if tables.get(kind) is not None and tables.get(kind + "_grouped") is not None:
            tot = {}
            for row in tables[kind + "_grouped"]:
                e = tot.setdefault((row["chr"], row["start"], row["end"]), [0, 0])
                e[0] += row["incl"]
                e[1] += row["excl"]
            ung = {}
            for row in tables[kind]:
                e = ung.setdefault((row["chr"], row["start"], row["end"]), [0, 0])
                e[0] += row["incl"]
                e[1] += row["excl"]
            if tot != ung:
                bad = [k for k in set(tot) | set(ung) if tot.get(k) != ung.get(k)][:3]
                fails.append(("grouped_partition", "%s: grouped rows do not sum to the ungrouped rows at %s" % (kind, bad)))
    return fails


def oracle_inprocess(case):
    """the property on one in-process chromosome (real GeneInfo, real constructors, real counters)"""
    gis, _ = build_loads(case)
    io = impl_pipeline_counts(case, gis, want_profiles=True)
    if "bad_header" in io:
        return [("header", str(io))]
    reads = []
    for r, (ep, ip) in zip(case["reads"], io.pop("_profiles")):
        gi = gis[r["gene"]]
        touched = ({f for f, v in zip(gi.exon_profiles.features, ep) if v in (1, -1)},
                   {f for f, v in zip(gi.intron_profiles.features, ip) if v in (1, -1)})
        # the statement is about the chromosome: a read is judged against the WHOLE annotation, not against the genes its
        # (sub-)region happened to load (audit2 GAP 1); `loaded` keeps the genes through which it was counted (label class)
        reads.append(dict(r, isos=case.get("annotation") or case["loads"][r["gene"]], loaded=case["loads"][r["gene"]], touched=touched))
    return oracle_tables(io, reads, case["chr"], case["d"], case["abs_d"], case["default_group"], case.get("annotation"))


# ---- pipeline level ------------------------------------------------------------------------------

PIPE_CONFIGS = [
    # (matching strategy / delta args, read group args, explicit-delta run: reads get splice-site shifts of 1..6 bp,
    #  restart: None | "with_profiles" | "without_profiles" = the tables are written by a second run started with
    #  `--read_assignments <save of the first run> --count_exons`, the first run made with / without --count_exons)
    (["--matching_strategy", "exact"], None, False, None),
    (["--matching_strategy", "precise"], "tag:RG", False, None),
    (["--matching_strategy", "default"], None, False, None),
    (["--matching_strategy", "loose"], "read_id:_", False, None),
    (["--delta", "2"], "tag:RG", True, None),
    ([], "read_id:_", False, None),          # data-type default
    # an explicit --delta overrides the preset of every strategy, 0 included ("exact comparison requested")
    (["--delta", "0"], None, True, None),
    (["--delta", "0", "--matching_strategy", "precise"], "tag:RG", True, None),
    (["--delta", "2", "--matching_strategy", "loose"], "read_id:_", True, None),
    # restart from saved read assignments (audit2 GAP 2): the profiles are computed at collection time only
    (["--matching_strategy", "default"], "tag:RG", False, "with_profiles"),
    (["--matching_strategy", "default"], None, False, "without_profiles"),
]
EXPLICIT_SHIFTS = [1, 2, 3, 4, 5, 6]


_ISOQUANT_MAIN = {}


def isoquant_main():
    """the repo's isoquant.py loaded as a module (its own option code, not a copy)"""
    if vlib.REPO not in _ISOQUANT_MAIN:
        vlib.repo_on_path()
        import importlib.util
        spec = importlib.util.spec_from_file_location("isoquant_main_c13", os.path.join(vlib.REPO, "isoquant.py"))
        m = importlib.util.module_from_spec(spec)
        spec.loader.exec_module(m)
        _ISOQUANT_MAIN[vlib.REPO] = m
    return _ISOQUANT_MAIN[vlib.REPO]


def run_set_matching_options(strategy, delta, data_type="nanopore"):
    """the real `set_matching_options` on a fresh namespace -> the namespace"""
    m = isoquant_main()
    ns = SimpleNamespace(matching_strategy=strategy, delta=delta, data_type=data_type, resolve_ambiguous="default")
    if ns.matching_strategy is None:
        ns.matching_strategy = {"assembly": "precise", "pacbio_ccs": "precise", "nanopore": "default"}.get(data_type, "default")
    m.set_matching_options(ns)
    return ns


def requested_delta(args_list, data_type="nanopore"):
    """the delta the USER asked for: the explicit `--delta` value when given (taken from the command line, not from
    the option code), else the preset of the (explicit or data-type default) matching strategy as the repo's own
    option code computes it with no explicit delta.  Also returns minimal_intron_absence_overlap."""
    strategy, explicit = None, None
    for i, a in enumerate(args_list):
        if a == "--matching_strategy":
            strategy = args_list[i + 1]
        if a == "--delta":
            explicit = int(args_list[i + 1])
    ns = run_set_matching_options(strategy, None, data_type)
    return (explicit if explicit is not None else ns.delta), ns.minimal_intron_absence_overlap


def oracle_options():
    """option-level relation: an explicit delta survives `set_matching_options` for every matching strategy (the
    generated `matching_presets` table only describes the defaults)"""
    fails = []
    ns0 = run_set_matching_options("default", None)
    for strategy in ("exact", "precise", "default", "loose"):
        for d in (0, 1, 2, 5, 6, 12, 30):
            ns = run_set_matching_options(strategy, d)
            if ns.delta != d:
                fails.append(("explicit_delta_ignored", {"level": "options", "strategy": strategy, "delta": d},
                              "set_matching_options(matching_strategy=%s, delta=%d) leaves args.delta = %r" % (strategy, d, ns.delta)))
    return fails


def synth_dataset(seed, d, shifts=None):
    """synthetic chromosomes: multi-isoform genes with alternative sites (some within delta), contained exons, a gene
    sharing exons with another one (multi-gene features), genes loaded for several read clusters, read groups"""
    import random
    from gen import synth
    rng = random.Random(seed)
    ds = synth.Dataset(seed)
    truth = []          # (read name, chr, blocks, group)
    groups = ["gA", "gB", "gC"]
    n = 0
    for c in range(2):
        chrom = "chr%d" % (c + 1)
        ds.add_chrom(chrom, 60000)
        pos = 1000
        for gi in range(rng.randint(2, 3)):
            gid = "G%d_%d" % (c + 1, gi)
            isos = F.genome_gene(rng, pos, gid, n_iso=rng.randint(2, 4))
            # keep features longer than delta and apart (the exact domain)
            isos = [t for t in isos if all(e[1] - e[0] >= 30 for e in t["feats"])] or isos[:1]
            strand = isos[0]["strand"]
            txs = [(t["tid"], tl(t["feats"])) for t in isos]
            ds.add_gene(chrom, gid, strand, txs, plant=False)
            if gi == 0 and rng.random() < 0.7:
                ds.add_gene(chrom, gid + "s", "+" if strand == "-" else "-", [(gid + "s.t0", tl(isos[0]["feats"]))], plant=False)
            end = max(e[1] for t in isos for e in t["feats"])
            for t in isos:
                for k in range(rng.randint(2, 5)):
                    # explicit-delta runs: splice sites shifted by 1..6 bp (inside every preset delta)
                    jit = rng.choice(shifts) if shifts else (d if d is not None else 6)
                    blocks = F.read_from_isoform(rng, t["feats"], jit)
                    blocks = [b for b in blocks if b[1] - b[0] >= 14] or [tuple(t["feats"][0])]
                    ok = all(blocks[j + 1][0] - blocks[j][1] >= 15 for j in range(len(blocks) - 1))
                    if not ok:
                        continue
                    g = rng.choice(groups)
                    name = "r%d_%s" % (n, g)
                    n += 1
                    ds.read_from_exons(name, chrom, blocks, tags=[("RG", g)])
                    truth.append((name, chrom, blocks, g))
            # reads covering only one end of the gene: separate read clusters -> the gene is loaded more than once
            first = isos[0]["feats"]
            if len(first) >= 4 and first[1][0] - first[0][1] > 0:
                for half in (first[:2], first[-2:]):
                    g = rng.choice(groups)
                    name = "r%d_%s" % (n, g)
                    n += 1
                    ds.read_from_exons(name, chrom, tl(half), tags=[("RG", g)])
                    truth.append((name, chrom, tl(half), g))
            pos = end + rng.randint(2500, 6000)
    return ds, truth


SPLIT_VARIANTS = ("shared", "nested", "readthrough", "two_cuts", "deep")


def split_dataset(seed, variant="shared"):
    """a read cluster that AlignmentCollector.split_coverage_regions cuts into sub-regions, with genes overlapping only one
    of them.  Gene gA (+) spans > 32768 bp (exons at ~1 kb, ~20 kb and a last exon at ~50 kb); reads of its long isoform
    bridge the cut (coverage valley between 22 kb and 50 kb) and are processed in BOTH sub-regions.
      shared       gB (-) starts with gA's last exon: the sub-region left of the valley loads gA only, the right one gA and gB
                   (row identity, finding G1); the bridging read covers shared features only
      nested       gN (-) lies inside gA's long intron, right of the cut: the bridging read skips gN's exons and overlaps its
                   intron (exclude counts), but the record kept for it may come from the left sub-region (audit2 GAP 1, lost counts)
      readthrough  gL (+) lies left of the cut only; the bridging read follows gL and reads through into gA's last exons: its two
                   records name different isoforms, both are kept (audit2 GAP 1, double counts)
      two_cuts     gA continues with a second long intron (three sub-regions), one bridging read per cut (two bridging reads on
                   the chromosome); gN nested right of the first cut, gM right of the second
      deep         nested, with 230 reads of the short isoform so that the valley threshold is 2: TWO reads bridge the same cut
    The expectations are always taken from the WHOLE annotation of the chromosome."""
    import random
    from gen import synth
    rng = random.Random(seed)
    ds = synth.Dataset(seed)
    truth = []
    groups = ["gA", "gB", "gC"]
    n = 0
    for c in range(2):
        chrom = "chr%d" % (c + 1)
        ds.add_chrom(chrom, 130000 if variant == "two_cuts" else 80000)
        o = rng.randint(0, 3000)
        ln = lambda: rng.randint(120, 260)
        nxt = lambda prev, lo, hi: (lambda a: (a, a + ln()))(prev[1] + rng.randint(lo, hi))
        e1 = (1001 + o, 1000 + o + ln())
        e2 = nxt((0, 20000 + o), 1, 500)
        e2b = nxt(e2, 1500, 2500)
        e3 = nxt(e2b, 27000, 30000)
        e4 = nxt(e3, 1200, 2000)
        ga, gb = "gA%d" % c, "gB%d" % c
        plan = []          # (exon blocks, number of reads)
        if variant == "shared":
            tA1, tA2, tB1 = [e1, e2, e3], [e1, e2, e2b], [e3, e4]
            ds.add_gene(chrom, ga, "+", [(ga + ".t1", tA1), (ga + ".t2", tA2)], plant=False)
            ds.add_gene(chrom, gb, "-", [(gb + ".t1", tB1)], plant=False)
            plan = [(tA1, 1), (tA2, rng.randint(4, 7)), (tB1, rng.randint(3, 6))]
        elif variant in ("nested", "deep"):
            tA1, tA2 = [e1, e2, e3], [e1, e2, e2b]
            n1 = nxt(e2b, 14000, 16000)
            n2 = nxt(n1, 500, 900)
            ds.add_gene(chrom, ga, "+", [(ga + ".t1", tA1), (ga + ".t2", tA2)], plant=False)
            ds.add_gene(chrom, "gN%d" % c, "-", [("gN%d.t1" % c, [n1, n2])], plant=False)
            deep = variant == "deep"
            plan = [(tA1, 2 if deep else 1), (tA2, 230 if deep else rng.randint(4, 7)), ([n1, n2], rng.randint(3, 5))]
        elif variant == "readthrough":
            a1 = (e1[1] + 3800, e1[1] + 3800 + ln())
            l2 = nxt(e1, 250, 400)
            tA1, tA2, tL1 = [a1, e2, e3, e4], [a1, e2, e2b], [e1, l2]
            ds.add_gene(chrom, ga, "+", [(ga + ".t1", tA1), (ga + ".t2", tA2)], plant=False)
            ds.add_gene(chrom, "gL%d" % c, "+", [("gL%d.t1" % c, tL1)], plant=False)
            plan = [([e1, l2, e3, e4], 1), (tA2, rng.randint(4, 7)), ([e3, e4], rng.randint(3, 5))]
        elif variant == "two_cuts":
            e4b = nxt(e4, 1500, 2500)
            e5 = nxt(e4b, 36000, 38000)
            e6 = nxt(e5, 1200, 2000)
            tA1, tA2, tA3 = [e1, e2, e3, e4, e5, e6], [e1, e2, e2b], [e3, e4, e4b]
            n1 = nxt(e2b, 14000, 16000)
            n2 = nxt(n1, 500, 900)
            m1 = nxt(e4b, 17000, 19000)
            m2 = nxt(m1, 500, 900)
            ds.add_gene(chrom, ga, "+", [(ga + ".t1", tA1), (ga + ".t2", tA2), (ga + ".t3", tA3)], plant=False)
            ds.add_gene(chrom, "gN%d" % c, "-", [("gN%d.t1" % c, [n1, n2])], plant=False)
            ds.add_gene(chrom, "gM%d" % c, "+", [("gM%d.t1" % c, [m1, m2])], plant=False)
            # each valley is crossed by exactly one read (coverage 1)
            plan = [([e1, e2, e3, e4], 1), ([e3, e4, e5, e6], 1), (tA2, rng.randint(4, 7)), (tA3, rng.randint(4, 7)),
                    ([e5, e6], rng.randint(3, 5)),
                    ([n1, n2], rng.randint(2, 4)), ([m1, m2], rng.randint(2, 4))]
        else:
            raise ValueError(variant)
        for t, k in plan:
            for _ in range(k):
                g = rng.choice(groups)
                name = "r%d_%s" % (n, g)
                n += 1
                ds.read_from_exons(name, chrom, t, tags=[("RG", g)])
                truth.append((name, chrom, t, g))
    return ds, truth


def parse_exon_str(s):
    return [tuple(int(x) for x in p.split("-")) for p in s.split(",") if p]


def oracle_pipeline(seed, cfg_index, repo=None, keep=None, split=False):
    """run the real pipeline with --count_exons and recount from BAM + GTF"""
    import pipeline as P
    import pysam
    margs, rg, explicit, restart = PIPE_CONFIGS[cfg_index]
    d, abs_d = requested_delta(margs)
    ds, truth = split_dataset(seed, split if isinstance(split, str) else "shared") if split else synth_dataset(seed, d, EXPLICIT_SHIFTS if explicit else None)
    root = P.scratch("isoverif_c13_pipe_")
    try:
        paths = ds.write(os.path.join(root, "data"))
        opts = list(margs) + (["--read_group", rg] if rg else [])
        extra = (["--count_exons"] if restart != "without_profiles" else []) + opts + (["--keep_tmp"] if restart else [])
        rc, log = P.run_isoquant(os.path.join(root, "out"), P.std_args(paths, threads=2, extra=extra))
        if rc != 0:
            return [("pipeline_crash", log[-800:])], {}
        files = P.out_files(os.path.join(root, "out"))
        if restart:
            save = os.path.join(root, "out", "S", "aux", "S.save")
            a2 = ["--threads", "2", "--read_assignments", save, "--reference", paths["ref"], "--data_type", "nanopore", "-p", "S",
                  "--no_gzip", "--genedb", paths["gtf"], "--complete_genedb", "--count_exons"] + opts
            rc2, log2 = P.run_isoquant(os.path.join(root, "out2"), a2)
            if rc2 != 0:
                # a restart that cannot count must say why: refusing loudly is not a wrong table
                if restart == "without_profiles" and "--count_exons" in log2 and "profiles" in log2:
                    return [], {"restart": restart, "refused": True}
                return [("pipeline_crash", "restart with --read_assignments --count_exons: " + log2[-800:])], {}
            sub = [d_ for d_ in sorted(os.listdir(os.path.join(root, "out2"))) if os.path.isdir(os.path.join(root, "out2", d_))]
            files2 = {}
            for d_ in sub:
                for fn in os.listdir(os.path.join(root, "out2", d_)):
                    if fn.startswith(d_ + "."):
                        files2["S." + fn[len(d_) + 1:]] = os.path.join(root, "out2", d_, fn)
            ra1 = files["S.read_assignments.tsv"]
            files = dict(files2)
            files["S.read_assignments.tsv"] = files2.get("S.read_assignments.tsv", ra1)
        tables = {}
        for k, fn in (("exon", "S.exon_counts.tsv"), ("intron", "S.intron_counts.tsv"),
                      ("exon_grouped", "S.exon_grouped_counts.tsv"), ("intron_grouped", "S.intron_grouped_counts.tsv")):
            if fn in files:
                header, rows, _ = parse_counts(files[fn])
                if header != EXPECTED_HEADER:
                    return [("header", "%s: %r" % (fn, header))], {}
                tables[k] = rows
        if "exon" not in tables or "intron" not in tables or (rg and "exon_grouped" not in tables):
            return [("missing_table", str(sorted(files)))], {}
        # recount inputs: blocks from the BAM (CIGAR M/N only here), annotation from the GTF
        gtf = P.parse_gtf(paths["gtf"])
        tx = {}
        for r in gtf:
            if r["feature"] == "exon":
                t = tx.setdefault((r["chr"], r["attrs"]["transcript_id"]), {"tid": r["attrs"]["transcript_id"], "strand": r["strand"],
                                                                            "gene": r["attrs"]["gene_id"], "feats": []})
                t["feats"].append((r["start"], r["end"]))
        for t in tx.values():
            t["feats"].sort()
        processed = {}
        for a in P.read_assignments(files["S.read_assignments.tsv"]):
            processed[a["read_id"]] = parse_exon_str(a["exons"])
        fails = []
        by_chr = {}
        with pysam.AlignmentFile(paths["bam"]) as bam:
            for aln in bam:
                if aln.is_unmapped or aln.is_secondary or aln.is_supplementary:
                    continue
                blocks = []
                for a, b in aln.get_blocks():
                    if blocks and blocks[-1][1] + 1 >= a + 1:
                        blocks[-1] = (blocks[-1][0], b)
                    else:
                        blocks.append((a + 1, b))
                if aln.query_name in processed and processed[aln.query_name] != blocks:
                    blocks = processed[aln.query_name]      # polyA trimming (C16's subject)
                grp = DEFAULT_GROUP
                if rg == "tag:RG":
                    grp = aln.get_tag("RG")
                elif rg == "read_id:_":
                    grp = aln.query_name.split("_")[-1]
                chrom = aln.reference_name
                isos = [t for (c, _), t in tx.items() if c == chrom]
                by_chr.setdefault(chrom, []).append({"blocks": blocks, "polya": -1, "polyt": -1, "group": grp, "isos": isos})
        for chrom, reads in sorted(by_chr.items()):
            sub = {k: [r for r in rows if r["chr"] == chrom] for k, rows in tables.items()}
            fails += oracle_tables(sub, reads, chrom, d, abs_d, DEFAULT_GROUP)
        chroms = set(by_chr)
        for k, rows in tables.items():
            for r in rows:
                if r["chr"] not in chroms:
                    fails.append(("row_not_annotated", "%s: row on chromosome %s without reads" % (k, r["chr"])))
        stats = {"reads": sum(len(v) for v in by_chr.values()), "rows": {k: len(v) for k, v in tables.items()}, "delta": d}
        if restart:
            stats["restart"] = restart
            if not any(tables.get(k) for k in ("exon", "intron")) and stats["reads"]:
                fails = [("restart_without_profiles", "`--read_assignments <save> --count_exons` on a save made %s --count_exons exits 0 "
                          "with header-only exon / intron tables (%d processed reads)"
                          % ("without" if restart == "without_profiles" else "with", stats["reads"]))]
        if keep is not None:
            keep.update(stats)
        return fails, stats
    finally:
        shutil.rmtree(root, ignore_errors=True)


def toy_rows_unique():
    """the repo's toy data through the real pipeline: no feature in two rows, and a full RECOUNT of both tables.
    Processed reads = one unit per alignment: the distinct (read id, exons) pairs of read_assignments.tsv that are not
    intergenic (which alignments are processed is C05 / C08's subject; the exons are the polyA-trimmed blocks the profiles
    were built from).  Expectations from the WHOLE annotation of the chromosome (one chromosome; a gene far from a read cannot
    be touched by it)."""
    import pipeline as P
    root = P.scratch("isoverif_c13_toy_")
    try:
        paths = P.copy_toy(os.path.join(root, "data"))
        if "bam" not in paths:
            return [], {"toy": "missing"}
        rc, log = P.run_isoquant(os.path.join(root, "out"), P.std_args(paths, threads=2, extra=["--count_exons"]))
        if rc != 0:
            return [("pipeline_crash", log[-800:])], {}
        files = P.out_files(os.path.join(root, "out"))
        fails = []
        n = 0
        tables = {}
        for k, fn in (("exon", "S.exon_counts.tsv"), ("intron", "S.intron_counts.tsv")):
            header, rows, _ = parse_counts(files[fn])
            tables[k] = rows
            seen = set()
            for r in rows:
                n += 1
                k3 = (r["chr"], r["start"], r["end"], r["group"])
                if k3 in seen:
                    fails.append(("feature_row_split", "%s (toy data): two rows for %s" % (fn, k3[:3])))
                seen.add(k3)
        tx = {}
        for r in P.parse_gtf(paths["gtf"]):
            if r["feature"] == "exon":
                t = tx.setdefault((r["chr"], r["attrs"]["transcript_id"]), {"tid": r["attrs"]["transcript_id"], "strand": r["strand"],
                                                                            "gene": r["attrs"]["gene_id"], "feats": []})
                t["feats"].append((r["start"], r["end"]))
        for t in tx.values():
            t["feats"].sort()
        d, abs_d = requested_delta([])
        by_chr, seen = {}, set()
        for a in P.read_assignments(files["S.read_assignments.tsv"]):
            if a["assignment_type"] == "intergenic":
                continue
            k2 = (a["read_id"], a["chr"], a["exons"])
            if k2 in seen:
                continue
            seen.add(k2)
            isos = by_chr.setdefault(a["chr"], {"isos": [t for (c, _), t in tx.items() if c == a["chr"]], "reads": []})
            isos["reads"].append({"blocks": parse_exon_str(a["exons"]), "group": DEFAULT_GROUP, "polya": -1, "polyt": -1,
                                  "isos": isos["isos"]})
        nfail = 0
        for chrom, e in sorted(by_chr.items()):
            sub = {k: [r for r in rows if r["chr"] == chrom] for k, rows in tables.items()}
            for kind, detail in oracle_tables(sub, e["reads"], chrom, d, abs_d, DEFAULT_GROUP, annotation=e["isos"]):
                if kind not in CLASS_KINDS:
                    nfail += 1
                fails.append((kind, "toy data: " + detail))
        return fails, {"toy_rows": n, "toy_reads_recounted": sum(len(e["reads"]) for e in by_chr.values()), "toy_recount_failures": nfail}
    finally:
        shutil.rmtree(root, ignore_errors=True)


WITNESSES = [
    # replayed on the real code on every run (they are `…_witness` theorems of Props/C13Profiles.lean)
    {"name": "sweep_skip_witness", "kind": "exon_like", "known": [(2, 4)], "read": [(1, 2), (3, 4)], "d": 1, "expect_gene": [0]},
    {"name": "tie_loser_exon_witness", "known": [(100, 200), (102, 200)], "blocks": [(100, 200), (300, 400)], "d": 4,
     "expect_gene": [1, -1]},
]


# finding G1 (audit): the split-region input as an in-process case: sub-region 1 loads gA only (the tA1 read is processed
# there), sub-region 2 loads gA and gB; `split_label_witness` / `split_rows_orig_witness` of Props/C13Rows.lean
_G1_A = [{"tid": "tA1", "strand": "+", "gene": "gA", "feats": [(1001, 1200), (20001, 20200), (50001, 50200)]},
         {"tid": "tA2", "strand": "+", "gene": "gA", "feats": [(1001, 1200), (20001, 20200), (22001, 22200)]}]
_G1_B = [{"tid": "tB1", "strand": "-", "gene": "gB", "feats": [(50001, 50200), (51801, 52000)]}]
G1_CASE = {"chr": "chr1", "d": 6, "abs_d": 20, "default_group": "NA", "loads": [_G1_A, _G1_A + _G1_B], "annotation": _G1_A + _G1_B,
           "split": True,
           "reads": [{"gene": 0, "blocks": _G1_A[0]["feats"], "polya": -1, "polyt": -1, "group": "NA"}] +
                    [{"gene": 0, "blocks": _G1_A[1]["feats"], "polya": -1, "polyt": -1, "group": "NA"} for _ in range(4)] +
                    [{"gene": 1, "blocks": _G1_B[0]["feats"], "polya": -1, "polyt": -1, "group": "NA"} for _ in range(3)]}

# former known finding partial_load_label (root removed by the repair of audit2 GAP 1): the G1 annotation when the shared exon
# is counted ONLY through the left sub-region (no read of gB).  The left sub-region now loads every gene its alignments
# overlap - the tA1 read reaches 50200, so gB is loaded - and the row names gB (`partial_label_witness` keeps the old loading)
PARTIAL_CASE = dict(G1_CASE, loads=[_G1_A + _G1_B], reads=[G1_CASE["reads"][0]])

# class micro_feature_sweep_skip on the real wrappers (audit G2; `micro_exon_witness`, `micro_intron_witness`)
MICRO_WITNESSES = [
    {"name": "micro_exon_witness", "op": "exon_profile", "known": [(1100, 1200), (1302, 1304), (1366, 1466)], "gene_region": (1100, 1466),
     "blocks": [(1100, 1197), (1299, 1301), (1368, 1466)], "d": 6, "expect_gene": [1, -1, 1]},
    {"name": "micro_intron_witness", "op": "intron_profile", "known": [(201, 301), (304, 366)], "gene_region": (100, 467),
     "blocks": [(100, 199), (305, 306), (369, 467)], "d": 6, "abs_d": 20, "expect_gene": [1, -1]},
]


def replay_witnesses(ctx):
    C, GI, LP, LC, IA = _impl()
    w = WITNESSES[0]
    c = LP.OverlappingFeaturesProfileConstructor(tl(w["known"]), (1, 10), comparator=partial(C.equal_ranges, delta=w["d"]), delta=w["d"])
    got = c.construct_profile_for_features(tl(w["read"]), (0, 0)).gene_profile
    ctx.extra.setdefault("witness_replays", {})[w["name"]] = {"got": got, "as_proved": got == w["expect_gene"]}
    w = WITNESSES[1]
    c = LP.OverlappingFeaturesProfileConstructor(tl(w["known"]), (100, 400), comparator=partial(C.equal_ranges, delta=w["d"]), delta=w["d"])
    got = c.construct_exon_profile(tl(w["blocks"])).gene_profile
    ctx.extra["witness_replays"][w["name"]] = {"got": got, "as_proved": got == w["expect_gene"]}
    for w in MICRO_WITNESSES:
        kw = {"known": w["known"], "gene_region": w["gene_region"], "d": w["d"], "abs_d": w.get("abs_d", 20), "blocks": w["blocks"],
              "polya": -1, "polyt": -1}
        got = guarded(impl_profile, w["op"], kw)
        got = got.get("gene") if isinstance(got, dict) else got
        kinds = sorted({k for k, _ in oracle_profile(w["op"], kw)})
        ctx.extra["witness_replays"][w["name"]] = {"got": got, "as_proved": got == w["expect_gene"], "oracle_kinds": kinds}
    # last_base_gene_witness (Props/C13Local.lean) is the witness of the gene query BEFORE fix_gene_query_last_base: there the read,
    # alone in its cluster, never meets gB (no row 2000-2004) and meets it with a longer neighbour.  On the repaired code the row
    # is what the whole annotation says in both situations.
    alone = guarded(impl_chromosome_profiles, LAST_BASE_CASE)
    neigh = guarded(impl_chromosome_profiles, LAST_BASE_NEIGHBOUR)
    row = lambda r: [x for x in r["exon"] if x[0] == 2000 and x[1] == 2004] if isinstance(r, dict) and "exon" in r else r
    whole = whole_annotation_recount(LAST_BASE_CASE)["exon"].get((2000, 2004))
    ctx.extra["witness_replays"]["last_base_gene_repaired"] = {
        "got": {"alone": row(alone), "with_neighbour": row(neigh), "recount_whole_annotation": whole},
        "old_query_behaviour": row(alone) == [],
        "as_proved": row(alone) == [[2000, 2004, 1, 0]] and row(neigh) == [[2000, 2004, 1, 1]] and whole == [1, 0]}
    for k, v in ctx.extra["witness_replays"].items():
        if not v["as_proved"]:
            ctx.notes.append("witness %s no longer reproduces on the real code: %s" % (k, v["got"]))


CLASS_KINDS = ("tie_loser_exon", "micro_feature_sweep_skip", "partial_load_label")
CLASS_COUNTS = {}


def _fail(ctx, kind, inp, detail):
    """failures of the listed classes are numerous by construction of the generators: a few of each are kept as replayable
    failures, all are counted (evidence: finding_class_counts), so that they do not crowd out other kinds"""
    if kind in CLASS_KINDS:
        CLASS_COUNTS[kind] = CLASS_COUNTS.get(kind, 0) + 1
        if CLASS_COUNTS[kind] > 6:
            return
    ctx.fail(kind, inp, detail)


def oracle(ctx, disagreements, broken):
    rng = ctx.rng
    quick = ctx.tier == "quick"
    n_cases = 0
    # 0. the split-region input of finding G1 (and the partial-label corner that remains after its repair)
    for wcase in (G1_CASE, PARTIAL_CASE):
        for kind, detail in _safe_inprocess(wcase):
            _fail(ctx, kind, {"level": "inprocess", "case": wcase}, detail)
    # 0b. the last-base input (fix_gene_query_last_base): a read whose last aligned base is a gene's first base
    for wcase in (LAST_BASE_CASE, LAST_BASE_NEIGHBOUR):
        for kind, detail in oracle_chromosome_profiles(wcase):
            _fail(ctx, kind, {"level": "chromosome_profiles", "case": wcase}, detail)
    # 1. the disagreeing inputs first
    for dgr in disagreements:
        if len(ctx.failures) > 40:
            break
        inp = dgr["input"]
        if dgr["op"] == "pipeline_counts":
            case = inp["case"]
            for kind, detail in _safe_inprocess(case):
                _fail(ctx, kind, {"level": "inprocess", "case": case}, detail)
        elif dgr["op"] == "count_dump":
            for kind, detail in oracle_history(inp):
                _fail(ctx, kind, {"level": "history", "case": inp}, detail)
        elif dgr["op"] == "effective_delta":
            st, dv = inp["strategy"], inp["delta"]
            if dv is not None and dv >= 0 and not vlib.is_err(impl_effective_delta(st, dv)) and impl_effective_delta(st, dv) != dv:
                _fail(ctx, "explicit_delta_ignored", {"level": "options", "strategy": st, "delta": dv},
                         "set_matching_options(matching_strategy=%s, delta=%d) leaves args.delta = %r" % (st, dv, impl_effective_delta(st, dv)))
        elif dgr["op"] == "chromosome":
            for kind, detail in oracle_chromosome(inp):
                _fail(ctx, kind, {"level": "chromosome", "case": inp}, detail)
        elif dgr["op"] == "chromosome_profiles":
            for kind, detail in oracle_chromosome_profiles(inp):
                _fail(ctx, kind, {"level": "chromosome_profiles", "case": inp}, detail)
        elif dgr["op"] in ("exon_profile", "intron_profile"):
            for kind, detail in oracle_profile(dgr["op"], inp):
                _fail(ctx, kind, {"level": "profile", "op": dgr["op"], "case": inp}, detail)
    # 2. normal generator, independent of the driver
    for i in range(250 if quick else 2500):
        case = F.pipeline_case(rng, quick, micro=(i % 6 == 0), split=(i % 3 == 1))
        if case["split"]:
            ctx.count("oracle_inprocess_split_case")
        n_cases += 1
        for kind, detail in _safe_inprocess(case):
            _fail(ctx, kind, {"level": "inprocess", "case": case}, detail)
        if len(ctx.failures) > 60:
            break
    for i in range(80 if quick else 800):
        kw = dict(F.chromosome_case(rng, quick, small=(i % 3 == 0)), mode="memory" if i % 2 else "bam", repaired=True)
        n_cases += 1
        ctx.count("oracle_chromosome_case")
        for kind, detail in oracle_chromosome(kw):
            if len(ctx.failures) < 70:
                _fail(ctx, kind, {"level": "chromosome", "case": kw}, detail)
    # `chromosome_exon_rows` / `chromosome_intron_rows` on the real code, inside their hypotheses (ExonHyp / IntronHyp)
    for i in range(70 if quick else 700):
        kw = dict(F.chromosome_profile_case(rng, quick, small=(i % 3 == 0)), mode="memory" if i % 2 else "bam", repaired=True)
        n_cases += 1
        ctx.count("oracle_chromosome_profiles_case")
        for kind, detail in oracle_chromosome_profiles(kw):
            if len(ctx.failures) < 80:
                _fail(ctx, kind, {"level": "chromosome_profiles", "case": kw}, detail)
    for i in range(200 if quick else 2000):
        h = dict(F.history_case(rng, quick), key="coord", ignore_groups=bool(i % 2))
        n_cases += 1
        for kind, detail in oracle_history(h):
            if len(ctx.failures) < 90:
                _fail(ctx, kind, {"level": "history", "case": h}, detail)
    # every case on a locus with >= 128 known features is evaluated (the stride below would keep one in seven)
    for op, kw in F.profile_cases(rng, True)[:: (7 if quick else 1)] + F.G.big_locus_profile_cases(rng, 3 if quick else 30):
        n_cases += 1
        for kind, detail in oracle_profile(op, kw):
            _fail(ctx, kind, {"level": "profile", "op": op, "case": kw}, detail)
    for i in range(60 if quick else 600):
        n_cases += 1
        for kind, inp, detail in oracle_merge_union(rng, F.genome_annotation(rng, micro=(i % 5 == 0)), rng.choice([0, 2, 6])):
            _fail(ctx, kind, inp, detail)
    replay_witnesses(ctx)
    for kind, inp, detail in oracle_options():
        _fail(ctx, kind, inp, detail)
    # 3. the real pipeline
    runs = []
    cfgs = list(range(len(PIPE_CONFIGS)))
    if quick:
        pass
    n_seeds = 1 if quick else 4
    for ci in cfgs:
        for s in range(n_seeds):
            seed = ctx.seed * 1000 + ci * 17 + s
            fails, stats = oracle_pipeline(seed, ci)
            runs.append({"cfg": PIPE_CONFIGS[ci][0] + ([PIPE_CONFIGS[ci][1]] if PIPE_CONFIGS[ci][1] else []) + ([PIPE_CONFIGS[ci][3]] if PIPE_CONFIGS[ci][3] else []), "seed": seed,
                         "stats": stats, "failures": len(fails)})
            for kind, detail in fails:
                _fail(ctx, kind, {"level": "pipeline", "seed": seed, "cfg": ci}, detail)
    # read clusters cut into sub-regions, genes overlapping only one of them (finding G1; audit2 GAP 1: lost / double counts)
    plan = [("shared", 2, 0), ("nested", 1, 1), ("readthrough", 5, 2), ("two_cuts", 2, 3), ("deep", 0, 4)] if quick else \
        [(v_, ci, s_) for v_ in SPLIT_VARIANTS for ci in (0, 1, 2, 3, 5) for s_ in range(2)]
    for v_, ci, s_ in plan:
        seed = ctx.seed * 1000 + 500 + ci * 17 + s_
        fails, stats = oracle_pipeline(seed, ci, split=v_)
        runs.append({"cfg": ["split-cluster:" + v_] + PIPE_CONFIGS[ci][0] + ([PIPE_CONFIGS[ci][1]] if PIPE_CONFIGS[ci][1] else []), "seed": seed,
                     "stats": stats, "failures": len(fails)})
        for kind, detail in fails:
            _fail(ctx, kind, {"level": "pipeline", "seed": seed, "cfg": ci, "split": v_}, detail)
    fails, stats = toy_rows_unique()
    runs.append({"cfg": "toy", "stats": stats, "failures": len(fails)})
    for kind, detail in fails:
        _fail(ctx, kind, {"level": "toy"}, detail)
    ctx.extra["oracle_cases"] = n_cases
    ctx.extra["finding_class_counts"] = dict(CLASS_COUNTS)
    ctx.extra["oracle_read_feature_pairs"] = dict(STATS)
    ctx.extra["pipeline_runs"] = runs


def _safe_inprocess(case):
    try:
        return oracle_inprocess(case)
    except (IndexError, AssertionError, KeyError, ValueError, TypeError, AttributeError) as ex:
        return [("crash", "in-process feed raised %s: %s" % (type(ex).__name__, ex))]


def oracle_history(h):
    """counter semantics on a raw history: one row per (chr, start, end, group); counts = number of (event, position)
    pairs with value +1 / -1 at that feature; the row's gene list = sorted union of the gene lists of the descriptions
    counted for it, its strand = sorted union of their strand characters; grouped rows sum to ungrouped"""
    fails = []
    n = [len(h["pmaps"][ev["pmap"]]) for ev in h["events"]]
    if any(len(ev["profile"]) > m and any(v in (1, -1) for v in ev["profile"][m:]) for ev, m in zip(h["events"], n)):
        return []     # malformed: the code raises; nothing to recount
    exp, lab = {}, {}
    for ev in h["events"]:
        g = h["default_group"] if h["ignore_groups"] else ev["group"]
        for v, f in zip(ev["profile"], h["pmaps"][ev["pmap"]]):
            if v in (1, -1):
                e = exp.setdefault((f["chr"], f["start"], f["end"], g), [0, 0])
                e[0 if v == 1 else 1] += 1
                l = lab.setdefault((f["chr"], f["start"], f["end"]), (set(), set()))
                l[0].update(f["strand"])
                l[1].update(f["genes"])
    rows = guarded(impl_count_dump, h)
    if vlib.is_err(rows) or isinstance(rows, dict):
        return [("crash", "counter raised on a well-formed history: %s" % rows)]
    got = {}
    for r in rows:
        k = (r["chr"], r["start"], r["end"], r["group"])
        if k in got:
            fails.append(("feature_row_split", "two rows for %s" % (k,)))
        e = got.setdefault(k, [0, 0])
        e[0] += r["incl"]
        e[1] += r["excl"]
        l = lab.get(k[:3])
        if l is not None and not any(kk == "feature_row_split" for kk, _ in fails):
            if r["strand"] != "".join(sorted(l[0])) or r["genes"] != sorted(l[1]):
                fails.append(("row_identity", "row %s strand/genes %s/%s, the descriptions counted for it give %s/%s"
                              % (k, r["strand"], r["genes"], "".join(sorted(l[0])), sorted(l[1]))))
    if got != exp and not any(kk == "feature_row_split" for kk, _ in fails):
        bad = [k for k in set(got) | set(exp) if got.get(k) != exp.get(k)][:3]
        fails.append(("count_mismatch", "history recount differs at %s: got %s expected %s"
                      % (bad, [got.get(k) for k in bad], [exp.get(k) for k in bad])))
    elif got != exp:
        if sum(v[0] for v in got.values()) != sum(v[0] for v in exp.values()):
            fails.append(("count_mismatch", "history totals differ"))
    return fails


def oracle_profile(op, kw):
    """a single wrapper call against the statement (`expected_values`, all inputs); a deviation inside the class
    `micro_feature_sweep_skip` is reported as that class"""
    if not kw["blocks"]:
        return []
    kind = "exon" if op == "exon_profile" else "intron"
    K = tl(kw["known"])
    r = guarded(impl_profile, op, kw)
    if vlib.is_err(r):
        return [("crash", "%s raised on non-empty blocks: %s" % (op, r))]
    vals = expected_values(kind, K, tl(kw["blocks"]), kw["d"], kw.get("abs_d", 20), kw["polya"], kw["polyt"])
    fails = []
    for k, g, (vs, vl, exact, cands) in zip(K, r["gene"], vals):
        if g == 1 and not cands:
            fails.append(("include_unsound", "%s: %s marked present, no read feature within delta (%s)" % (op, k, kw)))
            continue
        dev = (g in (1, -1, 0) and g != vs and g != vl) or (g == -2 and vs != 0)
        if dev:
            fails.append(("count_mismatch" if exact else "micro_feature_sweep_skip",
                          "%s: %s has %s, the statement gives %s (%s)" % (op, k, g, vs, kw)))
    return fails


def replay(ctx, failure):
    inp = failure["input"]
    lvl = inp.get("level")
    if lvl == "inprocess":
        return any(k == failure["kind"] for k, _ in _safe_inprocess(inp["case"]))
    if lvl == "history":
        return any(k == failure["kind"] for k, _ in oracle_history(inp["case"]))
    if lvl == "chromosome":
        return any(k == failure["kind"] for k, _ in oracle_chromosome(inp["case"]))
    if lvl == "chromosome_profiles":
        return any(k == failure["kind"] for k, _ in oracle_chromosome_profiles(inp["case"]))
    if lvl == "profile":
        return any(k == failure["kind"] for k, _ in oracle_profile(inp["op"], inp["case"]))
    if lvl == "pipeline":
        fails, _ = oracle_pipeline(inp["seed"], inp["cfg"], split=inp.get("split", False))
        return any(k == failure["kind"] for k, _ in fails)
    if lvl == "merge":
        import random
        return any(k == failure["kind"] for k, _, _ in oracle_merge_union(random.Random(1), inp["isos"], inp["d"])) or \
            any(k == failure["kind"] for s_ in range(20) for k, _, _ in oracle_merge_union(random.Random(s_), inp["isos"], inp["d"]))
    if lvl == "options":
        return run_set_matching_options(inp["strategy"], inp["delta"]).delta != inp["delta"]
    if lvl == "toy":
        fails, _ = toy_rows_unique()
        return any(k == failure["kind"] for k, _ in fails)
    return False


def matches_finding(failure, entry):
    """`tie_loser_exon`, `micro_feature_sweep_skip`, `partial_load_label`: the oracle names a failure by one of these kinds
    only after checking the class predicate on the feature / read pair (`micro_class`, the lenient recount, the genes of
    the gene infos through which the feature was counted); everything else keeps its own kind and stays unlisted"""
    return failure["kind"] == entry.get("kind")
