"""C11 extension — translation equivariance of the read-to-isoform assignment (Model/Assign.lean, property C01).
Theorems: lean/IsoVerif/Props/C11Assign.lean.  Real functions (through the adapters of props/C01.py): GeneInfo.from_models,
CombinedProfileConstructor.construct_profiles, LongReadAssigner.categorize_exon_elongation_subtype,
PolyAVerifier.verify_read_ends, LongReadAssigner.assign_to_isoform (with the real JunctionComparator).

The model is evaluated through the existing `C01.*` driver ops on the original and on the transformed input; the
transformations of Model/C11SymAssign.lean (`shiftIsoform`, `shiftPolyA`, `shiftEvent`, `shiftAssignment`, `shiftGene`,
`shiftCj`) have Python twins here, compared through the `C11.T.*` ops of Driver/C11Assign.lean on every run.

`domain` = the hypotheses of the theorems (`NoSentinel` / `EndsSafe` / `ExonsSafe` / `SafePos`), evaluated literally
(`MovedSafeA/T` with the real `shift_polya / shift_polyt` for every count up to the read length).  Since fix a2ae069
(absent polyA position = infinitely far in detect_reference_exons_*) there is no distance-from-origin condition."""
import vlib
from gen import c11gen as T
from gen import c01_annot as A
from props.c11ext import Rel

PROPS = ["IsoVerif/Props/C11Assign.lean"]
TARGETS = ["IsoVerif.Props.C11Assign"]

POS_EVENTS = {"correct_polya_site_left", "correct_polya_site_right", "alternative_polya_site_left",
              "alternative_polya_site_right", "internal_polya_left", "internal_polya_right"}

KS = [1, 255, 256, 1000]

_STATE = {"ctx": None, "last": None}


def _c01():
    from props import C01 as M
    return M


def _tl(l):
    return [tuple(x) for x in l]


# ------------------------------------------------------------------------------------------------
# transformations (Python twins of Model/C11SymAssign.lean)

def shift_isoforms(k, isoforms):
    return [dict(t, exons=[list(e) for e in T.shift_l(k, t["exons"])]) for t in isoforms]


def shift_polya_info(k, pa):
    return [T.shift_pos(k, x) for x in pa]


def shift_event(k, e):
    name, ir, rr, info = e
    return [name, list(ir), list(rr), T.shift_pos(k, info) if name in POS_EVENTS else info]


def shift_events(k, evs):
    return [shift_event(k, e) for e in evs]


def shift_cj(k, cj):
    return [None if ev is None else shift_events(k, ev) for ev in cj]


def shift_assignment(k, a):
    return dict(a, matches=[dict(m, events=shift_events(k, m["events"])) for m in a["matches"]])


def shift_gene_json(k, g):
    sl = lambda l: [list(x) for x in T.shift_l(k, l)]
    return {"start": g["start"] + k, "end": g["end"] + k, "introns": sl(g["introns"]), "exons": sl(g["exons"]),
            "split_exons": sl(g["split_exons"]),
            "isoforms": [dict(i, introns=sl(i["introns"]), region=list(T.shift_iv(k, i["region"]))) for i in g["isoforms"]]}


# ------------------------------------------------------------------------------------------------
# the real code

def _params(pspec):
    C = _c01()
    if pspec[0] == "tiny":
        import random
        return C.tiny_params(random.Random(pspec[1]))
    return C.make_params(pspec[0], delta=pspec[1], resolve=pspec[2])


def _isoforms(kw):
    return [{"id": "t%04d" % i, "gene": "g", "strand": t["strand"], "exons": _tl(t["exons"])}
            for i, t in enumerate(kw["isoforms"])]


def _built(kw):
    return _c01().Built(_isoforms(kw), _params(kw["pspec"]))


def impl_gene(kw):
    return _c01().gene_json(_built(kw))


def impl_profiles(kw):
    b = _built(kw)
    return _c01().profiles_json(b.profiles(kw["blocks"], kw["polya"]))


def impl_elongation(kw):
    C = _c01()
    b = _built(kw)
    prof = b.profiles(kw["blocks"], kw["polya"])
    evs = b.assigner.categorize_exon_elongation_subtype(prof.read_split_exon_profile, b.ids[kw["iso"]])
    return [C.event_json(e) for e in evs]


def _events(evs):
    IA = _c01()._impl()[4]
    return [IA.MatchEvent(IA.MatchEventSubtype[n], isoform_region=tuple(ir), read_region=tuple(rr), event_info=info)
            for n, ir, rr, info in evs]


def impl_verify_read_ends(kw):
    C = _c01()
    b = _built(kw)
    prof = b.profiles(kw["blocks"], kw["polya"])
    out = b.assigner.polya_verifier.verify_read_ends(prof, b.ids[kw["iso"]], _events(kw["events"]))
    return [C.event_json(e) for e in out]


def impl_assign(kw):
    b = _built(kw)
    prof = b.profiles(kw["blocks"], kw["polya"])
    _STATE["last"] = (b, prof, kw)
    return dict(b.assign(prof), impl=True)


def real_cj(kw):
    b = _built(kw)
    return b.compare_all(b.profiles(kw["blocks"], kw["polya"]))


# ------------------------------------------------------------------------------------------------
# comparison

def _norm_assignment(a):
    if vlib.is_err(a):
        return a
    ms = []
    for m in a["matches"]:
        pen = m["penalty"]
        ms.append([m["iso"], m["cls"], vlib.canon(m["events"]), pen[0] / pen[1] if isinstance(pen, list) else float(pen)])
    return [a["type"], a.get("path"), ms]


def _mixed(a, b):
    """one value comes from the model (driver), the other from the real code (tagged by impl_assign)"""
    return (a.get("impl") is True) != (b.get("impl") is True)


def eq_assignment(a, b):
    if vlib.is_err(a) or vlib.is_err(b):
        ok = vlib.is_err(a) and vlib.is_err(b)
    else:
        na, nb = _norm_assignment(a), _norm_assignment(b)
        ok = na[0] == nb[0] and na[1] == nb[1] and len(na[2]) == len(nb[2]) and \
            all(x[:3] == y[:3] and abs(x[3] - y[3]) <= 1e-9 for x, y in zip(na[2], nb[2]))
    if ok:
        return True
    # model (exact rationals) vs real code (floats): a decision taken on float scores may differ from the exact one
    # (assumption of C01); such a case is recognised by Fraction recomputation and excluded, as in props/C01.py
    ctx, last = _STATE["ctx"], _STATE["last"]
    if ctx is not None and last is not None and not vlib.is_err(b) and not vlib.is_err(a) and _mixed(a, b):
        C = _c01()
        built, prof, kw = last
        try:
            base = {x: kw[x] for x in ("isoforms", "params", "blocks", "polya")}
            sc = ctx.driver.run([vlib.req("C01.scores", **base)])[0]
            if (isinstance(sc, list) and C.float_sensitive(built, prof, sc)) or \
                    C.penalty_float_sensitive(built, prof, built.compare_all(prof)):
                ctx.count("xassign_float_divergence")
                return True
        except Exception:          # a broken driver must not hide the disagreement
            pass
    return False


# ------------------------------------------------------------------------------------------------
# the hypotheses of the theorems

def safe_pos(k, x):
    return x == -1 or x + k != -1


def exons_safe(k, isoforms):
    return all(e[0] <= e[1] and e[0] != -1 and e[0] + k != -1 and e[1] + 1 != -1 and e[1] + 1 + k != -1
               for t in isoforms for e in t["exons"])


def _moved_safe(k, fn, blocks, pos):
    if pos == -1:
        return True
    for c in range(len(blocks) + 1):
        try:
            r = fn(blocks, c, pos)
        except IndexError:
            continue
        if r == -1 or r + k == -1:
            return False
    return True


def ends_safe(k, p, t, blocks, polya):
    """EndsSafe for one isoform (PolyaSafe for '+', PolytSafe for '-')"""
    vlib.repo_on_path()
    import src.polya_verification as PV
    blocks = _tl(blocks)
    ex = t["exons"]
    if t["strand"] == "+":
        ext, int_, fn, border = polya[0], polya[2], PV.shift_polya, ex[-1][1]
    elif t["strand"] == "-":
        ext, int_, fn, border = polya[1], polya[3], PV.shift_polyt, ex[0][0]
    else:
        return True
    if not (safe_pos(k, ext) and safe_pos(k, int_)) or border == -1 or border + k == -1:
        return False
    return _moved_safe(k, fn, blocks, ext) and _moved_safe(k, fn, blocks, int_)


def dom_gene(par, kw):
    return exons_safe(par["k"], kw["isoforms"])


def dom_profiles(par, kw):
    k = par["k"]
    return exons_safe(k, kw["isoforms"]) and safe_pos(k, kw["polya"][0]) and safe_pos(k, kw["polya"][1])


def dom_assign(par, kw):
    k = par["k"]
    return dom_profiles(par, kw) and all(ends_safe(k, kw["params"], t, kw["blocks"], kw["polya"]) for t in kw["isoforms"])


# regression input of fix a2ae069 (before it the sentinel −1 entered a `min` of distances near the chromosome start and the
# relation FAILED here: detectBeyondPolya_sentinel_arith_witness / verifyReadEnds_sentinel_arith_regression); an ordinary
# case now: the relation must hold on model and real code
WITNESS_PSPEC = ("default", None, "default")
WITNESS = {"isoforms": [{"exons": [[10, 30], [200, 210]], "strand": "+"}], "blocks": [[10, 30]], "polya": [80, -1, -1, -1],
           "iso": 0, "events": []}


def dom_verify(par, kw):
    k = par["k"]
    return dom_profiles(par, kw) and ends_safe(k, kw["params"], kw["isoforms"][kw["iso"]], kw["blocks"], kw["polya"])


# ------------------------------------------------------------------------------------------------
# relations

def _base(kw, *extra):
    return {x: kw[x] for x in ("isoforms", "params", "blocks", "polya") + extra}


def _tin(par, kw, **more):
    k = par["k"]
    out = dict(kw, isoforms=shift_isoforms(k, kw["isoforms"]))
    if "blocks" in kw:
        out["blocks"] = [list(x) for x in T.shift_l(k, kw["blocks"])]
        out["polya"] = shift_polya_info(k, kw["polya"])
    out.update(more)
    return out


RELS = [
    Rel("S.gene", "shift_equivariant_fromModels",
        model=lambda kw: vlib.req("C01.gene", isoforms=kw["isoforms"]), impl=impl_gene,
        tin=_tin, tout=lambda par, kw, v: shift_gene_json(par["k"], v), domain=dom_gene),
    Rel("S.profiles", "shift_equivariant_constructProfiles",
        model=lambda kw: vlib.req("C01.profiles", **_base(kw)), impl=impl_profiles,
        tin=_tin,
        tout=lambda par, kw, v: dict(v, introns=[list(x) for x in T.shift_l(par["k"], v["introns"])]),
        domain=dom_profiles,
        nontrivial=lambda kw, v: not vlib.is_err(v) and (1 in v["split"]["gene"] or 1 in v["intron"]["gene"])),
    Rel("S.elongation_events", "shift_equivariant_elongationEvents",
        model=lambda kw: vlib.req("C01.elongation", **_base(kw, "iso")), impl=impl_elongation,
        tin=_tin, tout=lambda par, kw, v: v, domain=dom_profiles,
        nontrivial=lambda kw, v: not vlib.is_err(v) and len(v) > 0),
    Rel("S.verify_read_ends", "shift_equivariant_verifyReadEnds",
        model=lambda kw: vlib.req("C01.verify_read_ends", **_base(kw, "iso", "events")), impl=impl_verify_read_ends,
        tin=lambda par, kw: _tin(par, kw, events=shift_events(par["k"], kw["events"])),
        tout=lambda par, kw, v: shift_events(par["k"], v), domain=dom_verify,
        nontrivial=lambda kw, v: not vlib.is_err(v) and any(e[0] in POS_EVENTS for e in v)),
    Rel("S.assign_read", "shift_equivariant_assignRead",
        model=lambda kw: vlib.req("C01.assign", **_base(kw, "cj")), impl=impl_assign,
        tin=lambda par, kw: _tin(par, kw, cj=shift_cj(par["k"], kw["cj"])),
        tout=lambda par, kw, v: shift_assignment(par["k"], v), domain=dom_assign, eq=eq_assignment,
        nontrivial=lambda kw, v: not vlib.is_err(v) and any(m["iso"] is not None for m in v["matches"])),
]


# ------------------------------------------------------------------------------------------------
# generators

EXTRA_EVENTS = ["fake_terminal_exon_right", "fake_terminal_exon_left", "terminal_exon_misalignment_right",
                "terminal_exon_misalignment_left", "incomplete_intron_retention_right", "incomplete_intron_retention_left",
                "major_exon_elongation_right", "exon_elongation_left", "intron_retention", "exon_skipping_known"]


def _world(rng, tiny, offset):
    """annotation (JSON form), parameter spec, parameter JSON"""
    C = _c01()
    scale = 0.04 if tiny else 1.0
    isoforms = A.rand_annotation(rng, scale=scale, max_genes=2)
    if offset == "origin":      # the first exon starts within 40 bases of the chromosome start (regression class of a2ae069)
        offset = rng.randint(1, 40) - min(t["exons"][0][0] for t in isoforms)
    if offset:
        for t in isoforms:
            t["exons"] = T.shift_l(offset, t["exons"])
    if tiny:
        pspec = ("tiny", rng.randrange(10 ** 9), None)
    else:
        pspec = (rng.choice(A.PRESETS), rng.choice([None, None, 0, 3, 8]),
                 rng.choice(["default", "default", "none", "monoexon_only", "monoexon_and_fsm", "all"]))
    params = _params(pspec)
    return isoforms, scale, pspec, params, C.params_json(params)


class _Rng:
    """props/C01.gen_reads takes a ctx"""

    def __init__(self, rng):
        self.rng = rng


def cases(ctx):
    C = _c01()
    rng = ctx.rng
    quick = ctx.tier == "quick"
    out = []
    out.append(("S.verify_read_ends", {"k": 1000},
                dict(WITNESS, pspec=WITNESS_PSPEC, params=C.params_json(_params(WITNESS_PSPEC)))))
    n_worlds = (110, 70) if quick else (1300, 800)
    for tiny, n in ((False, n_worlds[0]), (True, n_worlds[1])):
        for _ in range(n):
            # tiny worlds start near the origin (sentinel hypotheses bite); genome-scale ones anywhere
            offset = rng.choice([0, 0, 150, 5000, "origin"]) if tiny else rng.choice([0, 0, 10 ** 5, 3 * 10 ** 7, "origin"])
            isoforms, scale, pspec, params, pj = _world(rng, tiny, offset)
            ij = C.isoforms_json(isoforms)
            base = {"isoforms": ij, "pspec": pspec, "params": pj}
            k = rng.choice(KS + ([-7, -3] if rng.random() < 0.2 else []))
            out.append(("S.gene", {"k": k}, dict(base)))
            for kind, blocks, polya in C.gen_reads(_Rng(rng), isoforms, params, scale, 4 if quick else 6):
                kw = dict(base, blocks=blocks, polya=polya)
                k = rng.choice(KS + ([-7] if rng.random() < 0.1 else []))
                try:
                    cj = real_cj(kw)
                except C.ERRS:
                    continue            # the profiles cannot be built: covered by S.profiles below
                finally:
                    if rng.random() < 0.3:
                        out.append(("S.profiles", {"k": k}, dict(kw)))
                out.append(("S.assign_read", {"k": k}, dict(kw, cj=cj)))
                iso = rng.randrange(len(ij))
                if rng.random() < 0.5:
                    out.append(("S.elongation_events", {"k": k}, dict(kw, iso=iso)))
                if rng.random() < 0.7:
                    # the events `detect_inconsistensies` hands over (comparator + elongation) plus injected ones that
                    # drive the fake-exon / misalignment / internal-priming branches
                    evs = [] if cj[iso] is None else [list(e) for e in cj[iso]]
                    try:
                        evs += impl_elongation(dict(kw, iso=iso))
                    except C.ERRS:
                        pass
                    for _ in range(rng.choice([0, 0, 1, 2])):
                        n_ex = len(ij[iso]["exons"])
                        j = rng.randrange(max(1, n_ex - 1))
                        evs.insert(rng.randrange(len(evs) + 1), [rng.choice(EXTRA_EVENTS), [j, j], [0, 0], rng.choice([0, 7, 60])])
                    pa = list(polya)
                    if rng.random() < 0.5:      # make sure the strand's verifier has something to verify
                        end, start = blocks[-1][1], blocks[0][0]
                        w = max(2, int(60 * scale))
                        if ij[iso]["strand"] == "+":
                            pa[0] = max(1, end + rng.randint(-w, w)) if rng.random() < 0.7 else pa[0]
                            pa[2] = max(1, end - rng.randint(0, 2 * w)) if rng.random() < 0.4 else pa[2]
                        else:
                            pa[1] = max(1, start + rng.randint(-w, w)) if rng.random() < 0.7 else pa[1]
                            pa[3] = max(1, start + rng.randint(0, 2 * w)) if rng.random() < 0.4 else pa[3]
                    out.append(("S.verify_read_ends", {"k": k}, dict(kw, polya=pa, iso=iso, events=evs)))
    ctx.extra["xassign_universe"] = {"worlds_genome_scale": n_worlds[0], "worlds_tiny": n_worlds[1], "shifts": KS + [-7, -3],
                                     "offsets": [0, 150, 5000, 10 ** 5, 3 * 10 ** 7, "first exon at 1..40"]}
    return out


def transformation_checks(ctx):
    """Model/C11SymAssign.lean vs the Python twins above"""
    _STATE["ctx"] = ctx
    rng = ctx.rng
    names = sorted(POS_EVENTS) + EXTRA_EVENTS + ["fsm", "terminal_site_match_right_precise", "none", "undefined"]
    reqs = []
    for _ in range(40):
        k = rng.choice(KS + [-7, -1, 0])
        isoforms = [{"exons": [[a, a + rng.randint(0, 50)] for a in sorted(rng.sample(range(-3, 3000), rng.randint(1, 4)))],
                     "strand": rng.choice("+-.")} for _ in range(rng.randint(1, 3))]
        reqs.append(("T.shift_isoforms", {"k": k, "isoforms": isoforms}, shift_isoforms(k, isoforms)))
        pa = [rng.choice([-1, -1, -1 - k, rng.randint(0, 3000)]) for _ in range(4)]
        reqs.append(("T.shift_polya_info", {"k": k, "polya": pa}, shift_polya_info(k, pa)))
        evs = [[rng.choice(names), [rng.randint(0, 5), rng.randint(0, 5)], [rng.randint(0, 5), rng.randint(0, 5)],
                rng.choice([-1, 0, 7, -1 - k, rng.randint(0, 3000)])] for _ in range(rng.randint(0, 5))]
        reqs.append(("T.shift_events", {"k": k, "events": evs}, shift_events(k, evs)))
        cj = [None if rng.random() < 0.2 else evs[:rng.randint(0, len(evs))] for _ in range(rng.randint(0, 3))]
        reqs.append(("T.shift_cj", {"k": k, "cj": cj}, shift_cj(k, cj)))
        a = {"type": rng.choice(["unique", "ambiguous", "inconsistent", "noninformative"]),
             "matches": [{"iso": rng.choice([None, 0, 3]), "cls": rng.choice(["full_splice_match", "genic", "novel_in_catalog"]),
                          "events": evs[:rng.randint(0, len(evs))], "penalty": [rng.randint(0, 9), rng.randint(1, 9)]}
                         for _ in range(rng.randint(0, 3))]}
        reqs.append(("T.shift_assignment", dict(a, k=k), shift_assignment(k, a)))
    C = _c01()
    for _ in range(12):
        isoforms = A.rand_annotation(rng, scale=rng.choice([0.04, 1.0]), max_genes=2)
        ij = C.isoforms_json(isoforms)
        k = rng.choice(KS)
        reqs.append(("T.shift_gene", {"k": k, "isoforms": ij}, ("gene", ij, k)))
    outs = ctx.driver.run([vlib.req("C11." + op, **kw) for op, kw, _ in reqs] +
                          [vlib.req("C01.gene", isoforms=io[1]) for op, kw, io in reqs if op == "T.shift_gene"])
    genes = iter(outs[len(reqs):])
    for (op, kw, io), mo in zip(reqs, outs):
        ctx.evaluations += 1
        ctx.count("op:" + op)
        if op == "T.shift_gene":
            g = next(genes)
            io = g if vlib.is_err(g) else shift_gene_json(io[2], g)
        ctx.traces_validated += 1
        if vlib.canon(mo) != vlib.canon(io) and not (vlib.is_err(mo) and vlib.is_err(io)):
            ctx.disagree(op, kw, mo, io)
