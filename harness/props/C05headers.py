"""C05 / C12 (growth, seeds C05_a4 / C12_a4) — BAM files of one experiment whose HEADERS differ, and a reference FASTA
record shorter than the headers say (Model/ChromHeaders.lean, Props/C05Headers.lean).

The input classes the earlier generators never produced:
  * the header of a file gives the sequence another length than the header of another file (parts aligned against
    different builds / re-headered parts);
  * the header of a file does not list the sequence at all (a part produced by subsetting to single chromosomes):
    pysam raises KeyError in `get_reference_length` and ValueError in `fetch` FOR THAT FILE;
  * the header lists the sequences in another order (the `reference_id` of a record differs from file to file);
  * `len(chr_record)` < header length with alignments that start beyond the end of the FASTA sequence (the project's own
    tests/simple_data: BAM header chr9 = 124.6 Mb, FASTA 4 Mb).

correspondence: `C05M.collect_headers / chrom_stats_headers / chrom_length` against the real
  `AlignmentCollector.__init__ (get_chromosome_length) / process / BAMOnlineMerger._set/_fetch` with a `chr_record`, on fake
  pysam handles and on real indexed BAM files with such headers, both memory modes.
oracle: every record of every file forwarded with the index of its file, statistics = categories of the union (in-process,
  fake + real BAM), and the real pipeline on three BAM files with different headers + a truncated FASTA, both memory modes,
  with and without an annotation that has a gene beyond the end of the FASTA sequence.
"""
import collections
import os
import re
import shutil

import vlib
from gen import coverage as G
from props import C05multi as M


class HFakeBam(M.FakeBam):
    """pysam.AlignmentFile stand-in with its own header entry; `length=None`: the header does not list the sequence"""

    def __init__(self, recs, length):
        M.FakeBam.__init__(self, recs, length)

    def fetch(self, chr_id, start, end, multiple_iterators=False):
        if self.length is None:
            raise ValueError("invalid contig `%s`" % chr_id)          # pysam's message
        return M.FakeBam.fetch(self, chr_id, start, end, multiple_iterators)

    def get_reference_length(self, chr_id):
        if self.length is None:
            raise KeyError("unknown reference %s" % chr_id)
        return self.length


def fake_pairs_h(hfiles):
    return [(HFakeBam(h["recs"], h["len"]), "file%d.bam" % i) for i, h in enumerate(hfiles)]


def write_real_bams_h(d, hfiles, orders):
    """one indexed BAM per file; orders[i] in {'first', 'last', 'only'}: position of chr1 among the @SQ lines (a file that
    does not list chr1 lists chrZ only)"""
    import pysam
    os.makedirs(d, exist_ok=True)
    pairs = []
    for i, h in enumerate(hfiles):
        if h["len"] is None:
            sq = [{"SN": "chrZ", "LN": 777}]
        elif orders[i] == "only":
            sq = [{"SN": "chr1", "LN": h["len"]}]
        elif orders[i] == "last":
            sq = [{"SN": "chrZ", "LN": 777}, {"SN": "chr0", "LN": 5}, {"SN": "chr1", "LN": h["len"]}]
        else:
            sq = [{"SN": "chr1", "LN": h["len"]}, {"SN": "chrZ", "LN": 777}]
        rid = [x["SN"] for x in sq].index("chr1") if h["len"] is not None else None
        path = os.path.join(d, "h%d.bam" % i)
        with pysam.AlignmentFile(path, "wb", header={"HD": {"VN": "1.6", "SO": "coordinate"}, "SQ": sq}) as out:
            for a in h["recs"]:
                s = pysam.AlignedSegment()
                s.query_name = "r%d" % a[4]
                s.flag = (256 if a[2] & 1 else 0) | (2048 if a[2] & 2 else 0)
                s.reference_id = rid
                s.reference_start = a[0]
                s.mapping_quality = a[3]
                s.cigarstring = "%dM" % (a[1] - a[0])
                out.write(s)
        pysam.index(path)
        pairs.append((pysam.AlignmentFile(path, "rb", require_index=True), path))
    return pairs


def record_of(fasta):
    """`chr_record` of the collector: anything with a length (the loop under test never reads its bases)"""
    return None if fasta is None else "N" * fasta


def with_headers(rng, files):
    """header entries for a partition: a file's own length >= its last record; a file without records may not list the
    sequence at all; -> (hfiles, fasta length or None)"""
    hfiles = []
    ends = [a[1] for f in files for a in f] or [1]
    for f in files:
        if not f:
            ln = None if rng.random() < 0.6 else rng.choice([1, 50, max(ends) + 10])
        else:
            ln = max(a[1] for a in f) + rng.choice([0, 0, 1, 10, 5000])
        hfiles.append({"len": ln, "recs": [list(a) for a in f]})
    starts = sorted(a[0] for f in files for a in f) or [0]
    k = rng.random()
    if k < 0.15:
        fasta = None
    elif k < 0.25:
        fasta = 0
    elif k < 0.8:
        fasta = max(0, starts[rng.randrange(len(starts))] - rng.choice([0, 1, 2, 300]))      # >= 1 record starts beyond it
    else:
        fasta = max(ends) + rng.choice([0, 10, 10000])
    return hfiles, fasta


def gen_cases(rng, quick):
    cases = []
    for _ in range(90 if quick else 900):
        alns = [a for a in G.small_cluster_set(rng, n_max=25, p_special=0.25) if a[0] >= 0]
        k = rng.choice([2, 2, 3, 3, 4])
        style, files = M.partition(rng, alns, k, rng.choice(["uniform", "empty", "empty", "by_cluster", "twins"]))
        cases.append(("small/" + style,) + with_headers(rng, files))
    kinds = ["pile_bridge_tail", "final_bin_valley", "long_ladder", "two_piles", "thin_long"]
    for i in range(6 if quick else 60):
        kind, alns = G.split_cluster(rng, kinds[i % len(kinds)])
        alns = [a for a in alns if a[0] >= 0][:1500]
        style, files = M.partition(rng, alns, rng.choice([2, 3, 4]), rng.choice(["uniform", "empty", "by_cluster"]))
        cases.append(("split/" + kind + "/" + style,) + with_headers(rng, files))
    # fixed corners: all files unlisted; the longest header on a file without records; one listed file among unlisted ones
    r = [G.aln(100, 200, 0), G.aln(5000, 5100, 1)]
    cases.append(("corner", [{"len": None, "recs": []}, {"len": None, "recs": []}], 100))
    cases.append(("corner", [{"len": 300, "recs": [r[0]]}, {"len": 9000, "recs": []}, {"len": 5100, "recs": [r[1]]}], 150))
    cases.append(("corner", [{"len": None, "recs": []}, {"len": 5100, "recs": r}, {"len": None, "recs": []}], 4000))
    cases.append(("corner", [{"len": 5100, "recs": r}], 4000))
    return cases


def _usable_real(hfiles):
    return all(not (a[2] & 4) and a[0] >= 0 and a[1] > a[0] for h in hfiles for a in h["recs"]) and \
        all(h["len"] is None or h["len"] >= 1 for h in hfiles) and \
        all(a[1] <= h["len"] for h in hfiles for a in h["recs"]) and sum(len(h["recs"]) for h in hfiles) <= 500


def real_chrom_length(hfiles):
    AP = M._mods()[0]
    col = AP.AlignmentCollector.__new__(AP.AlignmentCollector)
    col.chr_id = "chr1"
    col.bam_pairs = fake_pairs_h(hfiles)
    col.chr_record = "N" * 7
    return col.get_chromosome_length()


def correspondence(ctx):
    rng = ctx.rng
    quick = ctx.tier == "quick"
    D = ctx.driver
    cases = gen_cases(rng, quick)
    real_dir = vlib.scratch_dir("isoverif_c05h_")
    try:
        reqs, meta = [], []
        for n, (kind, hfiles, fasta) in enumerate(cases):
            use_real = n % (6 if quick else 4) == 0 and _usable_real(hfiles)
            orders = [rng.choice(["first", "last", "only"]) for _ in hfiles]
            for mode in ("bam", "memory"):
                reqs.append(vlib.req("C05M.collect_headers", mode=mode, hfiles=hfiles, fasta=fasta))
                meta.append((kind, hfiles, fasta, mode, use_real, orders, n))
            reqs.append(vlib.req("C05M.chrom_stats_headers", hfiles=hfiles, fasta=fasta))
            meta.append((kind, hfiles, fasta, "stats", use_real, orders, n))
            reqs.append(vlib.req("C05M.chrom_length", hfiles=hfiles))
            meta.append((kind, hfiles, fasta, "length", False, orders, n))
        outs = D.run(reqs)
        cache = {}
        for (kind, hfiles, fasta, mode, use_real, orders, n), mo in zip(meta, outs):
            ctx.evaluations += 1
            op = {"stats": "chrom_stats_headers", "length": "chrom_length"}.get(mode, "collect_headers")
            ctx.count("op:C05M." + op)
            inp = {"hfiles": hfiles, "fasta": fasta, "mode": mode}
            if isinstance(mo, dict) and "driver_error" in mo:
                ctx.disagree("C05M." + op, inp, mo, None)
                continue
            ctx.traces_validated += 1
            if mode == "length":
                io = real_chrom_length(hfiles)
                if mo != io:
                    ctx.disagree("C05M.chrom_length", inp, mo, io)
                elif io > 0:
                    ctx.mark_nontrivial(M._digest(op, [hfiles]))
                continue
            key = (n, mode if mode != "stats" else "bam")
            if key not in cache:
                if use_real:
                    d = os.path.join(real_dir, "c%d_%s" % (n, key[1]))
                    pairs = write_real_bams_h(d, hfiles, orders)
                    ctx.count("c05h_real_bam_runs")
                else:
                    pairs = fake_pairs_h(hfiles)
                cache[key] = M.real_collect_files(pairs, key[1] == "memory", record_of(fasta))
                if use_real:
                    for b, _ in pairs:
                        b.close()
                    shutil.rmtree(d, ignore_errors=True)
            r = cache[key]
            io = vlib.canon(r if vlib.is_err(r) else r["stats" if mode == "stats" else "out"])
            if mode != "stats":
                ctx.count("c05h_kind:" + kind.split("/")[0])
                if any(h["len"] is None for h in hfiles):
                    ctx.count("c05h_with_unlisted_file")
                if len(set(h["len"] for h in hfiles if h["len"] is not None)) >= 2:
                    ctx.count("c05h_with_different_lengths")
                if fasta is not None and any(a[0] >= fasta for h in hfiles for a in h["recs"]):
                    ctx.count("c05h_with_record_beyond_fasta_end")
            if not vlib.same(mo, io):
                ctx.disagree("C05M." + op, inp, M._short(mo), M._short(io))
            elif not vlib.is_err(mo) and (mode == "stats" or any(len(x[1]) > 0 for x in mo)):
                ctx.mark_nontrivial(M._digest(op, [hfiles, fasta, mode]))
    finally:
        shutil.rmtree(real_dir, ignore_errors=True)


# ------------------------------------------------------------------------------------------------
# oracle

def check_hfiles(hfiles, fasta, real=None):
    """the property on the real collector: every record forwarded with its file's index, statistics of the union, both
    modes agree (C05multi.check_files with the handles of this module).  real = (scratch dir, orders) or None"""
    files = [h["recs"] for h in hfiles]
    opened = []

    def pairs_of(fs):
        if real:
            p = write_real_bams_h(real[0], hfiles, real[1])
            opened.extend(b for b, _ in p)
            return p
        return fake_pairs_h(hfiles)
    try:
        return M.check_files(files, 0, pairs_of, record_of(fasta))
    finally:
        for b in opened:
            b.close()


WITNESS = [
    # C05_a4: one file, header 100000, FASTA record of 60000 bases, records beyond it
    ([{"len": 100000, "recs": [G.aln(1000, 2000, 0), G.aln(59300, 60600, 1), G.aln(70000, 71000, 2), G.aln(95000, 96000, 3)]}], 60000),
    # C12_a4: the middle part does not list the sequence; the parts around it hold records
    ([{"len": 5000, "recs": [G.aln(100, 200, 0)]}, {"len": None, "recs": []}, {"len": 5000, "recs": [G.aln(150, 260, 1), G.aln(4000, 4100, 2)]}], None),
    # the longest header belongs to the LAST file (the first file's length is too short for the records of the last)
    ([{"len": 300, "recs": [G.aln(100, 200, 0)]}, {"len": 90000, "recs": [G.aln(80000, 80500, 1)]}], 250),
]


def oracle(ctx, disagreements, broken):
    rng = ctx.rng
    quick = ctx.tier == "quick"
    base = len(ctx.failures)
    n = 0

    def enough():
        return len(ctx.failures) - base >= 4

    def report(hfiles, fasta, real=None):
        r = check_hfiles(hfiles, fasta, real)
        if r:
            ctx.fail("headers_" + r[0], {"level": "multi_headers", "hfiles": hfiles, "fasta": fasta,
                                         "orders": real[1] if real else None}, r[1])
        return r is not None
    for d in disagreements[:30]:
        inp = d.get("input")
        if str(d.get("op", "")).startswith("C05M.") and isinstance(inp, dict) and isinstance(inp.get("hfiles"), list) and not enough():
            n += 1
            report(inp["hfiles"], inp.get("fasta"))
    for hfiles, fasta in WITNESS:
        n += 1
        ctx.count("oracle_headers_witness")
        report(hfiles, fasta)
    d = vlib.scratch_dir("isoverif_c05h_o_")
    try:
        for t, (kind, hfiles, fasta) in enumerate(gen_cases(rng, quick)):
            if enough():
                break
            n += 1
            ctx.count("oracle_headers:" + kind.split("/")[0])
            real = None
            if t % (10 if quick else 6) == 0 and _usable_real(hfiles):
                real = (os.path.join(d, "t%d" % t), [rng.choice(["first", "last", "only"]) for _ in hfiles])
                ctx.count("oracle_headers_real_bam")
            report(hfiles, fasta, real)
            if real:
                shutil.rmtree(real[0], ignore_errors=True)
    finally:
        shutil.rmtree(d, ignore_errors=True)
    for spec in ([{"seed": 41, "genes": False}, {"seed": 42, "genes": True}] if quick else
                 [{"seed": 40 + s, "genes": bool(s % 2)} for s in range(1, 9)]):
        if ctx.elapsed() > (150 if quick else 1000):
            ctx.notes.append("header pipeline oracle skipped (time budget)")
            break
        n += 1
        ctx.count("oracle_headers_pipeline")
        r = check_pipeline_headers(spec)
        if r:
            ctx.fail(r[0], {"level": "multi_headers_pipeline", "spec": spec}, r[1])
    ctx.extra["oracle_headers_cases"] = n


def check_pipeline_headers(spec):
    """real isoquant.py, one experiment = three BAM files with different headers, reference FASTA truncated:
         file 0  @SQ chrS (full length H), chrT      reads on chrS (inside the FASTA part, straddling its end, beyond it) and chrT
         file 1  @SQ chrT only                       reads on chrT
         file 2  @SQ chrT, chrS (length H2 < H)      reads on chrS up to H2 (other order of the sequences)
       ref.fa holds chrS[:F] (F < H2 < H) and chrT.  Every primary alignment with MAPQ >= 5 must be in corrected_reads.bed
       exactly once (and in read_assignments.tsv with an annotation), the log statistics equal the categories of the union,
       default and --high_memory"""
    import random
    import pipeline as P
    from gen import synth
    rng = random.Random(spec["seed"])
    H, H2, F = 100000, 82000, 60000
    ds = synth.Dataset(spec["seed"])
    ds.add_chrom("chrS", H)
    ds.add_chrom("chrT", 30000)
    genes = bool(spec.get("genes"))
    if genes:
        ds.add_gene("chrS", "G1", "+", [("T1", [(1001, 1500), (2501, 3000)])])
        ds.add_gene("chrT", "G2", "-", [("T2", [(2001, 2400), (3001, 3300), (4001, 4500)])])
        # a gene beyond the end of the FASTA sequence (the annotation belongs to the full build)
        ds.add_gene("chrS", "G3", "+", [("T3a", [(70001, 70300), (70801, 71100), (71501, 71800)]), ("T3b", [(70001, 70300), (71501, 71800)])])
    parts = [[], [], []]
    expected = collections.Counter()
    optional = set()
    cats = collections.Counter()

    def add(part, name, chrom, exons, flag=0, mapq=60, polya=0):
        one = synth.Dataset(0)
        one.chroms = ds.chroms
        one.read_from_exons(name, chrom, exons, flag=flag, mapq=mapq, polya=polya)
        parts[part].append(one.reads[0])
        cats["secondary" if flag & 256 else "primary"] += 1
        if flag & 256:
            optional.add(name)
        elif mapq >= 5:
            expected[name] += 1
        else:
            optional.add(name)
    three = lambda s: [(s + 1, s + 300), (s + 801, s + 1100), (s + 1501, s + 1800)]
    for i in range(4):
        add(0, "genic_%d" % i, "chrS", [(1001 + i, 1500), (2501, 3000 - i)])
        add(2, "genic2_%d" % i, "chrS", [(1001 + 2 * i, 1500), (2501, 2990)])
        add(0, "inside_%d" % i, "chrS", three(20000 + 10 * i))
        add(2 * (i % 2), "straddle_%d" % i, "chrS", three(F - 700 + 10 * i))
        add(0, "beyond_%d" % i, "chrS", three(70000 + 7 * i), polya=20 if i % 2 else 0)
        add(2, "beyond2_%d" % i, "chrS", [(75001 + i, 75700)])
        add(0, "far_%d" % i, "chrS", [(95001 + 30 * i, 96000)], mapq=rng.choice([5, 60]))
        add(1, "t_%d" % i, "chrT", [(2001 + i, 2400), (3001, 3300), (4001, 4500 - i)])
        add(0, "t0_%d" % i, "chrT", [(9001 + i, 9800)])
    add(0, "beyond_0", "chrS", [(80001, 80900)], flag=256, mapq=0)
    add(2, "lowq", "chrS", three(72000), mapq=3)
    headers = [[("chrS", H), ("chrT", 30000)], [("chrT", 30000)], [("chrT", 30000), ("chrS", H2)]]
    for mode in ("default", "high_memory"):
        d = P.scratch("isoverif_c05h_p_")
        try:
            paths = ds.write(os.path.join(d, "in"), reads=[], fasta_len={"chrS": F})
            bams = [ds.write(os.path.join(d, "in"), bam_name="part%d.bam" % i, reads=parts[i], write_ref=False, header=headers[i])["bam"]
                    for i in range(3)]
            out = os.path.join(d, "out")
            args = P.std_args(paths, genedb=genes, extra=(["--high_memory"] if mode == "high_memory" else []))
            k = args.index("--bam")
            args = args[:k + 1] + bams + args[k + 2:]
            rc, log = P.run_isoquant(out, args)
            if rc != 0:
                return ("headers_pipeline_fails:" + mode, log[-700:])
            files = P.out_files(out)
            bedname = [f for f in files if f.endswith("corrected_reads.bed")][0]
            bed = collections.Counter(r[3] for r in P.read_bed(files[bedname]))
            missing = sorted((expected - bed).elements())
            if missing:
                return ("headers_read_missing_in_bed:" + mode, "%d of %d reads passing the filters are absent from corrected_reads.bed, e.g. %s"
                        % (len(missing), sum(expected.values()), missing[:4]))
            extra_ = sorted(x for x in (bed - expected).elements() if x not in optional)
            if extra_:
                return ("headers_read_repeated_or_unexpected_in_bed:" + mode, "%d extra name(s), e.g. %s" % (len(extra_), extra_[:3]))
            if genes:
                tsvname = [f for f in files if f.endswith("read_assignments.tsv")][0]
                ids = collections.Counter(set(l.split("\t")[0] for l in P.read_lines(files[tsvname])))
                missing = sorted((expected - ids).elements())
                if missing:
                    return ("headers_read_missing_in_tsv:" + mode, "%d absent from read_assignments.tsv, e.g. %s" % (len(missing), missing[:4]))
            m = re.search(r"overall alignment statistics:?(.*?)(?:Finishing read assignment|No reads were assigned)", log, re.S)
            if not m:
                return ("headers_log_stats_missing:" + mode, "statistics block not found in the log")
            st = {k_: int(v) for k_, v in re.findall(r"(primary|secondary|supplementary|unaligned): (\d+)", m.group(1))}
            st = {k_: v for k_, v in st.items() if v}
            exp = {k_: v for k_, v in cats.items() if v}
            if st != exp:
                return ("headers_log_stats_mismatch:" + mode, "log %s vs union of the files %s" % (st, exp))
        finally:
            shutil.rmtree(d, ignore_errors=True)
    return None


def replay(ctx, failure):
    inp = failure["input"]
    if inp.get("level") == "multi_headers":
        real = None
        d = None
        if inp.get("orders"):
            d = vlib.scratch_dir("isoverif_c05h_r_")
            real = (d, inp["orders"])
        try:
            return check_hfiles(inp["hfiles"], inp.get("fasta"), real) is not None
        finally:
            if d:
                shutil.rmtree(d, ignore_errors=True)
    if inp.get("level") == "multi_headers_pipeline":
        return check_pipeline_headers(inp["spec"]) is not None
    return False
