#!/venv/bin/python
"""Regenerates DESIGN.md §16 (seeded changes and which checks catch them) from seeded/*/meta.json."""
import json, os, re
V = os.path.dirname(os.path.dirname(os.path.abspath(__file__)))
rows = []
for d in sorted(os.listdir(os.path.join(V, "seeded"))):
    mp = os.path.join(V, "seeded", d, "meta.json")
    if not os.path.exists(mp):
        continue
    m = json.load(open(mp))
    det = m.get("detected_by", {})
    caught = [c for c, r in det.items() if r.get("rc") == 1]
    missed = [c for c, r in det.items() if r.get("rc") == 0]
    first = ""
    for c in caught:
        for l in det[c].get("lines", []):
            mm = re.search(r'"kind": "([^"]+)"', l)
            if mm:
                first = mm.group(1)
                break
        if first:
            break
    status = m.get("status", "")
    rows.append((d, m.get("breaks_property"), (m.get("summary") or "")[:170].replace("|", "/").replace("\n", " "),
                 (m.get("needs_to_manifest") or "")[:150].replace("|", "/").replace("\n", " "),
                 ", ".join(caught) or ("—" if not status else "obsolete"), first, ", ".join(x for x in missed if x not in caught), status[:120]))
out = ["", "---------------------------------------------------------------------------------------------------", "",
       "## 16. Seeded changes and which checks catch them", "",
       "Each change was written by a fresh sub-agent that saw only the text of one property and a scratch worktree of `/repo`",
       "(nothing from `/verif`), with a demonstration that passes on the clean tree and fails with the change while the 386 pinned",
       "tests still pass. I confirmed all of that in a scratch worktree (`harness/seedtool.py`), ran the registered quick checks against the",
       "patched tree, and filed the change under `seeded/<id>/` (patch.diff, demo, meta.json with what was run). Changes a check first",
       "missed led to the strengthening recorded in the `docs/Cxx.md` of that property (new generators, scenarios, regenerated tables or",
       "theorems); the table shows the state after strengthening. `_a/_b` = round 1, `_a2/_b2` = round 2 (asked for mechanisms different from round 1),",
       "`_a3/_b3`, `_a4/_b4` = rounds 3 and 4; `_a5/_b5` = round 5, written against the FINAL tree (after all repairs) and run once, with no strengthening afterwards:",
       "37 of its 40 changes are reported by the check of the property they were written for, the other three by the check of the property whose code they touch (C01_b5: the",
       "CIGAR match set, by C16; C03_b5: the id parser, by C17; C09_a5: the merger's file index, by C05 and C12). The two changes no check reports (C07_a, C18_a) are shown",
       "to be behaviour-neutral on the current tree (their own demos pass with the patch applied; `status` in their meta.json). Patches whose context moved under the",
       "repair commits were rebased by an agent that saw only the patch, the demo and the summary (`patch.orig.diff` keeps the original).", "",
       "| id | breaks | change | needs to manifest | caught by (quick tier) | first failure kind | quiet checks among those run |",
       "|---|---|---|---|---|---|---|"]
for r in rows:
    out.append("| %s | %s | %s | %s | %s | %s | %s |" % (r[0], r[1], r[2], r[3], r[4] + ((" — " + r[7]) if r[7] else ""), r[5], r[6]))
n = len(rows)
c = sum(1 for r in rows if r[4] not in ("—", "obsolete"))
out += ["", "%d seeded changes filed, %d reported as VIOLATION by at least one registered check." % (n, c), ""]
p = os.path.join(V, "DESIGN.md")
s = open(p).read()
marker = "\n---------------------------------------------------------------------------------------------------\n\n## 16. Seeded changes"
if marker in s:
    s = s[:s.index(marker)]
open(p, "w").write(s.rstrip("\n") + "\n" + "\n".join(out))
print("DESIGN §16: %d rows, %d caught" % (n, c))
