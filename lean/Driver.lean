import IsoVerif.Driver.All

def main : IO Unit := IsoVerif.Driver.runMain IsoVerif.Driver.allOps
