import IsoVerif.Driver.All
