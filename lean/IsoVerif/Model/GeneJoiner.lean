/-
C04 / C03 — executable model of `TranscriptToGeneJoiner` (/repo/src/graph_based_model_construction.py): the per-gene
tables built in `__init__`, `count_score` (strand gate + overlap score), `count_scores`, `merge_genes`,
`join_transcripts`.  Core Lean only.

Python dicts are insertion-ordered association lists, sets are duplicate-free lists.  The score is a Python float
`position_overlap + intronic_overlap`; the model carries exact fractions `(numerator, denominator)`.  The merge loop takes
the *value* of the overlap score as a parameter `heur` (a function of exactly what `count_score` reads: the two gene regions
and the two intron sets) — the theorems hold for every such function, the correspondence hands the model the floats the real
`count_score` returned (as exact fractions), and `countScoreExact` is the declarative formula, tied to the code separately.
Exceptions (`KeyError`, `AssertionError`, `IndexError`) are `none`.
-/
import IsoVerif.Model.ModelConstruction

namespace IsoVerif.Model.C04
open IsoVerif.Gen IsoVerif.Model

/-- a score as an exact fraction, denominator positive -/
abbrev Score := Int × Int

def Score.zero : Score := (0, 1)
def Score.lt (a b : Score) : Bool := decide (a.1 * b.2 < b.1 * a.2)

/-- the Python float `0.1` (= 3602879701896397 / 2^55) -/
def scoreCutoff : Score := (3602879701896397, 36028797018963968)

/-- `jaccard_similarity([r1], [r2])` for two single ranges -/
def rangeJaccard (r1 r2 : Iv) : Score :=
  if r1.1 ≤ r2.2 ∧ r2.1 ≤ r1.2 then (min r1.2 r2.2 - max r1.1 r2.1 + 1, max r1.2 r2.2 - min r1.1 r2.1 + 1)
  else (0, (r1.2 - r1.1 + 1) + (r2.2 - r2.1 + 1))

/-- `len(s1 & s2) / max(1, len(s1 | s2))` -/
def intronJaccard (i1 i2 : List Iv) : Score :=
  ((i1.filter (fun x => decide (x ∈ i2))).length,
   max 1 ((i1.length + (i2.filter (fun x => decide (x ∉ i1))).length : Nat) : Int))

/-- the value `count_score` returns for two genes of the same strand: `position_overlap + intronic_overlap` -/
def countScoreExact (r1 r2 : Iv) (i1 i2 : List Iv) : Score :=
  let p := rangeJaccard r1 r2
  let q := intronJaccard i1 i2
  (p.1 * q.2 + q.1 * p.2, p.2 * q.2)

/-- what `count_score` looks at besides the strands -/
abbrev ScoreFn := Iv → Iv → List Iv → List Iv → Score

structure Joiner where
  refGenes : List String                      -- keys of gene_info.gene_strands
  strands : List (String × Strand)            -- gene_strands
  regions : List (String × Iv)                -- gene_regions
  introns : List (String × List Iv)           -- gene_introns (defaultdict(set))
  g2t : List (String × List String)           -- gene_to_transcripts (defaultdict(set))
  scores : List ((String × String) × Score)   -- scores
  deriving Repr, DecidableEq

/-- `s.update(l)` -/
def setUnion {α} [DecidableEq α] (s l : List α) : List α := l.foldl setAdd s

/-- one annotated gene: id, strand, region (`get_gene_regions()`; `none` = KeyError) -/
structure RefGene where
  gid : String
  strand : Strand
  region : Option Iv
  deriving Repr, DecidableEq

/-- first loop of `__init__` -/
def joinerRefGenes (gs : List RefGene) : Option Joiner :=
  gs.foldlM (fun (j : Joiner) g =>
    match g.region with
    | none => none
    | some r => some { j with refGenes := setAdd j.refGenes g.gid, strands := amSet j.strands g.gid g.strand,
                              regions := amSet j.regions g.gid r }) ⟨[], [], [], [], [], []⟩

/-- second loop of `__init__`: `(transcript_id, gene_id, all_isoforms_introns[transcript_id])` in `gene_id_map` order -/
def joinerRefTranscripts (j : Joiner) (ts : List (String × String × List Iv)) : Joiner :=
  ts.foldl (fun j t =>
    { j with introns := amSet j.introns t.2.1 (setUnion ((amGet? j.introns t.2.1).getD []) t.2.2),
             g2t := amSet j.g2t t.2.1 (setAdd ((amGet? j.g2t t.2.1).getD []) t.1) }) j

/-- the region / strand update for a non-known model whose first and last exons are `f`, `l`;
    `none` = KeyError / the failed `assert self.gene_strands[t.gene_id] == t.strand` -/
def joinerRegionStep (j : Joiner) (t : TModel) (f l : Iv) : Option Joiner :=
  match amGet? j.regions t.gene with
  | none => some { j with regions := amSet j.regions t.gene (f.1, l.2), strands := amSet j.strands t.gene t.strand }
  | some r =>
    match amGet? j.strands t.gene with
    | none => none
    | some s => if s = t.strand then some { j with regions := amSet j.regions t.gene (min r.1 f.1, max r.2 l.2) } else none

/-- one iteration of the third loop of `__init__` -/
def joinerAddModel (j : Joiner) (t : TModel) : Option Joiner :=
  if t.ttype = .known then some j
  else
    match t.exons.head?, t.exons.getLast? with
    | some f, some l =>
      (joinerRegionStep j t f l).map (fun j1 =>
        { j1 with introns := amSet j1.introns t.gene (setUnion ((amGet? j1.introns t.gene).getD []) (junctionsFromBlocks t.exons)),
                  g2t := amSet j1.g2t t.gene (setAdd ((amGet? j1.g2t t.gene).getD []) t.tid) })
    | _, _ => none

/-- `TranscriptToGeneJoiner.__init__` -/
def Joiner.init (gs : List RefGene) (ts : List (String × String × List Iv)) (storage : List TModel) : Option Joiner :=
  match joinerRefGenes gs with
  | none => none
  | some j => storage.foldlM joinerAddModel (joinerRefTranscripts j ts)

/-- `count_score`; `none` = KeyError -/
def Joiner.countScore (heur : ScoreFn) (j : Joiner) (g1 g2 : String) : Option Score :=
  match amGet? j.strands g1, amGet? j.strands g2 with
  | some s1, some s2 =>
    if s1 ≠ s2 then some Score.zero
    else
      match amGet? j.regions g1, amGet? j.regions g2 with
      | some r1, some r2 =>
        some (heur r1 r2 (sortIv ((amGet? j.introns g1).getD [])) (sortIv ((amGet? j.introns g2).getD [])))
      | _, _ => none
  | _, _ => none

/-- `tuple(sorted([g1, g2]))` -/
def sortedPair (g1 g2 : String) : String × String := if g1 ≤ g2 then (g1, g2) else (g2, g1)

/-- body of the double loop of `count_scores` -/
def countScoresStep (heur : ScoreFn) (j : Joiner) (sc : List ((String × String) × Score)) (g1 g2 : String) :
    Option (List ((String × String) × Score)) :=
  if g1 = g2 ∨ (g1 ∈ j.refGenes ∧ g2 ∈ j.refGenes) then some sc
  else if amHas sc (sortedPair g1 g2) then some sc
  else (j.countScore heur g1 g2).map (fun s => amSet sc (sortedPair g1 g2) s)

/-- `count_scores` -/
def Joiner.countScores (heur : ScoreFn) (j : Joiner) : Option Joiner :=
  ((amKeys j.g2t).foldlM (fun sc g1 => (amKeys j.g2t).foldlM (fun sc g2 => countScoresStep heur j sc g1 g2) sc) j.scores).map
    (fun sc => { j with scores := sc })

/-- `max(self.scores, key=self.scores.get)`: the first entry with the largest value -/
def bestPair : List ((String × String) × Score) → Option ((String × String) × Score)
  | [] => none
  | p :: t =>
    match bestPair t with
    | none => some p
    | some q => if Score.lt p.2 q.2 then some q else some p

/-- the score update at the end of `merge_genes` -/
def rescore (heur : ScoreFn) (j : Joiner) (g1 g2 : String) :
    List ((String × String) × Score) → Option (List ((String × String) × Score))
  | [] => some []
  | p :: t =>
    match rescore heur j g1 g2 t with
    | none => none
    | some t' =>
      if p.1.1 = g2 ∨ p.1.2 = g2 then some t'
      else if p.1.1 = g1 ∨ p.1.2 = g1 then (j.countScore heur p.1.1 p.1.2).map (fun s => (p.1, s) :: t')
      else some (p :: t')

/-- `merge_genes(gene1, gene2)`; `none` = KeyError -/
def Joiner.mergeGenes (heur : ScoreFn) (j : Joiner) (g1 g2 : String) : Option Joiner :=
  match amGet? j.regions g1, amGet? j.regions g2, amGet? j.strands g1, amGet? j.strands g2 with
  | some r1, some r2, some _, some _ =>
    let t2 := (amGet? j.g2t g2).getD []
    let j1 : Joiner :=
      { j with regions := amErase (amSet j.regions g1 (min r1.1 r2.1, max r1.2 r2.2)) g2,
               introns := amErase (amSet j.introns g1 (setUnion ((amGet? j.introns g1).getD []) ((amGet? j.introns g2).getD []))) g2,
               g2t := amErase (amSet j.g2t g1 (setUnion ((amGet? j.g2t g1).getD []) t2)) g2,
               strands := amErase j.strands g2 }
    (rescore heur j1 g1 g2 j.scores).map (fun sc => { j1 with scores := sc })
  | _, _, _, _ => none

/-- the `while len(self.scores) > 1` loop of `join_transcripts`; `none` = an exception or fuel exhausted -/
def Joiner.mergeLoop (heur : ScoreFn) : Nat → Joiner → Option Joiner
  | 0, _ => none
  | fuel + 1, j =>
    if j.scores.length ≤ 1 then some j
    else
      match bestPair j.scores with
      | none => some j
      | some (pair, s) =>
        if Score.lt s scoreCutoff then some j
        else if pair.1 ∈ j.refGenes then
          (if pair.2 ∈ j.refGenes then none else (j.mergeGenes heur pair.1 pair.2)).bind (Joiner.mergeLoop heur fuel)
        else (j.mergeGenes heur pair.2 pair.1).bind (Joiner.mergeLoop heur fuel)

/-- `transcript_to_new_gene_id` (later genes overwrite earlier ones, as the dict assignment does) -/
def Joiner.geneOf (j : Joiner) (tid : String) : Option String :=
  ((j.g2t.filter (fun p => decide (tid ∈ p.2))).getLast?).map (·.1)

/-- `join_transcripts`: the storage with the new gene ids; `none` = the code raises -/
def Joiner.join (heur : ScoreFn) (j : Joiner) (storage : List TModel) : Option (Joiner × List TModel) :=
  match j.countScores heur with
  | none => none
  | some j1 =>
    match Joiner.mergeLoop heur (j1.scores.length + 1) j1 with
    | none => none
    | some j2 => (storage.mapM (fun m => (j2.geneOf m.tid).map (fun g => { m with gene := g }))).map (fun ms => (j2, ms))

/-- constructor + `join_transcripts` as `process()` calls them -/
def joinTranscripts (heur : ScoreFn) (gs : List RefGene) (ts : List (String × String × List Iv)) (storage : List TModel) :
    Option (Joiner × List TModel) :=
  match Joiner.init gs ts storage with
  | none => none
  | some j => j.join heur storage

end IsoVerif.Model.C04
