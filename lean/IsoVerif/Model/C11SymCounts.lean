/-
C11 — translation of the exon / intron counting model (Model/FeatureCounts.lean, C13): annotated features, the row keys
`(chr, start, end)`, counters and dumped rows.  Core Lean only.
-/
import IsoVerif.Model.FeatureCounts
import IsoVerif.Model.C11Symmetry

namespace IsoVerif.Model.C11
open IsoVerif.Gen IsoVerif.Model

def shiftFI (k : Int) (f : C13.FeatureInfo) : C13.FeatureInfo := { f with start := f.start + k, stop := f.stop + k }

def shiftIsoFeats (k : Int) (t : C13.IsoformFeatures) : C13.IsoformFeatures := { t with feats := shiftL k t.feats }

/-- row key of the counters (after the candidate repair of C13 finding G1): `(chr, start, end)` -/
def shiftKey (k : Int) (c : C13.CoordKey) : C13.CoordKey := (c.1, c.2.1 + k, c.2.2 + k)

def shiftCounter (k : Int) (st : C13.PCounter C13.CoordKey) : C13.PCounter C13.CoordKey :=
  { st with incl := st.incl.map (fun p => ((shiftKey k p.1.1, p.1.2), p.2)),
            excl := st.excl.map (fun p => ((shiftKey k p.1.1, p.1.2), p.2)),
            names := st.names.map (fun p => (shiftKey k p.1, shiftFI k p.2)) }

def shiftRow (k : Int) (r : C13.CountRow) : C13.CountRow := { r with fi := shiftFI k r.fi }

def shiftReadEv (k : Int) (e : C13.ReadEv) : C13.ReadEv := { e with pmap := e.pmap.map (shiftFI k) }

end IsoVerif.Model.C11
