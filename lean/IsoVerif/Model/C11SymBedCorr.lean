/-
C11 — the coordinate transformations of the property on the value types of Model/Bed.lean (C14),
Model/Corrector.lean (C14) and Model/Gtf.lean (C03).  Definitions only (core Lean); the theorems are in
Props/C11Bed.lean, Props/C11Corrector.lean, Props/C11Gtf.lean, the Python twins in harness/props/c11x_bedcorr.py
(compared through the `C11.T.*` ops of Driver/C11BedCorr.lean on every run).

  shift k   : every genomic coordinate + k; relative quantities (BED block sizes / relative block starts,
              intron INDEX ranges of events, exon numbers, identifiers) unchanged
  mirror L  : x ↦ L + 1 − x on 1-based closed coordinates (BED: 0-based half-open, so s ↦ L − e, e ↦ L − s),
              lists reversed, strand flipped
-/
import IsoVerif.Gen.Prims
import IsoVerif.Model.C11Symmetry
import IsoVerif.Model.Bed
import IsoVerif.Model.Corrector
import IsoVerif.Model.Gtf

namespace IsoVerif.Model.C11
open IsoVerif.Gen IsoVerif.Model IsoVerif.Model.C14 IsoVerif.Model.C03

/-! ### BED (Model/Bed.lean) -/

/-- a BED12 record after `k` bases were inserted at the chromosome start: the four absolute columns move,
    the block columns are relative to `chromStart` and stay -/
def shiftBed (k : Int) (r : BedRecord) : BedRecord :=
  { r with chromStart := r.chromStart + k, chromEnd := r.chromEnd + k,
           thickStart := r.thickStart + k, thickEnd := r.thickEnd + k }

/-- the BED12 record of the same feature on the reverse-complemented chromosome of length `L` (0-based
    half-open: `[s, e) ↦ [L − e, L − s)`), with the given (flipped) strand: blocks in reverse order, the
    offset of a block is measured from the other end (`width − (start + size)`); the thick range of
    `add_read_info` is the empty range at `chromStart` -/
def mirrorBed (L : Int) (strand : String) (r : BedRecord) : BedRecord :=
  { r with chromStart := L - r.chromEnd, chromEnd := L - r.chromStart, strand := strand,
           thickStart := L - r.chromEnd, thickEnd := L - r.chromEnd,
           blockSizes := r.blockSizes.reverse,
           blockStarts := ((List.zip r.blockStarts r.blockSizes).map
                            (fun q => (r.chromEnd - r.chromStart) - (q.1 + q.2))).reverse }

def shiftPrinterInput (k : Int) (i : PrinterInput) : PrinterInput :=
  { i with exons := shiftL k i.exons, correctedExons := shiftL k i.correctedExons }

/-! ### corrector (Model/Corrector.lean): results are shifted, exceptions are kept -/

def shiftExL (k : Int) : Except CErr (List Iv) → Except CErr (List Iv)
  | .ok l => .ok (shiftL k l)
  | .error e => .error e

def shiftExRes (k : Int) : Except CErr (Iv × List Iv) → Except CErr (Iv × List Iv)
  | .ok (r, l) => .ok (shiftIv k r, shiftL k l)
  | .error e => .error e

/-- an intron INDEX range `(a, b)` of a list of `n` introns, seen from the other end -/
def mirrorIdx (n : Nat) (r : Int × Int) : Int × Int := ((n : Int) - 1 - r.2, (n : Int) - 1 - r.1)

/-- the same event on the reverse-complemented chromosome: left/right names swapped, index ranges of the read's
    `nRead` introns and of the isoform's `nIso` introns counted from the other end -/
def mirrorMEvent (nRead nIso : Nat) (e : MEvent) : MEvent :=
  { etype := swapLR e.etype, iso := mirrorIdx nIso e.iso, read := mirrorIdx nRead e.read }

/-- alignment error counts of the mirrored read: intron `i` is intron `n − 1 − i`, its left site is the right site -/
def mirrorErr (n : Nat) (err : Nat → Bool → Int × Int) : Nat → Bool → Int × Int :=
  fun i left => err (n - 1 - i) (!left)

/-- the event map seen from the other end: an event keyed by its first read intron `read.1` is keyed by the mirror
    image of its last one -/
def mirrorEmap (nRead nIso : Nat) (emap : List (Int × MEvent)) : List (Int × MEvent) :=
  emap.map (fun q => ((nRead : Int) - 1 - q.2.read.2, mirrorMEvent nRead nIso q.2))

/-- the retained micro introns seen from the other end: read exon `k` of the `nRead + 1` exons is exon `nRead − k`,
    isoform intron `j` is intron `nIso − 1 − j`, and the events arrive in the opposite order -/
def mirrorMicroMap (nRead nIso : Nat) (mm : List (Int × Int)) : List (Int × Int) :=
  (mm.map (fun q => ((nRead : Int) - q.1, (nIso : Int) - 1 - q.2))).reverse

def mirrorExRes (L : Int) : Except CErr (Iv × List Iv) → Except CErr (Iv × List Iv)
  | .ok (r, l) => .ok (mirrorIv L r, mirrorL L l)
  | .error e => .error e

/-- `mirrorMEvent` that keeps the two sentinels of `read_region` (what `JunctionComparator` emits for the mirrored read):
    the undefined region stays; an event whose read region starts with the absent sentinel names a read EXON `k`
    (`fake_micro_intron_retention`), which is exon `nRead − k` from the other end; every other event is `mirrorMEvent` -/
def mirrorMEventS (nRead nIso : Nat) (e : MEvent) : MEvent :=
  if e.read = undefinedRegion then { etype := swapLR e.etype, iso := mirrorIdx nIso e.iso, read := e.read }
  else if e.read.1 = absentPosition then
    { etype := swapLR e.etype, iso := mirrorIdx nIso e.iso, read := (absentPosition, (nRead : Int) - e.read.2) }
  else mirrorMEvent nRead nIso e

/-- the event LIST of the mirrored read: every event seen from the other end, in the opposite order -/
def mirrorEventList (nRead nIso : Nat) (evs : List MEvent) : List MEvent :=
  (evs.map (mirrorMEventS nRead nIso)).reverse

def mirrorExL (L : Int) : Except CErr (List Iv) → Except CErr (List Iv)
  | .ok l => .ok (mirrorL L l)
  | .error e => .error e

/-! ### GTF (Model/Gtf.lean) -/

def shiftFeat (k : Int) (f : Feat) : Feat := (f.1 + k, f.2.1 + k, f.2.2)

def shiftTM (k : Int) (m : TModel) : TModel :=
  { m with exons := shiftL k m.exons, other := m.other.map (shiftFeat k) }

def shiftRefTx (k : Int) (r : RefTx) : RefTx :=
  { r with exons := shiftL k r.exons, other := r.other.map (shiftFeat k) }

def shiftCtx (k : Int) (c : GeneCtx) : GeneCtx :=
  { c with regions := c.regions.map (fun q => (q.1, shiftIv k q.2)), isoforms := c.isoforms.map (shiftRefTx k) }

def shiftCall (k : Int) (c : Call) : Call := { ctx := shiftCtx k c.ctx, models := c.models.map (shiftTM k) }

def shiftGRec (k : Int) (r : GRec) : GRec := { r with range := shiftIv k r.range }

def shiftLine (k : Int) : Line → Line
  | .gene c s e st g n => .gene c (s + k) (e + k) st g n
  | .tx c s e st g t => .tx c (s + k) (e + k) st g t
  | .feat c kd s e st g t n => .feat c kd (s + k) (e + k) st g t n

/-- '+' ↔ '−', '.' stays -/
def flipStrandCode (s : Strand) : Strand := if s = 0 then 1 else if s = 1 then 0 else s

def mirrorFeat (L : Int) (f : Feat) : Feat := (L + 1 - f.2.1, L + 1 - f.1, f.2.2)

/-- the same transcript on the reverse-complemented chromosome -/
def mirrorTM (L : Int) (m : TModel) : TModel :=
  { m with strand := flipStrandCode m.strand, exons := mirrorL L m.exons, other := (m.other.map (mirrorFeat L)).reverse }

/-- a GTF line on the reverse-complemented chromosome (coordinates mirrored, strand flipped, exon number kept) -/
def mirrorLine (L : Int) : Line → Line
  | .gene c s e st g n => .gene c (L + 1 - e) (L + 1 - s) (flipStrandCode st) g n
  | .tx c s e st g t => .tx c (L + 1 - e) (L + 1 - s) (flipStrandCode st) g t
  | .feat c kd s e st g t n => .feat c kd (L + 1 - e) (L + 1 - s) (flipStrandCode st) g t n

end IsoVerif.Model.C11
