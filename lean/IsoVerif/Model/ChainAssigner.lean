/-
C04 (closure `p04chain`) — the second `assign_reads_to_models` with the assigner's answers stated over model CONTENT.

`Store.assignReads` takes the answers of `LongReadAssigner.assign_to_isoform` as parameters (`AssignIn`) that NAME transcript ids.
The real assigner is built from `GeneInfo.from_models(self.transcript_model_storage, delta)`: what it can see of a model is its
strand and its exon blocks (the ids are dictionary keys only).  Here the answer is a function of the read and of the list of
(strand, exons) of the storage, and names models by POSITION in `transcript_model_storage`; `relabel` turns it into the `AssignIn`
the storage loop consumes.  That the real function behaves like this (same contents under other transcript / gene ids → the same
positions) is checked on the real `assign_reads_to_models` with the real `LongReadAssigner` (harness/props/c04chain.py, driver op
`C04.assign_content`).

`runChromosomeC` is `runChromosome` with the answers of the second assignment of every record COMPUTED from such a function on the
storage the variant hands to it (`.none`: what passed `filter_transcripts`; `.joinEarlier`: the kept models followed by the copies of
the earlier models) — the relabelling that `ReadsKeepTheirChain` needs to compare two variants on one input.  Core Lean only.
-/
import IsoVerif.Model.ChromosomeModels

namespace IsoVerif.Model.C04
open IsoVerif.Gen IsoVerif.Model

/-- what `GeneInfo.from_models` reads of a model besides its ids -/
abbrev Content := Strand × List Iv

def TModel.content (m : TModel) : Content := (m.strand, m.exons)

/-- `assign_to_isoform` for one read: `assignment_type.is_consistent()`, and the matches as positions in the storage -/
structure CAns where
  consistent : Bool
  matched : List Nat
  deriving Repr, DecidableEq

/-- the assigner as a function of (read, contents of the storage) -/
abbrev CAssigner := String → List Content → CAns

/-- the models at the named positions (a position outside the storage names nothing) -/
def modelsAt (ms : List TModel) (ix : List Nat) : List TModel := ix.filterMap (fun i => ms[i]?)

/-- the `AssignIn` the storage loop sees: positions → `assigned_transcript` ids -/
def relabel (ms : List TModel) (read : String) (a : CAns) : AssignIn := ⟨read, a.consistent, (modelsAt ms a.matched).map (·.tid)⟩

/-- the answers of one `assign_reads_to_models` call over the storage `ms` -/
def insOf (A : CAssigner) (reads : List String) (ms : List TModel) : List AssignIn :=
  reads.map (fun r => relabel ms r (A r (ms.map TModel.content)))

/-- (strand, chain) of the novel spliced models an answer names; nothing when the assignment is not consistent -/
def ansChains (ms : List TModel) (a : CAns) : List ChainKey :=
  if a.consistent then reportKeys (modelsAt ms a.matched) else []

/-- the tail of `process()` with the second assigner computed: the reads offered are those of `r.ins2` (their recorded answers
    are ignored), the answers come from `A` on the storage the variant built -/
def regionTailC (v : Repair) (A : CAssigner) (reported : ModelMap) (r : RegionIn) (s5 : Store) : Option (Store × ModelMap) :=
  let reads := r.ins2.map (·.read)
  match v with
  | .none => regionTail .none reported { r with ins2 := insOf A reads s5.models } s5
  | .dropOnly =>
    match s5.dropReported (chainKeys (idMapOf reported)) with
    | none => none
    | some (s6, _) => regionTail .dropOnly reported { r with ins2 := insOf A reads s6.models } s5
  | .renameCopy =>
    match s5.dropKeep (idMapOf reported) with
    | none => none
    | some (s6, _, _) => regionTail .renameCopy reported { r with ins2 := insOf A reads s6.models } s5
  | .joinEarlier =>
    match s5.dropJoin reported r.span with
    | none => none
    | some (s6, _, _) => regionTail .joinEarlier reported { r with ins2 := insOf A reads s6.models } s5

def processRegionC (v : Repair) (A : CAssigner) (next : Nat → Nat) (cs : ChrState) (r : RegionIn) : Option (ChrState × Store) :=
  match regionHead next cs r with
  | none => none
  | some (st2, s5) =>
    match regionTailC v A cs.reported r s5 with
    | none => none
    | some (s, rep) => some (⟨st2.detected, st2.idv, rep⟩, s)

def runChromosomeC (v : Repair) (A : CAssigner) (next : Nat → Nat) :
    List RegionIn → ChrState → List Store → Option (ChrState × List Store)
  | [], cs, acc => some (cs, acc)
  | r :: t, cs, acc =>
    match processRegionC v A next cs r with
    | none => none
    | some (cs', s) => runChromosomeC v A next t cs' (acc ++ [s])

end IsoVerif.Model.C04
