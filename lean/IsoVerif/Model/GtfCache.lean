/-
C12 — executable model of the converted-annotation cache of src/gtf2db.py (core Lean only):
`find_converted_db`, `compare_stored_gtf`, `convert_db` (both directions) over an abstract file system.

* the JSON file `db_config.json` is an insertion-ordered dictionary `gtf path ↦ {genedb, gtf_mtime, db_mtime,
  complete_db}`; a missing key reads as `None` (`.get(k, {}).get(field)`);
* the file system maps a path to `(mtime, content token)`; `os.path.exists` / `os.path.getmtime` read it;
* a conversion writes the target with a fresh mtime (the clock) and content `conv source complete`.
-/
namespace IsoVerif.Model.C12

structure CacheEntry where
  genedb : Option String
  gtfMtime : Option Int
  dbMtime : Option Int
  complete : Option Bool
deriving DecidableEq, Repr, Inhabited

/-- insertion-ordered dictionary with unique keys (what `json.load` returns) -/
abbrev Cache := List (String × CacheEntry)

def Cache.get (c : Cache) (k : String) : Option CacheEntry := List.lookup k c

/-- `d[k] = e`: replaces in place, otherwise appends -/
def Cache.set : Cache → String → CacheEntry → Cache
  | [], k, e => [(k, e)]
  | (k', e') :: t, k, e => if k' = k then (k, e) :: t else (k', e') :: Cache.set t k e

structure File where
  mtime : Int
  data : Nat
deriving DecidableEq, Repr, Inhabited

/-- path ↦ file; first match wins, a write conses -/
abbrev FS := List (String × File)

def FS.mtime (fs : FS) (p : String) : Option Int := (List.lookup p fs).map (·.mtime)

/-- result of a lookup: the real code may raise `TypeError` (`os.path.exists(None)`) on an entry without a
    `genedb` field -/
inductive Lookup where
  | hit (db : String)
  | miss
  | typeError
deriving DecidableEq, Repr

/-- `find_converted_db(converted_gtfs, gtf_filename, complete_genedb)`; conjuncts evaluated left to right -/
def findConvertedDb (c : Cache) (mt : String → Option Int) (gtf : String) (complete : Bool) : Lookup :=
  let e := c.get gtf
  let gtfM := e.bind (·.gtfMtime)
  let dbM := e.bind (·.dbMtime)
  let dbFile := e.bind (·.genedb)
  let isComplete := e.bind (·.complete)
  match mt gtf with
  | none => .miss
  | some m =>
    if some m ≠ gtfM then .miss
    else
      match dbFile with
      | none => .miss      -- `db_file is not None and …` (repair of audit2 C20-G5; before: os.path.exists(None) -> TypeError)
      | some db =>
        match mt db with
        | none => .miss
        | some md =>
          if some md ≠ dbM then .miss
          else if some complete ≠ isComplete then .miss
          else .hit db

/-- `compare_stored_gtf(converted_gtfs, gtf_filename, genedb_filename)` -/
def compareStoredGtf (c : Cache) (mt : String → Option Int) (gtf : String) (db : String) : Bool :=
  let e := c.get gtf
  let gtfM := e.bind (·.gtfMtime)
  let dbM := e.bind (·.dbMtime)
  match mt gtf with
  | none => false
  | some m =>
    if some m ≠ gtfM then false
    else
      match mt db with
      | none => false
      | some md => decide (some md = dbM)

structure World where
  fs : FS
  cache : Cache
  clock : Int
deriving Repr

inductive ConvResult where
  | ok (w : World) (gtf : String) (db : String)
  | typeError
  | convertFailed            -- the converter cannot open its input
deriving Repr

/-- `convert_db(gtf, db, gtf2db, args)` (the GTF → database direction used by `convert_gtf_to_db`).
    `conv` = content of the database produced from a GTF content with/without `--complete_genedb`. -/
def convertGtf2Db (conv : Nat → Bool → Nat) (w : World) (gtf db : String) (complete clean : Bool) : ConvResult :=
  let found := if clean then Lookup.miss else findConvertedDb w.cache w.fs.mtime gtf complete
  match found with
  | .typeError => .typeError
  | .hit d => .ok w gtf d
  | .miss =>
    match List.lookup gtf w.fs with
    | none => .convertFailed
    | some g =>
      let fs' : FS := (db, { mtime := w.clock, data := conv g.data complete }) :: w.fs
      let e : CacheEntry := { genedb := some db, gtfMtime := FS.mtime fs' gtf, dbMtime := FS.mtime fs' db,
                              complete := some complete }
      .ok { fs := fs', cache := w.cache.set gtf e, clock := w.clock + 1 } gtf db

/-- `for converted_gtf in converted_gtfs: if compare_stored_gtf(...)`: first key in insertion order that matches -/
def firstStoredGtf (c : Cache) (mt : String → Option Int) (db : String) : Option String :=
  (c.find? (fun kv => compareStoredGtf c mt kv.1 db)).map (·.1)

/-- `convert_db(gtf, db, db2gtf, args)` (database → GTF, used for the STARlong aligner only);
    `back` = content of the GTF written from a database content -/
def convertDb2Gtf (back : Nat → Nat) (w : World) (gtf db : String) (complete clean : Bool) : ConvResult :=
  match (if clean then none else firstStoredGtf w.cache w.fs.mtime db) with
  | some g => .ok w g db
  | none =>
    match List.lookup db w.fs with
    | none => .convertFailed
    | some d =>
      let fs' : FS := (gtf, { mtime := w.clock, data := back d.data }) :: w.fs
      let e : CacheEntry := { genedb := some db, gtfMtime := FS.mtime fs' gtf, dbMtime := FS.mtime fs' db,
                              complete := some complete }
      .ok { fs := fs', cache := w.cache.set gtf e, clock := w.clock + 1 } gtf db

/-- operations of a history: anybody writes / removes a file (fresh mtime), or IsoQuant converts -/
inductive Op where
  | write (p : String) (data : Nat)
  | remove (p : String)
  | convert (gtf db : String) (complete clean : Bool)
deriving Repr

def applyOp (conv : Nat → Bool → Nat) (w : World) : Op → World
  | .write p d => { w with fs := (p, { mtime := w.clock, data := d }) :: w.fs, clock := w.clock + 1 }
  | .remove p => { w with fs := w.fs.filter (fun kv => kv.1 ≠ p) }
  | .convert g d c cl =>
    match convertGtf2Db conv w g d c cl with
    | .ok w' _ _ => w'
    | _ => w

def runOps (conv : Nat → Bool → Nat) (w : World) (ops : List Op) : World := ops.foldl (applyOp conv) w

end IsoVerif.Model.C12
