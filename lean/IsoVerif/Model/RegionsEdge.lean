/-
C05 (growth c05edge) — records that `fetch` yields but that are no alignments, and the BED line of an alignment that
is retained in two sub-regions.  Core Lean only.  Extends `Model/Regions.lean` (same namespace).

* `RawAln`: a record as pysam hands it over.  `stop = none` ⇔ `reference_end is None`: an unmapped read that carries a
  reference id and a position (the unmapped mate of the SAM convention, flag 4 with RNAME/POS) or a record without
  CIGAR.  htslib indexes such a record as covering ONE base (`bam_endpos = pos + 1`), so `fetch` returns it.
* repaired tree (`fix: … records without reference span`): `BAMOnlineMerger._set` wraps every `fetch` iterator in
  `skip_records_without_reference_span` – both the scan of `process()` and the per-sub-region re-fetch of the default
  mode go through it (`skipNoSpan`, `collectRaw`).
* `…Orig`: the tree before the repair: `alignment.reference_end - 1` raises `TypeError` (`none`) on the first such record.
-/
import IsoVerif.Model.Regions

namespace IsoVerif.Model.Regions
open IsoVerif.Gen

structure RawAln where
  start : Int            -- reference_start
  stop : Option Int      -- reference_end (`none` = None: no reference span)
  secondary : Bool
  supplementary : Bool
  mapped : Bool          -- reference_id != -1 (always true for a fetched record)
  mapq : Int
  rid : Nat
  deriving DecidableEq, Repr, Inhabited

/-- the alignment a record stands for, if it has a reference span -/
def RawAln.toAln? (r : RawAln) : Option Aln :=
  match r.stop with
  | none => none
  | some e => some ⟨r.start, e, r.secondary, r.supplementary, r.mapped, r.mapq, r.rid⟩

/-- `skip_records_without_reference_span(alignment_iterator)` -/
def skipNoSpan (l : List RawAln) : List Aln := l.filterMap RawAln.toAln?

/-- the closed interval htslib tests a record with: a record that consumes no reference covers one base -/
def RawAln.fetchIv (r : RawAln) : Iv :=
  match r.stop with
  | none => (r.start, r.start)
  | some e => (r.start, e - 1)

/-- pysam `fetch(chr, a, b + 1)` on the records of the file (external behaviour, checked each run on a real BAM) -/
def rawFetch (all : List RawAln) (r : Iv) : List RawAln := all.filter (fun a => overlaps r a.fetchIv)

/-- `storage.get_alignments(region)` of the repaired tree: the default mode builds a NEW merger for the region, whose
    iterators are wrapped by the skip again -/
def getAlignmentsRaw (m : Mode) (all : List RawAln) (s : Store) (r : Option Iv) : Option (List Aln) :=
  match m with
  | .memory => s.memGet r
  | .bam => match (match r with | none => s.region | some r => some r) with
    | none => none
    | some r => some (skipNoSpan (rawFetch all r))

def forwardRaw (m : Mode) (all : List RawAln) (s : Store) : Option (List (Iv × List Aln)) :=
  forwardWith splitCoverageRegions (getAlignmentsRaw m all s) s

/-- everything the repaired `AlignmentCollector.process` yields for the records `fetch` returns for one chromosome -/
def collectRaw (m : Mode) (all : List RawAln) : Option (List (Iv × List Aln)) :=
  collectStores (forwardRaw m all) (processStores (skipNoSpan all))

/-- statistics of the repaired loop: a skipped record reaches no counter (unmapped reads are counted from the index) -/
def processStatsRaw (all : List RawAln) : Stats := processStats (skipNoSpan all)

/-! ### the tree before the repair -/

/-- one iteration of the unrepaired loop on a fetched record: `alignment_is_not_adjacent` / `add_alignment` evaluate
    `alignment.reference_end - 1`, a `TypeError` for `None` (with an empty storage the first conjunct short-circuits
    and `add_alignment` raises instead) -/
def processStepOrig (st : Option PState) (r : RawAln) : Option PState :=
  match st with
  | none => none
  | some st =>
    match r.toAln? with
    | none => none
    | some a => some (processStep st a)

def collectRawOrig (m : Mode) (all : List RawAln) : Option (List (Iv × List Aln)) :=
  match all.foldl processStepOrig (some PState.init) with
  | none => none
  | some st => collectStores (forward m (skipNoSpan all)) (processFinish st)

/-! ### one BED line per retained record (`BEDPrinter.add_read_info`), and the repaired printer -/

/-- what `corrected_reads.bed` shows of a retained record: read, chromosome, the printed blocks; `multi` =
    `read_assignment.multimapper` (set by the resolver on every record of a read that keeps ≥ 2 records with
    different isoform sets, and on secondary alignments); `exons` = the alignment's own exon blocks (before correction) -/
structure BedRec where
  rid : Nat
  chr : Nat
  exons : List Iv
  blocks : List Iv        -- corrected exons, what the line prints
  multi : Bool
  deriving DecidableEq, Repr

/-- the printed line (fields that vary) -/
def BedRec.line (x : BedRec) : Nat × Nat × List Iv := (x.rid, x.chr, x.blocks)

/-- the alignment a record was made from -/
def BedRec.key (x : BedRec) : Nat × Nat × List Iv := (x.rid, x.chr, x.exons)

/-- unrepaired printer: one line per record -/
def bedLinesOrig (recs : List BedRec) : List (Nat × Nat × List Iv) := recs.map BedRec.line

/-- repaired `BEDPrinter.add_read_info` over the retained records in order: the records whose line is written;
    `printed` = `self.printed_multimappers` -/
def bedKeepLoop : List (Nat × Nat × List Iv) → List BedRec → List BedRec
  | _, [] => []
  | printed, x :: xs =>
    if x.multi then
      if printed.contains x.key then bedKeepLoop printed xs
      else x :: bedKeepLoop (x.key :: printed) xs
    else x :: bedKeepLoop printed xs

def bedKeep (recs : List BedRec) : List BedRec := bedKeepLoop [] recs

def bedLines (recs : List BedRec) : List (Nat × Nat × List Iv) := (bedKeep recs).map BedRec.line

end IsoVerif.Model.Regions
