/-
C20 — executable model of how a SHARED ARTEFACT FILE is (re)built while other runs read it
(audit2 C20-G1: the `<reference>.fai` index next to a reference; audit2 C20-G2: the `<annotation>.db` a cache hit hands out).

Code modelled
  src/dataset_processor.py  load_indexed_reference        `if not exists(fai) or older: Fasta(ref, indexname=<fai>.<uuid>.tmp); os.replace`
                            + `Fasta(reference, indexname=fai)` of the main process and of every worker, per chromosome  (`use`)
  src/gtf2db.py             gtf2db                        `gffutils.create_db(gtf, <db>.<uuid>.tmp, force=True, …); os.replace(tmp, db)`
                            + `gffutils.FeatureDB(args.genedb)` of the main process and of every worker                  (`use`)
and, as the `atomic := false` variant, the code before the repairs: pyfaidx / gffutils write the file IN PLACE
(`open(fai,'w')` … filled at close; `os.unlink(db)`; sqlite fills the new file over the time of the conversion).

Core Lean only.  File system as in Model/Cache.lean: a directory maps a path to an inode, an inode holds records (lines of the
index, pages of the database); a reader opens the path and reads what the inode holds at that moment (one step).
A build writes its image in chunks.  The temporary file of an atomic build has a name of its own (uuid): nobody else can
open it, so its content is state of the building process (`buildingTmp … written …`) until `os.replace` makes it the
content of a fresh inode the public name points to.  An in-place build truncates / re-creates the public file first and
then writes through to it.
An interleaving is a list of process ids, as in Model/Cache.lean.
-/
namespace IsoVerif.Model.C20A

abbrev Path := Nat
abbrev Rec := Nat

structure FS where
  names : Path → Option Nat
  inodes : Nat → List Rec
  next : Nat
  /-- ghost: what every `use` found: (path, none = no such file | content read) -/
  obs : List (Path × Option (List Rec))

def upd {α : Type} (f : Nat → α) (k : Nat) (v : α) : Nat → α := fun x => if x = k then v else f x

inductive Instr where
  /-- `if not os.path.exists(p) …`: when the file exists skip the next `skip` instructions -/
  | ifMissing (p : Path) (skip : Nat)
  /-- (re)build the artefact at `p`; its complete image is `chunks.flatten`, written chunk by chunk -/
  | build (p : Path) (atomic : Bool) (chunks : List (List Rec))
  /-- an atomic build in progress: `written` is in the private temporary file, `rest` is still to come -/
  | buildingTmp (p : Path) (whole written : List Rec) (rest : List (List Rec))
  /-- an in-place build in progress: descriptor on inode `i`, which the public name points to -/
  | buildingInPlace (p : Path) (i : Nat) (rest : List (List Rec))
  /-- open `p` and read it -/
  | use (p : Path)
deriving Repr

structure Proc where
  todo : List Instr

structure Sys where
  fs : FS
  procs : List Proc

/-- one atomic step of one process -/
def stepProc (w : FS) (p : Proc) : FS × Proc :=
  match p.todo with
  | [] => (w, p)
  | .ifMissing q k :: t => (w, { todo := if (w.names q).isSome then t.drop k else t })
  | .build q true ch :: t => (w, { todo := .buildingTmp q ch.flatten [] ch :: t })          -- mkstemp / uuid name
  | .build q false ch :: t =>                                                                -- open(q,'w') / unlink + create
    match w.names q with
    | some i => ({ w with inodes := upd w.inodes i [] }, { todo := .buildingInPlace q i ch :: t })
    | none => ({ w with names := upd w.names q (some w.next), inodes := upd w.inodes w.next [], next := w.next + 1 },
               { todo := .buildingInPlace q w.next ch :: t })
  | .buildingTmp q whole wr (c :: rest) :: t => (w, { todo := .buildingTmp q whole (wr ++ c) rest :: t })
  | .buildingTmp q _ wr [] :: t =>                                                           -- os.replace(tmp, q)
    ({ w with names := upd w.names q (some w.next), inodes := upd w.inodes w.next wr, next := w.next + 1 }, { todo := t })
  | .buildingInPlace q i (c :: rest) :: t =>
    ({ w with inodes := upd w.inodes i (w.inodes i ++ c) }, { todo := .buildingInPlace q i rest :: t })
  | .buildingInPlace _ _ [] :: t => (w, { todo := t })                                        -- close
  | .use q :: t => ({ w with obs := (q, (w.names q).map w.inodes) :: w.obs }, { todo := t })

def stepSys (s : Sys) (pid : Nat) : Sys :=
  match s.procs[pid]? with
  | none => s
  | some p =>
    let r := stepProc s.fs p
    { fs := r.1, procs := s.procs.set pid r.2 }

def run (s : Sys) (sched : List Nat) : Sys := sched.foldl stepSys s

def Sys.start (w : FS) (progs : List (List Instr)) : Sys := { fs := w, procs := progs.map (fun l => { todo := l }) }

/-- the complete image a build instruction is going to write -/
def Instr.image : Instr → Option (List Rec)
  | .build _ _ ch => some ch.flatten
  | _ => none

/-- the complete images of all builds of a set of programs -/
def imagesOf (progs : List (List Instr)) : List (List Rec) := progs.flatMap (fun l => l.filterMap Instr.image)

/-- an instruction of a program as the repaired code starts it: builds are atomic, nothing is in progress -/
def Instr.atomicFresh : Instr → Bool
  | .build _ a _ => a
  | .buildingTmp .. => false
  | .buildingInPlace .. => false
  | _ => true

/-- `load_indexed_reference(reference, fai)` followed by `uses` re-openings of the index (main process + workers) -/
def loadIndexed (fai : Path) (atomic : Bool) (chunks : List (List Rec)) (uses : Nat) : List Instr :=
  [.ifMissing fai 1, .build fai atomic chunks] ++ List.replicate uses (.use fai)

/-- `gtf2db(gtf, db)` (the cache protocol decided to convert) followed by `uses` openings of the database -/
def convertThenUse (db : Path) (atomic : Bool) (chunks : List (List Rec)) (uses : Nat) : List Instr :=
  [.build db atomic chunks] ++ List.replicate uses (.use db)

/-- a run that got the database from the cache: it only opens it -/
def useOnly (db : Path) (uses : Nat) : List Instr := List.replicate uses (.use db)

/-- an empty directory -/
def FS.empty : FS := { names := fun _ => none, inodes := fun _ => [], next := 0, obs := [] }

/-- a directory in which `p` holds `content` -/
def FS.single (p : Path) (content : List Rec) : FS :=
  { names := fun q => if q = p then some 0 else none, inodes := fun i => if i = 0 then content else [], next := 1, obs := [] }

end IsoVerif.Model.C20A
