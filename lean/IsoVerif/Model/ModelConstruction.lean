/-
C04 — executable model of the decision block of `GraphBasedModelConstructor.construct_fl_isoforms`, of the
bookkeeping behind `transcript_model_reads` (`save_assigned_read`, `delete_from_storage`,
`assign_reads_to_models`, `pre_filter_transcripts`, `filter_transcripts`) and of
`GFFPrinter.dump_read_assignments` (/repo/src/graph_based_model_construction.py, /repo/src/transcript_printer.py,
`StrandDetector` of /repo/src/gene_info.py).
Core Lean only.  Heuristics the decision block consults (the assigner's verdict on a path, canonical-site
lookup, component coverage, `detect_similar_isoforms`) are parameters: the theorems hold for every value of them.
-/
import IsoVerif.Gen.Constants
import IsoVerif.Gen.Enums
import IsoVerif.Gen.ModelConstruction
import IsoVerif.Model.Interval
import IsoVerif.Model.IntronGraph

namespace IsoVerif.Model.C04
open IsoVerif.Gen IsoVerif.Model

inductive Strand where
  | plus | minus | dot
  deriving DecidableEq, Repr, Inhabited

def Strand.toString : Strand → String
  | .plus => "+" | .minus => "-" | .dot => "."

def Strand.ofString? (s : String) : Option Strand :=
  if s = "+" then some .plus else if s = "-" then some .minus else if s = "." then some .dot else none

/-! ## StrandDetector -/

/-- `count_canonical_sites` with the per-intron strand (`strand_dict`, filled from the annotation or from the
    reference dinucleotides) as a function -/
def countCanonical (sd : Iv → Strand) : List Iv → Nat × Nat
  | [] => (0, 0)
  | i :: t =>
    let r := countCanonical sd t
    match sd i with
    | .plus => (r.1 + 1, r.2)
    | .minus => (r.1, r.2 + 1)
    | .dot => r

/-- `StrandDetector.get_clean_strand` -/
def getCleanStrand (sd : Iv → Strand) (introns : List Iv) : Strand :=
  let c := countCanonical sd introns
  if c.1 = 0 ∧ c.2 > 0 then .minus
  else if c.1 > 0 ∧ c.2 = 0 then .plus
  else .dot

/-- `StrandDetector.get_strand` -/
def getStrand (sd : Iv → Strand) (introns : List Iv) (hasPolya hasPolyt : Bool) : Strand :=
  let c := countCanonical sd introns
  if c.1 = c.2 then
    if hasPolya ∧ ¬ hasPolyt then .plus
    else if hasPolyt ∧ ¬ hasPolya then .minus
    else .dot
  else if c.2 < c.1 then .plus else .minus

/-! ## transcript models -/

structure TModel where
  chr : String
  strand : Strand
  tid : String
  gene : String
  exons : List Iv
  ttype : TranscriptModelType
  intronPath : List Iv
  deriving Repr, DecidableEq

/-- introns of a transcript model as they appear in the GTF (junctions of its exon lines) -/
def TModel.introns (m : TModel) : List Iv := junctionsFromBlocks m.exons

/-! ## storage bookkeeping -/

structure Store where
  models : List TModel                      -- transcript_model_storage
  readIds : List (String × List String)     -- transcript_read_ids (defaultdict(list)), read ids
  counter : List (String × Int)             -- internal_counter (defaultdict(int))
  rcount : List (String × Int)              -- read_assignment_counts (defaultdict(int))
  deriving Repr, DecidableEq

def Store.empty : Store := ⟨[], [], [], []⟩

def readsOf (s : Store) (tid : String) : List String := (amGet? s.readIds tid).getD []

/-- defaultdict read: inserts the default when absent -/
def touchInt (m : List (String × Int)) (k : String) : List (String × Int) := if amHas m k then m else amSet m k 0
def touchList (m : List (String × List String)) (k : String) : List (String × List String) :=
  if amHas m k then m else amSet m k []

/-- `save_assigned_read` -/
def Store.saveRead (s : Store) (read tid : String) : Store :=
  { s with readIds := amSet s.readIds tid (readsOf s tid ++ [read]),
           counter := amSet s.counter tid (cnt s.counter tid + 1),
           rcount := amSet s.rcount read (cnt s.rcount read + 1) }

/-- `storage.append(new_model)` followed by `save_assigned_read` for each read of the path -/
def Store.addModel (s : Store) (m : TModel) (reads : List String) : Store :=
  reads.foldl (fun s r => s.saveRead r m.tid) { s with models := s.models ++ [m] }

/-- `delete_from_storage`; `none` = KeyError of `del internal_counter[tid]` -/
def Store.deleteFromStorage (s : Store) (tid : String) : Option Store :=
  let rc := (readsOf s tid).foldl (fun rc a => amSet rc a (cnt rc a - 1)) s.rcount
  if amHas s.counter tid then
    some { s with rcount := rc, readIds := amErase s.readIds tid, counter := amErase s.counter tid }
  else none

/-- what the assigner said about one read against the current models -/
structure AssignIn where
  read : String
  consistent : Bool                -- model_assignment.assignment_type.is_consistent()
  matched : List String            -- [m.assigned_transcript for m in isoform_matches]
  deriving Repr, DecidableEq

def assignOne (s : Store) (a : AssignIn) : Store :=
  if cnt s.rcount a.read > 0 then { s with rcount := touchInt s.rcount a.read }
  else if a.consistent then
    let s1 := match a.matched with
      | [m] => { s with counter := amSet s.counter m (cnt s.counter m + 1) }
      | _ => s
    a.matched.foldl (fun s m => { s with rcount := amSet s.rcount a.read (cnt s.rcount a.read + 1),
                                         readIds := amSet s.readIds m (readsOf s m ++ [a.read]) })
      { s1 with rcount := touchInt s1.rcount a.read }
  else { s with rcount := amSet s.rcount a.read 0 }

/-- `assign_reads_to_models` -/
def Store.assignReads (s : Store) (ins : List AssignIn) : Store :=
  if s.models.isEmpty then ins.foldl (fun s a => { s with rcount := amSet s.rcount a.read 0 }) s
  else ins.foldl assignOne s

/-- `mapping_quality(tid) < cutoff`; `none` = ZeroDivisionError -/
def lowMapq (s : Store) (mapq : String → Int) (cutoff : Int) (tid : String) : Option Bool :=
  let rs := readsOf s tid
  if rs.isEmpty then none
  else some (decide (((rs.map mapq).sum : Int) < cutoff * rs.length))

structure FilterParams where
  minNovelCount : Int
  mapqCutoff : Int
  deriving Repr, DecidableEq

/-- descending sort of ints -/
def sortDesc (l : List Int) : List Int := (insSort (fun a b => decide (a ≤ b)) l).reverse

/-- the common shape of the three filtering loops: for each model the body decides *keep* (`true`) or *delete*
    (`false`: `delete_from_storage`, model not appended), possibly after defaultdict reads (the returned store);
    `none` = the code raises -/
def filterLoopG (dec : Store → TModel → Option (Bool × Store)) :
    List TModel → Store → List TModel → Option (Store × List TModel)
  | [], s, kept => some (s, kept)
  | m :: t, s, kept =>
    match dec s m with
    | none => none
    | some (true, s1) => filterLoopG dec t s1 (kept ++ [m])
    | some (false, s1) =>
      match s1.deleteFromStorage m.tid with
      | none => none
      | some s' => filterLoopG dec t s' kept

/-- body of the loop of `pre_filter_transcripts` -/
def preFilterDec (p : FilterParams) (mapq : String → Int) (cutoff : Int) (s : Store) (m : TModel) : Option (Bool × Store) :=
  if m.exons.length > 2 then some (true, s)
  else if m.ttype ≠ .known ∧ cnt s.counter m.tid < cutoff then
    some (false, { s with counter := touchInt s.counter m.tid })
  else if m.ttype ≠ .known then
    let s1 := { s with counter := touchInt s.counter m.tid, readIds := touchList s.readIds m.tid }
    match lowMapq s1 mapq p.mapqCutoff m.tid with
    | none => none
    | some low => some (!low, s1)
  else some (true, s)

/-- `pre_filter_transcripts` -/
def Store.preFilter (s : Store) (p : FilterParams) (mapq : String → Int) : Option Store :=
  let small := s.models.filter (fun m => m.exons.length ≤ 2)
  let s0 := { s with counter := small.foldl (fun c m => touchInt c m.tid) s.counter }
  let vals := sortDesc (small.map (fun m => cnt s0.counter m.tid))
  let cutoff := match vals[50]? with | some v => v | none => p.minNovelCount
  match filterLoopG (preFilterDec p mapq cutoff) s0.models s0 [] with
  | none => none
  | some (s', kept) => some { s' with models := kept }

/-- body of the first loop of `filter_transcripts`; `covTerm m` = `rel · component_coverage` in thousandths
    (a heuristic input) -/
def filterDec1 (p : FilterParams) (mapq : String → Int) (toSub : List String) (covTerm : TModel → Int)
    (s : Store) (m : TModel) : Option (Bool × Store) :=
  if m.ttype = .known then some (true, s)
  else if m.tid ∈ toSub then some (false, s)
  else
    let s1 := { s with counter := touchInt s.counter m.tid }
    if cnt s1.counter m.tid * 1000 < max (p.minNovelCount * 1000) (covTerm m) then some (false, s1)
    else if m.exons.length ≤ 2 then
      let s2 := { s1 with readIds := touchList s1.readIds m.tid }
      match lowMapq s2 mapq p.mapqCutoff m.tid with
      | none => none
      | some low => some (!low, s2)
    else some (true, { s1 with readIds := touchList s1.readIds m.tid })

/-- body of the second loop of `filter_transcripts` -/
def filterDec2 (toSub : List String) (s : Store) (m : TModel) : Option (Bool × Store) :=
  if m.ttype = .known then some (true, s)
  else if m.tid ∈ toSub then some (false, s)
  else some (true, s)

/-- `filter_transcripts`; `similar` stands for `detect_similar_isoforms` (any function of the model list) -/
def Store.filterTranscripts (s : Store) (p : FilterParams) (mapq : String → Int)
    (similar : List TModel → List String) (covTerm : TModel → Int) : Option Store :=
  match filterLoopG (filterDec1 p mapq (similar s.models) covTerm) s.models s [] with
  | none => none
  | some (s1, pre) =>
    match filterLoopG (filterDec2 (similar pre)) pre s1 [] with
    | none => none
    | some (s2, kept) => some { s2 with models := kept }

/-- `GFFPrinter.dump_read_assignments`: the (read_id, transcript_id) lines -/
def Store.dumpR2T (s : Store) : List (String × String) :=
  s.readIds.flatMap (fun p => p.2.map (fun r => (r, p.1))) ++
  (s.rcount.filter (fun p => p.2 = 0)).map (fun p => (p.1, "*"))

/-- the storage-changing steps of `GraphBasedModelConstructor.process`, as operations:
    `[addModel …]* (construct_fl_isoforms, construct_assignment_based_isoforms), preFilter, assign, filter, assign` -/
inductive SOp where
  | addModel (m : TModel) (reads : List String)
  | assign (ins : List AssignIn)
  | preFilter (p : FilterParams) (mapq : String → Int)
  | filter (p : FilterParams) (mapq : String → Int) (similar : List TModel → List String) (covTerm : TModel → Int)

def applySOp (s : Store) : SOp → Option Store
  | .addModel m reads => some (s.addModel m reads)
  | .assign ins => some (s.assignReads ins)
  | .preFilter p mapq => s.preFilter p mapq
  | .filter p mapq similar covTerm => s.filterTranscripts p mapq similar covTerm

/-- the assigner is run on `GeneInfo.from_models(transcript_model_storage)`: it can only name stored models -/
def sopScoped (s : Store) : SOp → Prop
  | .assign ins => ∀ a ∈ ins, ∀ t ∈ a.matched, t ∈ s.models.map (·.tid)
  | _ => True

/-- `runSOps s ops s'`: the history `ops` leads from `s` to `s'` without raising, every step scoped -/
inductive RunSOps : Store → List SOp → Store → Prop where
  | nil (s : Store) : RunSOps s [] s
  | cons {s s1 s' : Store} {op : SOp} {t : List SOp} :
      sopScoped s op → applySOp s op = some s1 → RunSOps s1 t s' → RunSOps s (op :: t) s'

/-! ## construct_fl_isoforms -/

/-- Python tuple-of-pairs comparison `x <= y` -/
def pathLexLe : List Iv → List Iv → Bool
  | [], _ => true
  | _ :: _, [] => false
  | a :: s, b :: t => if a = b then pathLexLe s t else ivLe a b

/-- the sort key of `construct_fl_isoforms`: longer paths first, equal lengths in tuple order -/
def flPathLe (x y : List Iv) : Bool :=
  if x.length = y.length then pathLexLe x y else decide (y.length ≤ x.length)

/-- per full-length path: what `path_storage` holds and what the assigner answered for the path's exons -/
structure PathIn where
  path : List Iv                    -- starting vertex, introns..., terminal vertex
  count : Int                       -- path_storage.paths[path]
  reads : List (String × String)    -- (read_id, read_group) of paths_to_reads[path]
  matching : Bool                   -- is_matching_assignment(assignment)
  ref : String                      -- assignment.isoform_matches[0].assigned_transcript ("" when None)
  deriving Repr, DecidableEq

structure FLEnv where
  chr : String
  geneEmpty : Bool                          -- gene_info.empty()
  knownIntrons : List Iv                    -- self.known_introns
  knownPaths : List (List Iv)               -- keys of known_isoforms_in_graph
  intronGenes : List (Iv × List String)     -- self.intron_genes
  geneStrands : List (String × Strand)      -- gene_info.gene_strands
  refModels : List (String × TModel)        -- transcript_from_reference
  minKnownCount : Int
  minNovelCount : Int
  requireMonointronicPolya : Bool
  level : StrandnessReportingLevel
  useTechnicalReplicas : Bool

/-- `gene_counts[g] += 1` for every gene of every path intron that has genes -/
def geneCounts (ig : List (Iv × List String)) (introns : List Iv) : List (String × Int) :=
  introns.foldl (fun m i =>
    match amGet? ig i with
    | none => m
    | some gs => gs.foldl (fun m g => amSet m g (cnt m g + 1)) m) []

def gcLe (a b : String × Int) : Bool := a.2 < b.2 || (a.2 == b.2 && decide (a.1 ≤ b.1))

/-- the loop over `ordered_genes` of `select_reference_gene` -/
def pickGene (geneStrands : List (String × Strand)) (strand : Strand) : List (String × Int) → Option (Option String)
  | [] => some none
  | g :: t =>
    if strand = .dot then some (some g.1)
    else match amGet? geneStrands g.1 with
      | none => none
      | some gs => if gs = strand then some (some g.1) else pickGene geneStrands strand t

/-- `select_reference_gene`; outer `none` = KeyError on `gene_strands` -/
def selectReferenceGene (env : FLEnv) (introns : List Iv) (strand : Strand) : Option (Option String) :=
  if env.geneEmpty then some none
  else pickGene env.geneStrands strand ((insSort gcLe (geneCounts env.intronGenes introns)).reverse)

def distinctCount (l : List String) : Nat := (l.foldl (fun acc x => if x ∈ acc then acc else acc ++ [x]) []).length

structure FLState where
  detected : List String       -- GraphBasedModelConstructor.detected_known_isoforms
  idv : Nat                    -- id_distributor.value
  store : Store
  deriving Repr, DecidableEq

/-- what one iteration decided (kept for the theorems; the state carries the effect) -/
inductive Decision where
  | skipped
  | knownAdded (m : TModel)
  | novelAdded (m : TModel)
  deriving Repr, DecidableEq

def novelTid (n : Nat) (chr suffix : String) : String :=
  tn_transcript_prefix ++ toString n ++ "." ++ chr ++ suffix

def novelGeneId (chr : String) (n : Nat) : String := tn_novel_gene_prefix ++ chr ++ "_" ++ toString n

/-- the novel branch after the count / polyA / strand gates: gene selection, typing, naming.
    Returns the model and the new id counter; `none` = KeyError -/
def buildNovel (env : FLEnv) (next : Nat → Nat) (idv tidNum : Nat) (intronPath : List Iv) (exons : List Iv)
    (strand : Strand) : Option (TModel × Nat) :=
  match selectReferenceGene env intronPath strand with
  | none => none
  | some none =>
    let g := next idv
    let known := intronPath.all (fun i => decide (i ∈ env.knownIntrons))
    some ({ chr := env.chr, strand := strand,
            tid := novelTid tidNum env.chr (if known then tn_nic_transcript_suffix else tn_nnic_transcript_suffix),
            gene := novelGeneId env.chr g, exons := exons,
            ttype := if known then .novel_in_catalog else .novel_not_in_catalog, intronPath := intronPath }, g)
  | some (some gene) =>
    let strand' : Option Strand := if strand = .dot then amGet? env.geneStrands gene else some strand
    match strand' with
    | none => none
    | some st =>
      let known := intronPath.all (fun i => decide (i ∈ env.knownIntrons))
      some ({ chr := env.chr, strand := st,
              tid := novelTid tidNum env.chr (if known then tn_nic_transcript_suffix else tn_nnic_transcript_suffix),
              gene := gene, exons := exons,
              ttype := if known then .novel_in_catalog else .novel_not_in_catalog, intronPath := intronPath }, idv)

/-- the gates of the novel branch: `true` = the path is dropped (`pass`) -/
def novelGate (env : FLEnv) (sd : Iv → Strand) (count : Int) (nExons : Nat) (intronPath : List Iv)
    (hasPolya hasPolyt : Bool) : Bool :=
  let strand := getStrand sd intronPath hasPolya hasPolyt
  let clean := getCleanStrand sd intronPath
  if count < env.minNovelCount then true
  else if nExons = 2 ∧ ((env.requireMonointronicPolya ∧ ¬ (hasPolya ∨ hasPolyt)) ∨ clean = .dot) then true
  else if (env.level = .only_canonical ∧ clean = .dot) ∨ (env.level = .only_stranded ∧ strand = .dot) then true
  else false

/-- one iteration of the loop of `construct_fl_isoforms`; `none` = the code raises.
    `guard = true` is the code after the fix (a path whose consecutive introns overlap or touch — possible after intron
    substitution — is skipped, because `get_exons` drops the empty exon); `guard = false` is the code before it. -/
def flStepG (guard : Bool) (env : FLEnv) (sd : Iv → Strand) (next : Nat → Nat) (st : FLState) (pi : PathIn) :
    Option (FLState × Decision) :=
  let intronPath := pi.path.tail.dropLast
  if intronPath.isEmpty then some (st, .skipped)
  else
    match pi.path.head?, pi.path.getLast? with
    | some first, some last =>
      let range : Iv := (first.2, last.2)
      let exons := getExons range intronPath
      if guard && decide (exons.length ≠ intronPath.length + 1) then some (st, .skipped) else
      let tidNum := next st.idv
      let st1 := { st with idv := tidNum }
      if !pi.matching && decide (intronPath ∈ env.knownPaths) then some (st1, .skipped)
      else if pi.matching && pi.ref ≠ "" then
        if pi.ref ∈ st1.detected then some (st1, .skipped)
        else if pi.count < env.minKnownCount then some (st1, .skipped)
        else
          match amGet? env.refModels pi.ref with
          | none => none
          | some m =>
            some ({ st1 with detected := st1.detected ++ [pi.ref],
                             store := st1.store.addModel m (pi.reads.map (·.1)) }, .knownAdded m)
      else
        let hasPolyt := decide (first.1 = VERTEX_polyt)
        let hasPolya := decide (last.1 = VERTEX_polya)
        if novelGate env sd pi.count exons.length intronPath hasPolya hasPolyt then some (st1, .skipped)
        else if env.useTechnicalReplicas && decide (distinctCount (pi.reads.map (·.2)) ≤ 1) then some (st1, .skipped)
        else
          match buildNovel env next st1.idv tidNum intronPath exons (getStrand sd intronPath hasPolya hasPolyt) with
          | none => none
          | some (m, idv') =>
            some ({ st1 with idv := idv', store := st1.store.addModel m (pi.reads.map (·.1)) }, .novelAdded m)
    | _, _ => none

/-- the loop body of the current code -/
def flStep := flStepG true
/-- the loop body before the fix (kept for the regression witness) -/
def flStepBuggy := flStepG false

def flLoop (env : FLEnv) (sd : Iv → Strand) (next : Nat → Nat) :
    List PathIn → FLState → List Decision → Option (FLState × List Decision)
  | [], st, ds => some (st, ds)
  | pi :: t, st, ds =>
    match flStep env sd next st pi with
    | none => none
    | some (st', d) => flLoop env sd next t st' (ds ++ [d])

/-- `construct_fl_isoforms` -/
def constructFL (env : FLEnv) (sd : Iv → Strand) (next : Nat → Nat) (st : FLState) (paths : List PathIn) :
    Option (FLState × List Decision) :=
  flLoop env sd next (insSort (fun a b => flPathLe a.path b.path) paths) st []

/-- intron chains of the novel models emitted by a run of the loop -/
def novelChains (ds : List Decision) : List (List Iv) :=
  ds.filterMap (fun d => match d with | .novelAdded m => some m.intronPath | _ => none)

/-! ## generate_monoexon_from_clustered (novel mono-exonic models; `cluster_monoexons` is a heuristic input) -/

/-- one polyA / polyT cluster of mono-exonic reads: the 3' position and, per read, (id, first exon start, last exon end) -/
structure MonoCluster where
  threePrime : Int
  reads : List (String × Int × Int)
  deriving Repr, DecidableEq

structure MonoState where
  idv : Nat
  store : Store
  deriving Repr, DecidableEq

/-- `any(intersection_len(exon, coordinates) > half_len for exon in existing_model.exon_blocks)` for some stored model,
    with `half_len = interval_len(coordinates) / 2` (a float: compared as `2·intersection > length`) -/
def overlapsStored (models : List TModel) (coords : Iv) : Bool :=
  models.any (fun m => m.exons.any (fun e => decide (2 * intersection_len e coords > interval_len coords)))

/-- `coordinates`: 5' end = the outermost read end of the cluster, 3' end = the cluster position -/
def monoCoords (forward : Bool) (threePrime : Int) (r0 : String × Int × Int) (rest : List (String × Int × Int)) : Iv :=
  if forward then (rest.foldl (fun acc r => min acc r.2.1) r0.2.1, threePrime)
  else (threePrime, rest.foldl (fun acc r => max acc r.2.2) r0.2.2)

def monoStrand (forward : Bool) : Strand := if forward then .plus else .minus

/-- one iteration of `generate_monoexon_from_clustered`; returns the model when one is added.
    `none` = `min([])` / `max([])` raises (an empty cluster that passes a non-positive cutoff) -/
def monoStep (chr : String) (minNovelCount : Int) (next : Nat → Nat) (forward : Bool) (st : MonoState) (c : MonoCluster) :
    Option (MonoState × Option TModel) :=
  if (c.reads.length : Int) < minNovelCount then some (st, none)
  else
    match c.reads with
    | [] => none
    | r0 :: rest =>
      if overlapsStored st.store.models (monoCoords forward c.threePrime r0 rest) then
        some ({ st with idv := next (next st.idv) }, none)
      else
        some ({ idv := next (next st.idv),
                store := st.store.addModel
                  { chr := chr, strand := monoStrand forward, tid := novelTid (next st.idv) chr tn_nnic_transcript_suffix,
                    gene := novelGeneId chr (next (next st.idv)), exons := [monoCoords forward c.threePrime r0 rest],
                    ttype := .novel_not_in_catalog, intronPath := [] } (c.reads.map (·.1)) },
              some { chr := chr, strand := monoStrand forward, tid := novelTid (next st.idv) chr tn_nnic_transcript_suffix,
                     gene := novelGeneId chr (next (next st.idv)), exons := [monoCoords forward c.threePrime r0 rest],
                     ttype := .novel_not_in_catalog, intronPath := [] })

/-- `generate_monoexon_from_clustered` -/
def monoLoop (chr : String) (minNovelCount : Int) (next : Nat → Nat) (forward : Bool) :
    List MonoCluster → MonoState → List TModel → Option (MonoState × List TModel)
  | [], st, acc => some (st, acc)
  | c :: t, st, acc =>
    match monoStep chr minNovelCount next forward st c with
    | none => none
    | some (st', none) => monoLoop chr minNovelCount next forward t st' acc
    | some (st', some m) => monoLoop chr minNovelCount next forward t st' (acc ++ [m])

/-! ## GFFPrinter.dump prints a model only when `validate_exons` accepts its exons -/

/-- consecutive pairs in tuple order (for a total order this is `l == sorted(l)`) -/
def sortedIv : List Iv → Bool
  | [] => true
  | [_] => true
  | a :: b :: t => ivLe a b && sortedIv (b :: t)

/-- `validate_exons` of /repo/src/transcript_printer.py -/
def validateExons (l : List Iv) : Bool := sortedIv l && l.all (fun x => decide (0 < x.1) && decide (x.1 ≤ x.2))

/-! ## correct_novel_transcript_ends: only the outer coordinates of the terminal exons may change -/

def setStart (ex : List Iv) (s : Int) : List Iv :=
  match ex with
  | [] => []
  | e :: t => (s, e.2) :: t

def setEnd : List Iv → Int → List Iv
  | [], _ => []
  | [e], x => [(e.1, x)]
  | e :: t, x => e :: setEnd t x

end IsoVerif.Model.C04
