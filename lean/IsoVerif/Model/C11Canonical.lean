/-
C11 — splice-site strand detection of /repo/src/common.py (`get_intron_strand`, `get_strand`) over the *generated*
tables `CANONICAL_FWD_SITES` / `CANONICAL_REV_SITES` (Gen/Constants.lean), and the reflection of a splice-site pair.
A site pair is (left dinucleotide, right dinucleotide) as read on the forward strand, left site first (as in the code).
Core Lean only.
-/
import IsoVerif.Gen.Constants

namespace IsoVerif.Model.C11
open IsoVerif.Gen

abbrev Sites := String × String

def compBase (c : Char) : Char :=
  if c = 'A' then 'T' else if c = 'T' then 'A' else if c = 'C' then 'G' else if c = 'G' then 'C' else c

/-- reverse complement of a (short) sequence -/
def rcSeq (s : String) : String := String.ofList (s.toList.reverse.map compBase)

/-- the same intron seen on the reverse-complemented chromosome: the two sides swap and are reverse-complemented -/
def mirrorSites (p : Sites) : Sites := (rcSeq p.2, rcSeq p.1)

def isFwdSite (p : Sites) : Bool := CANONICAL_FWD_SITES.contains p
def isRevSite (p : Sites) : Bool := CANONICAL_REV_SITES.contains p

def flipStrand (s : String) : String := if s = "+" then "-" else if s = "-" then "+" else s

/-- `get_intron_strand` after the two dinucleotides have been cut out of the reference and upper-cased -/
def intronStrandOfSites (p : Sites) : String :=
  if isFwdSite p == isRevSite p then "." else if isFwdSite p then "+" else "-"

/-- `get_strand` on the site pairs of the introns -/
def strandOfSites (l : List Sites) : String :=
  if l.isEmpty then "."
  else
    let f := (l.filter isFwdSite).length
    let r := (l.filter isRevSite).length
    if f = r then "." else if r < f then "+" else "-"

/-- the two dinucleotides `get_intron_strand` reads for intron (a, b) (1-based closed, `ref_region_start = 1`) -/
def sitesOfIntron (ref : List Char) (a b : Nat) : Sites :=
  (String.ofList ((ref.drop (a - 1)).take 2), String.ofList ((ref.drop (b - 2)).take 2))

def rcList (l : List Char) : List Char := l.reverse.map compBase

def isPlus (p : Sites) : Bool := intronStrandOfSites p == "+"
def isMinus (p : Sites) : Bool := intronStrandOfSites p == "-"

/-- `StrandDetector.get_strand`: vote of the per-intron strands, a tie is broken by a polyA / polyT tail -/
def detectorStrand (l : List Sites) (hasA hasT : Bool) : String :=
  let f := (l.filter isPlus).length
  let r := (l.filter isMinus).length
  if f = r then (if hasA && !hasT then "+" else if hasT && !hasA then "-" else ".")
  else if r < f then "+" else "-"

/-- `StrandDetector.get_clean_strand`: all canonical introns must agree -/
def detectorCleanStrand (l : List Sites) : String :=
  let f := (l.filter isPlus).length
  let r := (l.filter isMinus).length
  if f = 0 ∧ r > 0 then "-" else if f > 0 ∧ r = 0 then "+" else "."

end IsoVerif.Model.C11
