/-
C03 (text of the GTF) — executable model of the FULL line rendering of `GFFPrinter.dump`
(src/transcript_printer.py) and of the attribute assembly on the `TranscriptModel` / `GeneInfo` side
(src/gene_info.py: `additional_info`, `additional_attributes_str`, `set_gene_attributes`, `set_sources`,
`set_other_features`, `from_reference_transcript`; `create_extended_storage`).

Strings are `List Char` (`Str` of Model/Ids.lean).  Every string literal of the Python code that reaches a line
(format strings, the default source, the `exons` key, the `exon` feature name, the reversing strand, the skip
lists of `set_gene_attributes`, the `" "` separators) comes from `IsoVerif/Gen/GtfFormat.lean`, regenerated from
/repo on every run; `%`-formatting is interpreted (`pyFormat`, only `%s` / `%d`; `none` = TypeError).
`exon_id`s come from `FeatureIdStorage.get_id` (Model/Ids.lean, C17) in printing order.

Representation choices (recorded in docs/C03.md §9):
* the two insertion-ordered dicts of `dump` (`gene_to_model_dict`, `gene_info_dict`) always receive the same key in
  the same iteration; they are one association list `gid ↦ (record, models)` here;
* `gene_to_model_dict` keeps the model and its `transcript_region` instead of the index;
* `gene_info.feature_attributes` / `gene_info.sources` are association lists key ↦ text (a `defaultdict(str)`
  for `feature_attributes`: reading a missing key gives `""`; the empty entry that read inserts is not modelled —
  it is visible only for two models carrying one transcript_id);
* `model.add_additional_attribute("exons", …)` mutates the model; `dumpText` returns the lines, `storageAfter` the
  mutated `additional_info` of the storage.
Core Lean only.
-/
import IsoVerif.Gen.Prims
import IsoVerif.Gen.GtfFormat
import IsoVerif.Model.Ids
import IsoVerif.Model.IdsPrinter

namespace IsoVerif.Model.C03T
open IsoVerif.Gen IsoVerif.Model.C17

/-- an insertion-ordered `dict` / `OrderedDict` str ↦ str -/
abbrev Attrs := List (Str × Str)

/-! ### Python `%` formatting with `%s` / `%d` -/

/-- `"%d" % n`, `str(n)` -/
def pyStrInt (n : Int) : Str := if n < 0 then '-' :: pyStrNat n.natAbs else pyStrNat n.toNat

inductive Seg
  | lit (s : Str)
  | str
  | int
deriving DecidableEq, Repr

inductive FArg
  | s (v : Str)
  | d (v : Int)
deriving DecidableEq, Repr

def pushLit (cur : Str) (r : List Seg) : List Seg := if cur.isEmpty then r else Seg.lit cur :: r

/-- a format literal as segments; `none` = a directive other than `%s` / `%d` (the translator refuses those) -/
def parseFmt : Str → Str → Option (List Seg)
  | [], cur => some (pushLit cur [])
  | c :: r, cur =>
    if c = '%' then
      match r with
      | [] => none
      | d :: r' =>
        if d = 's' then (parseFmt r' []).map (fun t => pushLit cur (Seg.str :: t))
        else if d = 'd' then (parseFmt r' []).map (fun t => pushLit cur (Seg.int :: t))
        else none
    else parseFmt r (cur ++ [c])

/-- `none` = TypeError (too few / too many arguments, `%d` of a string) -/
def applyFmt : List Seg → List FArg → Option Str
  | [], [] => some []
  | [], _ :: _ => none
  | Seg.lit s :: r, as => (applyFmt r as).map (s ++ ·)
  | Seg.str :: r, FArg.s v :: as => (applyFmt r as).map (v ++ ·)
  | Seg.str :: r, FArg.d v :: as => (applyFmt r as).map (pyStrInt v ++ ·)
  | Seg.int :: r, FArg.d v :: as => (applyFmt r as).map (pyStrInt v ++ ·)
  | Seg.int :: _, FArg.s _ :: _ => none
  | Seg.str :: _, [] => none
  | Seg.int :: _, [] => none

/-- `fmt % args` -/
def pyFormat (fmt : String) (args : List FArg) : Option Str :=
  match parseFmt fmt.toList [] with
  | none => none
  | some segs => applyFmt segs args

/-- `sep.join(l)` -/
def pyJoin (sep : Str) : List Str → Str
  | [] => []
  | [x] => x
  | x :: y :: r => x ++ sep ++ pyJoin sep (y :: r)

/-! ### `TranscriptModel` and what `dump` reads of a `GeneInfo` -/

structure AModel where
  chr : Str
  strand : Str
  tid : Str
  gid : Str
  source : Str
  exons : List (Int × Int)
  other : List (Int × Int × Str)      -- `other_features`
  additional : Attrs                  -- `additional_info` (OrderedDict)
deriving Repr, DecidableEq

/-- `add_additional_attribute`: assignment into the OrderedDict (an existing key keeps its position) -/
def AModel.addAdditional (m : AModel) (k v : Str) : AModel := { m with additional := assocSet k v m.additional }

/-- `additional_attributes_str()`; `none` = TypeError of the format -/
def additionalStr (a : Attrs) : Option Str :=
  (a.mapM (fun kv => pyFormat tm_attr_fmt [FArg.s kv.1, FArg.s kv.2])).map (pyJoin tm_attr_join.toList)

/-- the part of a `GeneInfo` that `dump` reads -/
structure GInfo where
  chr : Str
  /-- `get_gene_regions()` of a non-empty gene_info, `{}` otherwise -/
  regions : List (Str × (Int × Int)) := []
  sources : List (Str × Str) := []
  /-- `feature_attributes`: key ↦ text -/
  featAttrs : List (Str × Str) := []
deriving Repr

/-! ### structured lines -/

inductive SLine
  | gene (chr source : Str) (s e : Int) (strand gid : Str) (ntx : Nat) (extra : Str)
  | transcript (chr source : Str) (s e : Int) (strand gid tid : Str) (additional : Attrs) (extra : Str)
  | feature (chr source ftype : Str) (s e : Int) (strand gid tid : Str) (num : Nat) (extra : Str)
deriving Repr, DecidableEq

/-- a valid model together with its `transcript_region` -/
abbrev PlacedT := AModel × (Int × Int)

/-- `GFFGeneInfo` + the entry of `gene_to_model_dict` -/
structure GRecT where
  chr : Str
  strand : Str
  region : Int × Int
  models : List PlacedT
deriving Repr

/-- first loop of `dump`; `none` = a failed `assert model.chr_id == …` or `IndexError` (empty exon list) -/
def collectT (gi : GInfo) : List AModel → List (Str × GRecT) → Option (List (Str × GRecT))
  | [], acc => some acc
  | m :: ms, acc =>
    if validateExons m.exons then
      match m.exons.head?, m.exons.getLast? with
      | some f, some l =>
        let tr : Int × Int := (f.1, l.2)
        match assocGet m.gid acc with
        | none =>
          if m.chr = gi.chr then
            let range := match assocGet m.gid gi.regions with
              | some r => max_range r tr
              | none => tr
            collectT gi ms (assocSet m.gid ⟨m.chr, m.strand, range, [(m, tr)]⟩ acc)
          else none
        | some rec =>
          if m.chr = rec.chr then
            collectT gi ms (assocSet m.gid ⟨m.chr, m.strand, max_range rec.region tr, rec.models ++ [(m, tr)]⟩ acc)
          else none
      | _, _ => none
    else collectT gi ms acc

/-- `gene_order = sorted([(g, gene_info_dict[g].gene_region) …], key=lambda x: x[1])` (stable) -/
def geneOrderT (acc : List (Str × GRecT)) : List (Str × GRecT) :=
  pySorted (fun a b => ivLexLe a.2.region b.2.region) acc

/-- `additional_info` after `if not model.check_additional("exons"): model.add_additional_attribute("exons", str(len(exon_blocks)))` -/
def withExons (m : AModel) : Attrs :=
  match assocGet gtf_exons_key.toList m.additional with
  | some _ => m.additional
  | none => assocSet gtf_exons_key.toList (pyStrNat m.exons.length) m.additional

/-- `model.transcript_id + "_%d_%d_%s" % (e[0], e[1], model.strand)` -/
def exonKeyStr (m : AModel) (e : Int × Int × Str) : Option Str :=
  (pyFormat gtf_exon_key_fmt [FArg.d e.1, FArg.d e.2.1, FArg.s m.strand]).map (m.tid ++ ·)

/-- `exons_to_print`: other features and exons, sorted, descending when the strand is the reversing one -/
def featsToPrint (m : AModel) : List (Int × Int × Str) :=
  let feats := m.other ++ m.exons.map (fun e => (e.1, e.2, gtf_exon_feature.toList))
  if m.strand = gtf_reverse_strand.toList then pySorted (fun a b => featLe b a) feats else pySorted featLe feats

def featureLine (gi : GInfo) (m : AModel) (ie : Nat × (Int × Int × Str)) : Option SLine :=
  match exonKeyStr m ie.2 with
  | none => none
  | some key =>
    let extra : Str := match assocGet key gi.featAttrs with
      | some _ => gtf_exon_extra_sep.toList ++ (match assocGet m.tid gi.featAttrs with | some t => t | none => [])
      | none => []
    some (SLine.feature m.chr m.source ie.2.2.2 ie.2.1 ie.2.2.1 m.strand m.gid m.tid ie.1 extra)

/-- transcript line + feature lines of one model -/
def modelBlock (gi : GInfo) (p : PlacedT) : Option (List SLine) :=
  let m := p.1
  let extra : Str := match assocGet m.tid gi.featAttrs with
    | some t => gtf_tx_extra_sep.toList ++ t
    | none => []
  match (numberFrom 1 (featsToPrint m)).mapM (featureLine gi m) with
  | none => none
  | some fl => some (SLine.transcript m.chr m.source p.2.1 p.2.2 m.strand m.gid m.tid (withExons m) extra :: fl)

def geneLine (gi : GInfo) (gid : Str) (rec : GRecT) : SLine :=
  let extra : Str := match assocGet gid gi.featAttrs with
    | some t => t
    | none => []
  let source : Str := match assocGet gid gi.sources with
    | some s => s
    | none => gtf_default_source.toList
  SLine.gene rec.chr source rec.region.1 rec.region.2 rec.strand gid rec.models.length extra

/-- second loop of `dump` over `gene_order`; `printed` = `self.printed_gene_ids` -/
def emitGenesT (gi : GInfo) : List (Str × GRecT) → List Str → Option (List SLine × List Str)
  | [], printed => some ([], printed)
  | (gid, rec) :: gs, printed =>
    match rec.models.mapM (modelBlock gi) with
    | none => none
    | some blocks =>
      if gid ∈ printed then
        match emitGenesT gi gs printed with
        | none => none
        | some r => some (blocks.flatten ++ r.1, r.2)
      else
        match emitGenesT gi gs (printed ++ [gid]) with
        | none => none
        | some r => some (geneLine gi gid rec :: blocks.flatten ++ r.1, r.2)

/-- the structured lines of one `dump` call (before the `exon_id`s are drawn) and the new `printed_gene_ids` -/
def dumpPlanT (printed : List Str) (gi : GInfo) (models : List AModel) : Option (List SLine × List Str) :=
  match collectT gi models [] with
  | none => none
  | some acc => emitGenesT gi (geneOrderT acc) printed

def SLine.key? : SLine → Option ExonKey
  | .feature chr _ _ s e strand _ _ _ _ => some (chr, s, e, strand)
  | _ => none

def planKeysT (plan : List SLine) : List ExonKey := plan.filterMap SLine.key?

/-- a line and, for feature lines, its `exon_id` -/
abbrev OutT := SLine × Option Str

def fillT : List SLine → List Str → List OutT
  | [], _ => []
  | l :: r, ids =>
    match l.key?, ids with
    | some _, id :: ids' => (l, some id) :: fillT r ids'
    | some _, [] => (l, none) :: fillT r []
    | none, _ => (l, none) :: fillT r ids

/-! ### rendering -/

/-- the text of one line including the final `\n`; `none` = TypeError of a format (or a feature line without id) -/
def renderLine : OutT → Option Str
  | (.gene chr source s e strand gid ntx extra, _) =>
    pyFormat gtf_gene_fmt [FArg.s chr, FArg.s source, FArg.d s, FArg.d e, FArg.s strand, FArg.s gid,
                           FArg.d (Int.ofNat ntx), FArg.s extra]
  | (.transcript chr source s e strand gid tid additional extra, _) =>
    match additionalStr additional with
    | none => none
    | some a =>
      pyFormat gtf_transcript_fmt [FArg.s chr, FArg.s source, FArg.d s, FArg.d e, FArg.s strand, FArg.s gid,
                                   FArg.s tid, FArg.s (a ++ extra)]
  | (.feature chr source ftype s e strand gid tid num extra, some id) =>
    match pyFormat gtf_prefix_fmt [FArg.s chr, FArg.s source],
          pyFormat gtf_feature_coord_fmt [FArg.s ftype, FArg.d s, FArg.d e],
          pyFormat gtf_suffix_fmt [FArg.s strand, FArg.s gid, FArg.s tid],
          pyFormat gtf_feature_attr_fmt [FArg.d (Int.ofNat num), FArg.s id, FArg.s extra] with
    | some a, some b, some c, some d => some (a ++ b ++ c ++ d)
    | _, _, _, _ => none
  | (.feature .., none) => none

/-- `GFFPrinter.dump(gene_info, transcript_model_storage)` of a printer with `printed_gene_ids = printed` whose
    `exon_id_storage` is `st`: structured lines with ids, new `printed_gene_ids`, new storage -/
def dumpLines (st : FeatureIdStorage) (printed : List Str) (gi : GInfo) (models : List AModel) :
    Option (List OutT × List Str × FeatureIdStorage) :=
  if models.isEmpty then some ([], printed, st)
  else
    match dumpPlanT printed gi models with
    | none => none
    | some (plan, printed') =>
      match st.getIds (planKeysT plan) with
      | none => none
      | some (ids, st') => some (fillT plan ids, printed', st')

/-- the same with the lines as text (what is written to the file, one string per line, each ending in `\n`) -/
def dumpText (st : FeatureIdStorage) (printed : List Str) (gi : GInfo) (models : List AModel) :
    Option (List Str × List Str × FeatureIdStorage) :=
  match dumpLines st printed gi models with
  | none => none
  | some (out, printed', st') =>
    match out.mapM renderLine with
    | none => none
    | some text => some (text, printed', st')

/-- `additional_info` of the storage after the call (the `exons` attribute is added to every model that is printed) -/
def storageAfter (models : List AModel) : List AModel :=
  models.map (fun m => if validateExons m.exons then { m with additional := withExons m } else m)

structure CallT where
  gi : GInfo
  models : List AModel
deriving Repr

/-- a history of dump calls on one printer -/
def runText : FeatureIdStorage → List Str → List CallT → Option (List Str × List Str × FeatureIdStorage)
  | st, printed, [] => some ([], printed, st)
  | st, printed, c :: cs =>
    match dumpText st printed c.gi c.models with
    | none => none
    | some (t1, p1, st1) =>
      match runText st1 p1 cs with
      | none => none
      | some (t2, p2, st2) => some (t1 ++ t2, p2, st2)

/-! ### the `GeneInfo` side: what gffutils returned for the genes of a `GeneInfo` -/

/-- a transcript feature: `attrs` = `t.attributes` (key ↦ value list, in the order gffutils iterates them),
    `feats` = `db.children(t)` as `(start, end, featuretype)`, `exons` / `strand` as `all_isoforms_exons` /
    `isoform_strands` hold them -/
structure DbTx where
  id : Str
  source : Str
  strand : Str
  attrs : List (Str × List Str)
  feats : List (Int × Int × Str)
  exons : List (Int × Int)
deriving Repr, DecidableEq

/-- a gene feature: `txs` = `db.children(gene, featuretype=('transcript','mRNA'))` in the order gffutils yields them,
    `byStart` = the ids of the same query with `order_by='start'` (gffutils' tie order is taken as given),
    `exons` = `db.children(gene, featuretype='exon')` as `(start, end, strand)` -/
structure DbGene where
  id : Str
  source : Str
  attrs : List (Str × List Str)
  txs : List DbTx
  byStart : List Str
  exons : List (Int × Int × Str)
deriving Repr, DecidableEq

/-- `d[k] += t` on a `defaultdict(str)` -/
def dictAppend (k t : Str) (d : List (Str × Str)) : List (Str × Str) :=
  match assocGet k d with
  | some old => assocSet k (old ++ t) d
  | none => assocSet k t d

def inSkip (skip : List String) (a : Str) : Bool := skip.any (fun s => s.toList = a)

/-- one `for attr in X.attributes.keys(): if attr in [skip]: continue; if X.attributes[attr]: d[key] += fmt % (attr, X.attributes[attr][0])` -/
def attrLoop (fmt : String) (skip : List String) (key : Str) : List (Str × List Str) → List (Str × Str) →
    Option (List (Str × Str))
  | [], d => some d
  | (a, vs) :: r, d =>
    if inSkip skip a then attrLoop fmt skip key r d
    else
      match vs with
      | [] => attrLoop fmt skip key r d
      | v :: _ =>
        match pyFormat fmt [FArg.s a, FArg.s v] with
        | none => none
        | some t => attrLoop fmt skip key r (dictAppend key t d)

/-- the exon loop of one transcript: every exon child of the GENE gives the key `t.id_start_end_strand`, filled
    from the TRANSCRIPT's attributes -/
def exonAttrLoop (t : DbTx) : List (Int × Int × Str) → List (Str × Str) → Option (List (Str × Str))
  | [], d => some d
  | e :: es, d =>
    match pyFormat gi_exon_key_fmt [FArg.d e.1, FArg.d e.2.1, FArg.s e.2.2] with
    | none => none
    | some suffix =>
      match attrLoop gi_exon_attr_fmt gi_exon_attr_skip (t.id ++ suffix) t.attrs d with
      | none => none
      | some d' => exonAttrLoop t es d'

def txAttrLoop (g : DbGene) : List DbTx → List (Str × Str) → Option (List (Str × Str))
  | [], d => some d
  | t :: ts, d =>
    match attrLoop gi_transcript_attr_fmt gi_transcript_attr_skip t.id t.attrs d with
    | none => none
    | some d1 =>
      match exonAttrLoop t g.exons d1 with
      | none => none
      | some d2 => txAttrLoop g ts d2

/-- `GeneInfo.set_gene_attributes` -/
def setGeneAttributes : List DbGene → List (Str × Str) → Option (List (Str × Str))
  | [], d => some d
  | g :: gs, d =>
    match attrLoop gi_gene_attr_fmt gi_gene_attr_skip g.id g.attrs d with
    | none => none
    | some d1 =>
      match txAttrLoop g g.txs d1 with
      | none => none
      | some d2 => setGeneAttributes gs d2

/-- `GeneInfo.set_sources` -/
def setSources (genes : List DbGene) : List (Str × Str) :=
  genes.foldl (fun d g => g.txs.foldl (fun d t => assocSet t.id t.source d) (assocSet g.id g.source d)) []

/-- `GeneInfo.set_other_features`: `defaultdict(list)`, children of the transcript whose type is in `OTHER_FEATURES` -/
def otherOf (t : DbTx) : List (Int × Int × Str) := t.feats.filter (fun e => inSkip gi_other_features e.2.2)

def setOtherFeatures (genes : List DbGene) : List (Str × List (Int × Int × Str)) :=
  genes.foldl (fun d g => g.txs.foldl (fun d t =>
    match otherOf t with
    | [] => d
    | fs => match assocGet t.id d with
      | some old => assocSet t.id (old ++ fs) d
      | none => assocSet t.id fs d) d) []

/-- what `from_reference_transcript` / `create_extended_storage` read of the chromosome-wide `GeneInfo` -/
structure RefInfo where
  chr : Str
  isoforms : List (Str × List (Int × Int))        -- `all_isoforms_exons` (dict order)
  strands : List (Str × Str)                       -- `isoform_strands`
  geneOf : List (Str × Str)                        -- `gene_id_map`
  sources : List (Str × Str)
  other : List (Str × List (Int × Int × Str))

def refInfoOf (chr : Str) (genes : List DbGene) : RefInfo :=
  let txs := genes.flatMap (fun g => g.txs.map (fun t => (g, t)))
  { chr := chr,
    isoforms := genes.foldl (fun d g => g.byStart.foldl (fun d id =>
        match g.txs.find? (fun t => t.id = id) with
        | some t => if t.exons.isEmpty then d else assocSet t.id t.exons d   -- "Malformed transcript … has no exons": skipped
        | none => d) d) [],
    strands := txs.foldl (fun d gt => assocSet gt.2.id gt.2.strand d) [],
    geneOf := txs.foldl (fun d gt => assocSet gt.2.id gt.1.id d) [],
    sources := setSources genes,
    other := setOtherFeatures genes }

/-- `TranscriptModel.from_reference_transcript(gene_info, isoform_id)`; `none` = KeyError.
    (`other_features` is a `defaultdict(list)`: a transcript without such children has `[]`.) -/
def fromReferenceT (ri : RefInfo) (tid : Str) : Option AModel :=
  match assocGet tid ri.strands, assocGet tid ri.geneOf, assocGet tid ri.isoforms, assocGet tid ri.sources with
  | some strand, some gid, some exons, some source =>
    some { chr := ri.chr, strand := strand, tid := tid, gid := gid, source := source, exons := exons,
           other := match assocGet tid ri.other with | some o => o | none => [],
           additional := [] }
  | _, _, _, _ => none

/-- `create_extended_storage`: every isoform in `all_isoforms_exons` order, then the novel models -/
def extendedStorageT (ri : RefInfo) (novel : List AModel) : Option (List AModel) :=
  (ri.isoforms.mapM (fun kv => fromReferenceT ri kv.1)).map (· ++ novel)

/-- the `GInfo` the chromosome-wide `GeneInfo` of `create_extended_storage` shows to `dump` -/
def ginfoOf (chr : Str) (genes : List DbGene) (regions : List (Str × (Int × Int))) : Option GInfo :=
  (setGeneAttributes genes []).map (fun fa => { chr := chr, regions := regions, sources := setSources genes, featAttrs := fa })

/-! ### reading a line back (the grammar the theorems are stated against) -/

/-- state of the attribute-column reader -/
inductive PS
  | start
  | key (k : Str)
  | preq (k : Str)
  | val (k v : Str)
  | post (k v : Str)

/-- reads `key "value";` items separated by any number of blanks; `none` = not of that form -/
def parseAttrsGo : PS → List (Str × Str) → Str → Option (List (Str × Str))
  | PS.start, acc, [] => some acc.reverse
  | _, _, [] => none
  | PS.start, acc, c :: cs =>
    if c = ' ' then parseAttrsGo PS.start acc cs
    else if c = '"' ∨ c = ';' then none
    else parseAttrsGo (PS.key [c]) acc cs
  | PS.key k, acc, c :: cs =>
    if c = ' ' then parseAttrsGo (PS.preq k) acc cs
    else if c = '"' then none
    else parseAttrsGo (PS.key (k ++ [c])) acc cs
  | PS.preq k, acc, c :: cs =>
    if c = '"' then parseAttrsGo (PS.val k []) acc cs else none
  | PS.val k v, acc, c :: cs =>
    if c = '"' then parseAttrsGo (PS.post k v) acc cs else parseAttrsGo (PS.val k (v ++ [c])) acc cs
  | PS.post k v, acc, c :: cs =>
    if c = ';' then parseAttrsGo PS.start ((k, v) :: acc) cs else none

def parseAttrs (s : Str) : Option (List (Str × Str)) := parseAttrsGo PS.start [] s

end IsoVerif.Model.C03T
