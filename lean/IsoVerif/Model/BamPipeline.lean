/-
C12 (end to end) — executable model of the pipeline downstream of the alignment intake, composed from the merged
models of C12 (intake), C08 (multimapper resolution, loader) and C02 (ungrouped counters, merge, TPM).  Core Lean only.

  src/alignment_processor.py  AlignmentCollector.forward_alignments: one call of process_alignments_in_region per
                              forwarded (sub-)region = one *block* of per-alignment records (`collectBlocks`)
  src/dataset_processor.py    collect_reads_in_parallel (records of a chromosome in processing order, `chr_id` stamped,
                              `assignment_id` drawn from a counter), collect_reads (list building in both memory modes,
                              resolve_multimappers, count_unaligned_reads), construct_models_in_parallel (verdict file of
                              the chromosome, ReadAssignmentLoader.get_next, global_counter.add_read_info / dump),
                              merge_assignments (merge_counts + convert_counts_to_tpm per counter)

What is a MODEL here: the k-way merge, the clusters, the re-fetch per sub-region (Model/BamMerge.lean), the assignment id
numbering, the per-read lists, `MultimapResolver.resolve` (take_best), the verdict files, the loader, the gene and the
transcript counter with their dumps, `merge_counts`, `convert_counts_to_tpm` (Model/Resolver.lean, Model/Counter.lean).
What is a PARAMETER: `split_coverage_regions` (`SplitFn`, owned by C05) and everything that turns ONE alignment of one
(sub-)region into its record (`Assign PRec`: filters, profiles, LongReadAssigner, exon correction, polyA, strand ...).
-/
import IsoVerif.Model.BamMerge
import IsoVerif.Model.Resolver
import IsoVerif.Model.Counter

namespace IsoVerif.Model.C12
open IsoVerif.Gen IsoVerif.Model.Resolver IsoVerif.Model.C02

/-! ### blocks: the records of one `process_alignments_in_region` call -/

/-- default mode: one block per forwarded sub-region, in processing order -/
def collectBlocks {R : Type} (split : SplitFn) (assign : Assign R) (files : List (List Aln)) : List (List R) :=
  (clusters Prod.snd (merge files)).flatMap (fun rc =>
    (subRegions split rc.1 (rc.2.map Prod.snd)).map (regionRecords assign files))

/-- `--high_memory` -/
def collectBlocksMem {R : Type} (split : SplitFn) (assign : Assign R) (files : List (List Aln)) : List (List R) :=
  (clusters Prod.snd (merge files)).flatMap (fun rc =>
    (subRegions split rc.1 (rc.2.map Prod.snd)).map (fun sub =>
      (memAlignments rc.1 rc.2 sub).filterMap (fun e => assign sub e.1 e.2)))

/-! ### the per-alignment record -/

deriving instance DecidableEq for IsoVerif.Model.C02.Match

/-- what the downstream reads of one `ReadAssignment`:
    `basic` = `BasicReadAssignment(read_assignment)` (the compact record the resolver works on; its `aid` / `chr` fields
    are overwritten by `stamp`), the three things the counters read besides the two types, and `rest` = everything
    else that is printed (exons, corrected exons, strand, polyA positions, classification, events ...) -/
structure PRec where
  basic : Rec
  isoMatches : List (Match Nat)
  nCorrectedExons : Nat
  isoformIntrons : List (Nat × Nat)
  rest : Nat
  deriving DecidableEq, Repr

/-- `read_assignment.chr_id = self.chr_id`; `assignment_id = assignment_id_generator.increment()` -/
def PRec.stamp (c aid : Nat) (p : PRec) : PRec := { p with basic := { p.basic with chr := c, aid := aid } }

/-- the record with its assignment id forgotten (no output shows the id) -/
def PRec.eraseAid (p : PRec) : PRec := { p with basic := { p.basic with aid := 0 } }

/-- the records of chromosome `c` in processing order; `ids i` = the assignment id of the `i`-th record (the counter
    is shared by everything a worker process creates, so the ids are increasing but not consecutive) -/
def stampChr (c : Nat) (ids : Nat → Nat) (l : List PRec) : List PRec :=
  l.zipIdx.map (fun x => x.1.stamp c (ids x.2))

/-- the view `ReadAssignmentLoader.get_next` has of a full record -/
def PRec.toFull (p : PRec) : Full :=
  { aid := p.basic.aid, readId := p.basic.readId, chr := p.basic.chr, atype := p.basic.atype, gtype := p.basic.gtype,
    multimapper := p.basic.multimapper, introns := [], isoforms := p.basic.isoforms }

/-- `read_assignment.assignment_type / gene_assignment_type / multimapper = resolved_assignment. ...` -/
def PRec.withVerdict (p : PRec) (f : Full) : PRec :=
  { p with basic := { p.basic with atype := f.atype, gtype := f.gtype, multimapper := f.multimapper } }

/-- the view `AssignedFeatureCounter.add_read_info` has of a full record -/
def PRec.toAssignment (p : PRec) : Assignment Nat :=
  { atype := p.basic.atype, gtype := p.basic.gtype, isoMatches := p.isoMatches, nCorrectedExons := p.nCorrectedExons,
    isoformIntrons := p.isoformIntrons }

/-! ### resolution of all reads of the experiment -/

/-- `collect_reads`: the per-read lists over the record stream of all chromosomes (in-memory lists with
    `--high_memory`, otherwise `prepare_multimapper_dict`), then `resolve_multimappers` with the command line's
    strategy; `none` = the resolver raises for some read -/
def resolveStream (highMemory : Bool) (stream : List Rec) : Option (List (Nat × List Rec)) :=
  let d := if highMemory then groupAll stream else groupMulti stream
  (resolveAll .take_best d).mapM (fun kv => kv.2.map (fun out => (kv.1, out)))

/-- `ReadAssignmentLoader.get_next` over the dump file of one chromosome (all gene regions, in order);
    `none` = it raises -/
def loadChr (dict : List (Nat × List Rec)) (l : List PRec) : Option (List PRec) :=
  if l.any (fun p => raisesFor dict p.toFull) then none
  else some (l.filterMap (fun p => (loadOne dict p.toFull).map p.withVerdict))

/-! ### counters -/

structure Config where
  highMemory : Bool
  /-- `--gene_quantification`, `--transcript_quantification` -/
  geneStrategy : CountingStrategy
  transcriptStrategy : CountingStrategy
  /-- order of the feature ids (Python `str` order on the interned names) -/
  le : Nat → Nat → Bool
  /-- `--normalization_method` -/
  norm : NormalizationMethod
  /-- first column at which `convert_counts_to_tpm` stops -/
  isStatLike : Nat → Bool
  /-- `get_all_chromosome_genes / transcripts(gffutils_db, chr_id)` per chromosome -/
  completeGenes : Nat → List Nat
  completeTranscripts : Nat → List Nat
  /-- the chromosome indices in the order `merge_files` visits the per-chromosome files (natural sort of the names) -/
  mergeOrder : List Nat

/-- `aggregator.global_counter.add_read_info(read_assignment)` for every loaded record, then `dump()`
    (`output_zeroes=True` for both tables); `none` = a call raises -/
def countChr (s : CountingStrategy) (lvl : Level) (le : Nat → Nat → Bool) (complete : List Nat)
    (loaded : List PRec) : Option (Part Nat) :=
  (C02.run s lvl (CState.init complete) (loaded.map (fun p => Event.read (some p.toAssignment)))).map (dump le true)

/-- `count_unaligned_reads`: `alignment_stat_counter.add(AlignmentType.unaligned, bam.unmapped)` for every file -/
def countUnaligned (unmapped : List Nat) : Nat := unmapped.foldl (· + ·) 0

structure ChrOut where
  /-- the loaded records in order: one line of read_assignments.tsv / corrected_reads.bed each -/
  records : List PRec
  gene : Part Nat
  transcript : Part Nat
  deriving Repr

structure Output where
  chrs : List ChrOut
  geneCounts : Part Nat
  transcriptCounts : Part Nat
  geneTpm : TpmTable Nat
  transcriptTpm : TpmTable Nat
  deriving Repr

/-- the two counters of chromosome `c` fed with the loaded records, then dumped -/
def chrOutOf (cfg : Config) (c : Nat) (loaded : List PRec) : Option ChrOut :=
  match countChr cfg.geneStrategy .gene cfg.le (cfg.completeGenes c) loaded,
        countChr cfg.transcriptStrategy .transcript cfg.le (cfg.completeTranscripts c) loaded with
  | some g, some t => some { records := loaded, gene := g, transcript := t }
  | _, _ => none

/-- `construct_models_in_parallel` for chromosome `c` (reading the verdict file written for it) -/
def processChr (cfg : Config) (resolved : List (Nat × List Rec)) (c : Nat) (l : List PRec) : Option ChrOut :=
  match loadChr (verdictsFor c resolved) l with
  | none => none
  | some loaded => chrOutOf cfg c loaded

/-- per chromosome (in `get_chr_list` order): the records with `chr_id` and `assignment_id` set, and the chromosome index -/
def stampedOf (ids : Nat → Nat → Nat) (chroms : List (List PRec)) : List (List PRec × Nat) :=
  chroms.zipIdx.map (fun x => (stampChr x.2 (ids x.2) x.1, x.2))

/-- `merge_assignments`: `merge_counts` + `convert_counts_to_tpm` for the gene and the transcript counter -/
def assemble (cfg : Config) (unmapped : List Nat) (outs : List ChrOut) : Output :=
  let u := countUnaligned unmapped
  let parts := cfg.mergeOrder.filterMap (fun c => outs[c]?)
  let g := mergeCounts (parts.map (·.gene)) u
  let t := mergeCounts (parts.map (·.transcript)) u
  { chrs := outs, geneCounts := g, transcriptCounts := t,
    geneTpm := countsToTpm cfg.norm true cfg.isStatLike g.rows g.usable,
    transcriptTpm := countsToTpm cfg.norm true cfg.isStatLike t.rows t.usable }

/-- everything downstream of the per-alignment records.  `chroms` = per chromosome (in `get_chr_list` order) the
    records in processing order, `ids c` the assignment ids handed out on chromosome `c`, `unmapped` the number of
    unaligned reads per input file. -/
def downstream (cfg : Config) (ids : Nat → Nat → Nat) (unmapped : List Nat) (chroms : List (List PRec)) :
    Option Output :=
  match resolveStream cfg.highMemory (((stampedOf ids chroms).map (·.1)).flatten.map (·.basic)) with
  | none => none
  | some resolved =>
    match (stampedOf ids chroms).mapM (fun x => processChr cfg resolved x.2 x.1) with
    | none => none
    | some outs => some (assemble cfg unmapped outs)

/-- the whole modelled pipeline for one experiment: `genome` = per chromosome the per-file record streams
    (what `fetch(chr_id)` yields from each BAM file), `assign c` the per-alignment function on chromosome `c` -/
def endToEnd (cfg : Config) (split : SplitFn) (assign : Nat → Assign PRec) (ids : Nat → Nat → Nat)
    (unmapped : List Nat) (genome : List (List (List Aln))) : Option Output :=
  downstream cfg ids unmapped
    (genome.zipIdx.map (fun x =>
      if cfg.highMemory then collectMem split (assign x.2) x.1 else collect split (assign x.2) x.1))

end IsoVerif.Model.C12
