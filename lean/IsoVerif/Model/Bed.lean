/-
Executable model of `BEDPrinter.add_read_info` (/repo/src/assignment_io.py): one BED12 record per printed
read, as a structured record plus its textual rendering.  Core Lean only.
Exceptions of the real code (`exon_blocks[0]` on an empty list: IndexError) are `none`.
-/
import IsoVerif.Gen.Prims

namespace IsoVerif.Model.C14
open IsoVerif.Gen

/-- the twelve BED columns written by `add_read_info` (score and itemRgb are the constant 0) -/
structure BedRecord where
  chrom : String
  chromStart : Int
  chromEnd : Int
  name : String
  strand : String
  thickStart : Int
  thickEnd : Int
  blockCount : Nat
  blockSizes : List Int
  blockStarts : List Int
  deriving Repr, DecidableEq

/-- the tuple that is formatted by `add_read_info`; `none` = IndexError on an empty block list -/
def bedRecord (chrom name strand : String) (exons : List Iv) : Option BedRecord :=
  match exons.head?, exons.getLast? with
  | some f, some l =>
    some { chrom := chrom, chromStart := f.1 - 1, chromEnd := l.2, name := name, strand := strand,
           thickStart := f.1 - 1, thickEnd := f.1 - 1, blockCount := exons.length,
           blockSizes := exons.map (fun e => e.2 - e.1 + 1),
           blockStarts := exons.map (fun e => e.1 - f.1) }
  | _, _ => none

def joinComma (l : List Int) : String := ",".intercalate (l.map toString)

/-- `"%s\t%d\t%d\t%s\t0\t%s\t%d\t%d\t%d\t%d\t%s\t%s\n"` -/
def BedRecord.render (r : BedRecord) : String :=
  "\t".intercalate [r.chrom, toString r.chromStart, toString r.chromEnd, r.name, "0", r.strand,
                     toString r.thickStart, toString r.thickEnd, "0", toString r.blockCount,
                     joinComma r.blockSizes, joinComma r.blockStarts] ++ "\n"

/-- what the printer is given: the guards of `add_read_info` read these and nothing else -/
structure PrinterInput where
  assignmentPresent : Bool      -- read_assignment is not None
  typePresent : Bool            -- read_assignment.assignment_type is not None
  geneInfoPresent : Bool        -- hasattr(read_assignment, "gene_info") and it is not None
  checkerPresent : Bool         -- self.assignment_checker is not None
  checkerAccepts : Bool         -- self.assignment_checker.check(read_assignment)
  printCorrected : Bool
  chrom : String
  name : String
  strand : String
  exons : List Iv
  correctedExons : List Iv

/-- `BEDPrinter.add_read_info`: `some none` = nothing is written, `some (some line)` = the line written,
    `none` = the real code raises (empty block list) -/
def addReadInfo (i : PrinterInput) : Option (Option String) :=
  if !i.assignmentPresent || !i.typePresent || !i.geneInfoPresent then some none
  else if !i.checkerPresent || !i.checkerAccepts then some none
  else
    match bedRecord i.chrom i.name i.strand (if i.printCorrected then i.correctedExons else i.exons) with
    | none => none
    | some r => some (some r.render)

/-- decoding of a BED12 record back to 1-based closed blocks (what a BED consumer reconstructs) -/
def BedRecord.blocks (r : BedRecord) : List Iv :=
  (List.zip r.blockStarts r.blockSizes).map (fun sz => (r.chromStart + sz.1 + 1, r.chromStart + sz.1 + sz.2))

end IsoVerif.Model.C14
