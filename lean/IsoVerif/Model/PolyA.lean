/-
C16 — executable model of the polyA/polyT terminal-exon trimming:
  src/polya_verification.py  `shift_polya`, `shift_polyt`, `PolyAFixer.correct_read_info`,
                             `count_polya_exons`, `count_polyt_exons`
  src/alignment_info.py      `AlignmentInfo.add_polya_info` (everything after `detect_polya`)
Core Lean only.  `none` = the real code raises (IndexError / AttributeError); never defaulted.

`correctReadInfo` models the code after the fix commit ("keep at least one exon": the guard
`polyt + polya == len(read_exons)` became a `while polyt + polya >= len(read_exons)` loop);
`correctReadInfoBuggy` is the code of the pinned tree, kept for the regression witness.
-/
import IsoVerif.Gen.Prims
import IsoVerif.Model.Interval

namespace IsoVerif.Model.C16
open IsoVerif.Gen IsoVerif.Model

/-- `PolyAInfo` (src/polya_finder.py); `-1` = not found -/
structure PolyAInfo where
  externalPolyA : Int
  externalPolyT : Int
  internalPolyA : Int
  internalPolyT : Int
  deriving Repr, DecidableEq

/-- the `if` inside the loop of `count_polya_exons`: more than 2/3 of the exon lies beyond the polyA start -/
def isPolyaExon (maxFake pos : Int) (e : Iv) : Bool :=
  let lenToPolya := pos - e.1
  decide (lenToPolya ≤ 0) || (decide (lenToPolya ≤ maxFake) && decide (e.2 - pos > 2 * lenToPolya))

/-- loop of `count_polya_exons` (runs over `read_exons[-i-1]`, i.e. the reversed list; `cnt` is the counter;
    `break` at the first exon that ends at or before the polyA position) -/
def countPolyaLoop (maxFake pos : Int) (cnt : Int) : List Iv → Int
  | [] => cnt
  | e :: rest =>
    if e.2 ≤ pos then cnt
    else if isPolyaExon maxFake pos e then countPolyaLoop maxFake pos (cnt + 1) rest
    else countPolyaLoop maxFake pos cnt rest

def countPolyaExons (maxFake : Int) (exons : List Iv) (pos : Int) : Int :=
  if pos = -1 then 0 else countPolyaLoop maxFake pos 0 exons.reverse

def isPolytExon (maxFake pos : Int) (e : Iv) : Bool :=
  let lenToPolyt := e.2 - pos
  decide (lenToPolyt ≤ 0) || (decide (lenToPolyt ≤ maxFake) && decide (2 * lenToPolyt < pos - e.1))

def countPolytLoop (maxFake pos : Int) (cnt : Int) : List Iv → Int
  | [] => cnt
  | e :: rest =>
    if e.1 ≥ pos then cnt
    else if isPolytExon maxFake pos e then countPolytLoop maxFake pos (cnt + 1) rest
    else countPolytLoop maxFake pos cnt rest

def countPolytExons (maxFake : Int) (exons : List Iv) (pos : Int) : Int :=
  if pos = -1 then 0 else countPolytLoop maxFake pos 0 exons

/-- the `while polyt + polya >= len(read_exons)` loop of the fixed `correct_read_info`;
    fuel-indexed, `none` = out of fuel (`clamp_terminates` shows it cannot happen with the fuel used) -/
def clampLoop : Nat → Int → Int → Int → Option (Int × Int)
  | 0, _, _, _ => none
  | fuel + 1, n, a, t =>
    if t + a ≥ n then clampLoop fuel n (a - 1) (t - 1) else some (a, t)

/-- `PolyAFixer.correct_read_info` (fixed code): `(polya_exon_count, polyt_exon_count)` -/
def correctReadInfo (maxFake : Int) (exons : List Iv) (info : PolyAInfo) : Option (Int × Int) :=
  if exons.length = 1 then some (0, 0)
  else
    let a := countPolyaExons maxFake exons info.internalPolyA
    let t := countPolytExons maxFake exons info.internalPolyT
    clampLoop (exons.length + 2) exons.length a t

/-- the pinned tree: only `polyt + polya == len(read_exons)` was guarded -/
def correctReadInfoBuggy (maxFake : Int) (exons : List Iv) (info : PolyAInfo) : Option (Int × Int) :=
  if exons.length = 1 then some (0, 0)
  else
    let a := countPolyaExons maxFake exons info.internalPolyA
    let t := countPolytExons maxFake exons info.internalPolyT
    if t + a = exons.length then some (a - 1, t - 1) else some (a, t)

/-- loop of `shift_polya` over the trimmed exons, last exon first (`d` = `dist_to_polya`) -/
def shiftDistA (pos : Int) (d : Int) : List Iv → Int
  | [] => d
  | e :: rest =>
    if e.1 > pos then shiftDistA pos d rest
    else if d = 0 then shiftDistA pos (d + (pos - e.1)) rest
    else shiftDistA pos (d + interval_len e) rest

/-- `shift_polya(read_exons, exon_count, polya_pos)`; `none` = IndexError -/
def shiftPolya (exons : List Iv) (k : Int) (pos : Int) : Option Int :=
  if k = 0 ∨ k = exons.length ∨ pos = -1 then some pos
  else if k > exons.length then none          -- `read_exons[-i-1]` with i = len
  else do
    let last ← pyGet? exons (-k - 1)
    some (last.2 + shiftDistA pos 0 (exons.reverse.take k.toNat))

/-- loop of `shift_polyt` over the trimmed exons, first exon first -/
def shiftDistT (pos : Int) (d : Int) : List Iv → Int
  | [] => d
  | e :: rest =>
    if e.2 < pos then shiftDistT pos d rest
    else if d = 0 then shiftDistT pos (d + (e.2 - pos)) rest
    else shiftDistT pos (d + interval_len e) rest

/-- `shift_polyt(read_exons, exon_count, polyt_pos)`; `none` = IndexError -/
def shiftPolyt (exons : List Iv) (k : Int) (pos : Int) : Option Int :=
  if k = 0 ∨ k = exons.length ∨ pos = -1 then some pos
  else if k > exons.length then none          -- `read_exons[i]` with i = len
  else do
    let first ← pyGet? exons k
    some (first.1 - shiftDistT pos 0 (exons.take k.toNat))

/-- the part of `AlignmentInfo` that `add_polya_info` reads and writes -/
structure AInfo where
  exons : List Iv
  readBlocks : List Iv
  cigarBlocks : List Iv
  info : PolyAInfo
  exonsChanged : Bool
  readStart : Int
  readEnd : Int
  deriving Repr, DecidableEq

/-- the repaired `add_polya_info` (fix: external tail position on the retained exon): when BOTH polyA positions were
    found (tested on the values before the shift: `both_found`), the shifted external position is cut down to the
    shifted internal one – the removed exons are tail from the internal position on, the tail does not start later -/
def clampA (oldInt oldExt newInt newExt : Int) : Int :=
  if oldInt ≠ -1 ∧ oldExt ≠ -1 then min newExt newInt else newExt

/-- mirror image for the polyT head: `max` -/
def clampT (oldInt oldExt newInt newExt : Int) : Int :=
  if oldInt ≠ -1 ∧ oldExt ≠ -1 then max newExt newInt else newExt

/-- first half of `add_polya_info`: trimming of `polya_exon_count` exons at the 3' end (repaired code) -/
def trimPolyA (st : AInfo) (a : Int) : Option AInfo :=
  if a > 0 then do
    let ia ← shiftPolya st.exons a st.info.internalPolyA
    let ea ← shiftPolya st.exons a st.info.externalPolyA
    let keep := st.exons.length - a.toNat
    some { st with info := { st.info with internalPolyA := ia,
                                          externalPolyA := clampA st.info.internalPolyA st.info.externalPolyA ia ea },
                   exons := st.exons.take keep,
                   readBlocks := st.readBlocks.take (st.readBlocks.length - a.toNat),
                   cigarBlocks := st.cigarBlocks.take (st.cigarBlocks.length - a.toNat),
                   exonsChanged := true }
  else some st

/-- second half: trimming of `polyt_exon_count` exons at the 5' end (on the already shortened lists; repaired code) -/
def trimPolyT (st : AInfo) (t : Int) : Option AInfo :=
  if t > 0 then do
    let it ← shiftPolyt st.exons t st.info.internalPolyT
    let et ← shiftPolyt st.exons t st.info.externalPolyT
    some { st with info := { st.info with internalPolyT := it,
                                          externalPolyT := clampT st.info.internalPolyT st.info.externalPolyT it et },
                   exons := st.exons.drop t.toNat,
                   readBlocks := st.readBlocks.drop t.toNat,
                   cigarBlocks := st.cigarBlocks.drop t.toNat,
                   exonsChanged := true }
  else some st

/-- the code before the repair: both positions are shifted independently (the external one keeps the length of the
    aligned tail as an overhang past the retained exon: `external_shift_witness`) -/
def trimPolyAOrig (st : AInfo) (a : Int) : Option AInfo :=
  if a > 0 then do
    let ia ← shiftPolya st.exons a st.info.internalPolyA
    let ea ← shiftPolya st.exons a st.info.externalPolyA
    let keep := st.exons.length - a.toNat
    some { st with info := { st.info with internalPolyA := ia, externalPolyA := ea },
                   exons := st.exons.take keep,
                   readBlocks := st.readBlocks.take (st.readBlocks.length - a.toNat),
                   cigarBlocks := st.cigarBlocks.take (st.cigarBlocks.length - a.toNat),
                   exonsChanged := true }
  else some st

def trimPolyTOrig (st : AInfo) (t : Int) : Option AInfo :=
  if t > 0 then do
    let it ← shiftPolyt st.exons t st.info.internalPolyT
    let et ← shiftPolyt st.exons t st.info.externalPolyT
    some { st with info := { st.info with internalPolyT := it, externalPolyT := et },
                   exons := st.exons.drop t.toNat,
                   readBlocks := st.readBlocks.drop t.toNat,
                   cigarBlocks := st.cigarBlocks.drop t.toNat,
                   exonsChanged := true }
  else some st

/-- the final `if self.exons_changed:` (IndexError on an empty exon list) -/
def refreshEnds (st : AInfo) : Option AInfo :=
  if st.exonsChanged then
    match st.exons.head?, st.exons.getLast? with
    | some f, some l => some { st with readStart := f.1, readEnd := l.2 }
    | _, _ => none
  else some st

/-- state of an `AlignmentInfo` right after `__init__` (`none`: no exons – the attributes do not exist) -/
def ainfoInit (exons rb cb : List Iv) (info : PolyAInfo) : Option AInfo :=
  match exons.head?, exons.getLast? with
  | some f, some l => some { exons := exons, readBlocks := rb, cigarBlocks := cb, info := info,
                             exonsChanged := false, readStart := f.1, readEnd := l.2 }
  | _, _ => none

/-- `AlignmentInfo.add_polya_info` after `detect_polya` returned `info`, with given trimming halves and a given
    `correct_read_info` -/
def addPolyaInfoGen (trimA trimT : AInfo → Int → Option AInfo)
    (cri : Int → List Iv → PolyAInfo → Option (Int × Int))
    (maxFake : Int) (exons rb cb : List Iv) (info : PolyAInfo) : Option AInfo := do
  let st ← ainfoInit exons rb cb info
  let (a, t) ← cri maxFake exons info
  let st1 ← trimA st a
  let st2 ← trimT st1 t
  refreshEnds st2

/-- the repaired trimming halves with a given `correct_read_info` -/
def addPolyaInfoWith (cri : Int → List Iv → PolyAInfo → Option (Int × Int))
    (maxFake : Int) (exons rb cb : List Iv) (info : PolyAInfo) : Option AInfo := do
  let st ← ainfoInit exons rb cb info
  let (a, t) ← cri maxFake exons info
  let st1 ← trimPolyA st a
  let st2 ← trimPolyT st1 t
  refreshEnds st2

def addPolyaInfo := addPolyaInfoWith correctReadInfo
def addPolyaInfoBuggy := addPolyaInfoWith correctReadInfoBuggy
/-- `add_polya_info` before the repair of the external position (independent shifts) -/
def addPolyaInfoOrigShift := addPolyaInfoGen trimPolyAOrig trimPolyTOrig correctReadInfo

end IsoVerif.Model.C16
