/-
Executable model of the exon / intron inclusion–exclusion counting (property C13):
  src/long_read_profiles.py  OverlappingFeaturesProfileConstructor.construct_exon_profile / construct_intron_profile
                             (wrappers around construct_profile_for_features, modelled in Model/Profiles.lean)
  src/gene_info.py           FeatureInfo (to_str), GeneInfo.set_feature_properties
  src/long_read_counter.py   ProfileFeatureCounter.add_read_info_from_profile / dump, ExonCounter / IntronCounter.add_read_info
  src/alignment_processor.py process_genic: read_assignment.exon_gene_profile / intron_gene_profile
Core Lean only.

The counter is generic in the row key `key : FeatureInfo → κ` and in what happens to the stored description of a row
when its key is seen again, `upd : stored → new → stored'`:
  `coordKey`,  `FeatureInfo.merge`  (chr, start, end), labels merged     the code after the candidate repair of G1
  `strandKey`, `keepFirst`          (chr, start, end, strand string)     the code after fix a8ffd5c (`…Orig` variant)
  `idKey`,     `keepFirst`          the running `FeatureInfo.id`         the code before a8ffd5c (`…Buggy` variant)
-/
import IsoVerif.Gen.Prims
import IsoVerif.Gen.Strategies
import IsoVerif.Model.Interval
import IsoVerif.Model.Profiles

namespace IsoVerif.Model.C13
open IsoVerif.Gen IsoVerif.Model

/-! ### construct_exon_profile / construct_intron_profile -/

/-- `construct_exon_profile`: mapped region = (first block end + δ, last block start − δ), comparator
    `equal_ranges δ`, absence test `contains`.  `none` = IndexError on `sorted_blocks[0]`. -/
def constructExonProfile (known : List Iv) (geneRegion : Iv) (delta : Int) (blocks : List Iv)
    (polya polyt : Int) : Option ProfileResult :=
  match blocks.head?, blocks.getLast? with
  | some f, some l =>
    some (constructOverlapping known geneRegion (fun a b => equal_ranges a b delta) (fun a b => contains a b) delta
            blocks (f.2 + delta, l.1 - delta) polya polyt)
  | _, _ => none

/-- `construct_intron_profile`: read features = junctions of the blocks, mapped region = (first start, last end),
    comparator `equal_ranges δ`, absence test `overlaps_at_least absDelta` (= minimal_intron_absence_overlap). -/
def constructIntronProfile (known : List Iv) (geneRegion : Iv) (delta absDelta : Int) (blocks : List Iv)
    (polya polyt : Int) : Option ProfileResult :=
  match blocks.head?, blocks.getLast? with
  | some f, some l =>
    some (constructOverlapping known geneRegion (fun a b => equal_ranges a b delta)
            (fun a b => overlaps_at_least a b absDelta) delta
            (junctionsFromBlocks blocks) (f.1, l.2) polya polyt)
  | _, _ => none

/-! ### FeatureInfo, GeneInfo.set_feature_properties -/

structure FeatureInfo where
  id : Nat            -- FeatureInfo.feature_id_counter.increment()
  chr : String
  start : Int
  stop : Int
  strand : String
  ftype : String
  genes : List String
  deriving Repr, DecidableEq, Inhabited

def joinWith (sep : String) : List String → String
  | [] => ""
  | [x] => x
  | x :: y :: r => x ++ sep ++ joinWith sep (y :: r)

/-- `FeatureInfo.to_str` : "%s\t%d\t%d\t%s\t%s\t%s" -/
def FeatureInfo.toStr (f : FeatureInfo) : String :=
  f.chr ++ "\t" ++ toString f.start ++ "\t" ++ toString f.stop ++ "\t" ++ f.strand ++ "\t" ++ f.ftype ++ "\t" ++
    joinWith "," f.genes

/-- one annotated isoform as `set_feature_properties` sees it: id, `isoform_strands[t]`, `gene_id_map[t]` and its
    feature list `isoforms_to_feature_map[t]` (exons or introns) -/
structure IsoformFeatures where
  tid : String
  strand : String
  gene : String
  feats : List Iv
  deriving Repr

/-- entries appended to `feature_to_isoform` for one isoform: (feature, terminal?) -/
def isoformEntries (feats : List Iv) : List (Iv × Bool) :=
  match feats with
  | [] => []
  | [f] => [(f, true)]
  | f :: rest =>
    (f, true) :: (match rest.getLast? with | some l => [(l, true)] | none => []) ++
      (rest.dropLast.map (fun e => (e, false)))

def insertStr (x : String) : List String → List String
  | [] => [x]
  | y :: ys => if x ≤ y then x :: y :: ys else y :: insertStr x ys

def sortStrs : List String → List String
  | [] => []
  | x :: xs => insertStr x (sortStrs xs)

def concatStrs : List String → String
  | [] => ""
  | x :: xs => x ++ concatStrs xs

/-- `sorted(set(..))`: insertion into a strictly increasing list, equal elements dropped -/
def insertSD {α} [DecidableEq α] (lt : α → α → Bool) (x : α) : List α → List α
  | [] => [x]
  | y :: ys => if x = y then y :: ys else if lt x y then x :: y :: ys else y :: insertSD lt x ys

def sortSD {α} [DecidableEq α] (lt : α → α → Bool) : List α → List α
  | [] => []
  | x :: xs => insertSD lt x (sortSD lt xs)

def strLt (a b : String) : Bool := decide (a < b)
def charLt (a b : Char) : Bool := decide (a < b)

/-- (isoform strand, isoform gene, terminal?) for every `feature_to_isoform[feature]` entry -/
def featureEntries (isoforms : List IsoformFeatures) (f : Iv) : List (String × String × Bool) :=
  isoforms.flatMap (fun t => ((isoformEntries t.feats).filter (fun e => e.1 == f)).map (fun e => (t.strand, t.gene, e.2)))

def featureType (features : List Iv) (delta : Int) (f : Iv) (es : List (String × String × Bool)) : String :=
  let base := if es.all (fun e => e.2.2) then "X" else if es.any (fun e => e.2.2) then "T" else "I"
  let similar := features.any (fun g => g != f && (equal_ranges f g delta || equal_ranges g f delta))
  let contained := features.any (fun g => g != f && contains g f)
  let geneIds := sortSD strLt (es.map (fun e => e.2.1))        -- len(set(..))
  base ++ (if similar then "S" else "") ++ (if contained then "C" else "") ++
    (if es.length == 1 then "U" else if geneIds.length > 1 then "M" else "")

/-- `GeneInfo.set_feature_properties`; `nextId` is the value of the class-level id counter before the call.
    The gene list is `sorted(set(..))`. -/
def mkFeatureInfo (chr : String) (delta : Int) (features : List Iv) (isoforms : List IsoformFeatures) (nextId : Nat)
    (x : Iv × Nat) : FeatureInfo :=
  let es := featureEntries isoforms x.1
  { id := nextId + x.2 + 1, chr := chr, start := x.1.1, stop := x.1.2,
    strand := concatStrs (sortSD strLt (es.map (fun e => e.1))),        -- "".join(sorted(set(..)))
    ftype := featureType features delta x.1 es,
    genes := sortSD strLt (es.map (fun e => e.2.1)) }

def setFeatureProperties (chr : String) (delta : Int) (features : List Iv) (isoforms : List IsoformFeatures)
    (nextId : Nat) : List FeatureInfo :=
  features.zipIdx.map (mkFeatureInfo chr delta features isoforms nextId)

/-! ### FeatureInfo.merge (candidate repair of G1): the same feature described by gene infos built from different gene subsets -/

/-- strand string, flags, gene list: the part of a row that depends on which genes were loaded together -/
structure Label where
  strand : String
  ftype : String
  genes : List String
  deriving Repr, DecidableEq

def FeatureInfo.label (f : FeatureInfo) : Label := { strand := f.strand, ftype := f.ftype, genes := f.genes }

/-- first letter: X (terminal in all isoforms) / I (in none) / T (mixed) -/
def mergeBase (a b : List Char) : Char :=
  if a.head? = some 'X' ∧ b.head? = some 'X' then 'X'
  else if a.head? = some 'I' ∧ b.head? = some 'I' then 'I'
  else 'T'

/-- the flags of the merged label; `nGenes` = length of the merged gene list -/
def mergeFlags (a b : List Char) (nGenes : Nat) : List Char :=
  [mergeBase a b] ++ (if 'S' ∈ a ∨ 'S' ∈ b then ['S'] else []) ++ (if 'C' ∈ a ∨ 'C' ∈ b then ['C'] else []) ++
    (if nGenes > 1 then ['M'] else if 'U' ∈ a ∧ 'U' ∈ b then ['U'] else [])

/-- the computing part of `FeatureInfo.merge`: gene_ids = sorted(set | set); strand = sorted union of the characters -/
def mergeLabel (a b : Label) : Label :=
  let genes := sortSD strLt (a.genes ++ b.genes)
  { strand := String.ofList (sortSD charLt (a.strand.toList ++ b.strand.toList)),
    ftype := String.ofList (mergeFlags a.ftype.toList b.ftype.toList genes.length),
    genes := genes }

/-- `FeatureInfo.merge`: `self` when the labels are equal, else a FeatureInfo with self's coordinates and the merged label
    (the real one gets a fresh running id, which nothing reads; the model keeps self's) -/
def FeatureInfo.merge (a b : FeatureInfo) : FeatureInfo :=
  if a.label = b.label then a
  else
    let l := mergeLabel a.label b.label
    { a with strand := l.strand, ftype := l.ftype, genes := l.genes }

/-- the stored description is never touched again: the code before the repair -/
def keepFirst (a _b : FeatureInfo) : FeatureInfo := a

/-! ### ProfileFeatureCounter -/

/-- `IncrementalDict(int)` / `defaultdict` as an association list -/
def getCount {α} [BEq α] (m : List (α × Nat)) (a : α) : Nat :=
  match m.lookup a with
  | some n => n
  | none => 0

def incr {α} [BEq α] : List (α × Nat) → α → List (α × Nat)
  | [], a => [(a, 1)]
  | (b, n) :: m, a => if a == b then (b, n + 1) :: m else (b, n) :: incr m a

structure PCounter (κ : Type) where
  groupIds : List (String × Nat)        -- group_numeric_ids (insertion ordered)
  nextGroup : Nat                        -- current_group_id
  incl : List ((κ × Nat) × Nat)          -- inclusion_feature_counter[feature][group numeric id]
  excl : List ((κ × Nat) × Nat)          -- exclusion_feature_counter
  names : List (κ × FeatureInfo)         -- feature_name_dict (OrderedDict): key -> the FeatureInfo whose to_str() is printed
  deriving Repr

/-- `ProfileFeatureCounter.__init__` -/
def PCounter.init {κ} (ignoreReadGroups : Bool) (defaultGroup : String) : PCounter κ :=
  { groupIds := if ignoreReadGroups then [(defaultGroup, 0)] else [], nextGroup := 1, incl := [], excl := [], names := [] }

/-- `add_feature_info`: a new key is appended (OrderedDict), a known key keeps its place and gets `upd stored fi` -/
def addName {κ} [BEq κ] (upd : FeatureInfo → FeatureInfo → FeatureInfo) :
    List (κ × FeatureInfo) → κ → FeatureInfo → List (κ × FeatureInfo)
  | [], k, fi => [(k, fi)]
  | (k', f') :: rest, k, fi => if k == k' then (k', upd f' fi) :: rest else (k', f') :: addName upd rest k fi

/-- the `for i in range(len(gene_feature_profile))` loop; `pm` is the not yet consumed suffix of the property map.
    `none` = IndexError (`feature_property_map[i]` past the end). -/
def addLoop {κ} [BEq κ] (key : FeatureInfo → κ) (upd : FeatureInfo → FeatureInfo → FeatureInfo) (gid : Nat) :
    List Int → List FeatureInfo → PCounter κ → Option (PCounter κ)
  | [], _, st => some st
  | v :: vs, pm, st =>
    if v = 1 then
      match pm with
      | [] => none
      | fi :: rest =>
        addLoop key upd gid vs rest { st with incl := incr st.incl (key fi, gid), names := addName upd st.names (key fi) fi }
    else if v = -1 then
      match pm with
      | [] => none
      | fi :: rest =>
        addLoop key upd gid vs rest { st with excl := incr st.excl (key fi, gid), names := addName upd st.names (key fi) fi }
    else addLoop key upd gid vs pm.tail st

/-- registration of a new read group -/
def ensureGroup {κ} (st : PCounter κ) (g : String) : PCounter κ :=
  match st.groupIds.lookup g with
  | some _ => st
  | none => { st with groupIds := st.groupIds ++ [(g, st.nextGroup)], nextGroup := st.nextGroup + 1 }

/-- `add_read_info_from_profile` -/
def addReadInfoFromProfile {κ} [BEq κ] (key : FeatureInfo → κ) (upd : FeatureInfo → FeatureInfo → FeatureInfo) (st : PCounter κ) (profile : List Int)
    (pmap : List FeatureInfo) (group : String) : Option (PCounter κ) :=
  let st1 := ensureGroup st group
  match st1.groupIds.lookup group with
  | none => none          -- unreachable (KeyError)
  | some gid => addLoop key upd gid profile pmap st1

structure CountRow where
  fi : FeatureInfo
  group : String
  incl : Nat
  excl : Nat
  deriving Repr, DecidableEq

def CountRow.text (r : CountRow) : String :=
  r.fi.toStr ++ "\t" ++ r.group ++ "\t" ++ toString r.incl ++ "\t" ++ toString r.excl

/-- `dump`: for every feature (insertion order) and every group name (sorted) one line when a count is positive.
    `none` = KeyError (cannot happen: the names come from `group_numeric_ids`). -/
def dumpRows {κ} [BEq κ] (st : PCounter κ) : List CountRow :=
  let groups := sortStrs (st.groupIds.map (·.1))
  st.names.flatMap (fun (k, fi) =>
    groups.filterMap (fun g =>
      match st.groupIds.lookup g with
      | none => none
      | some gid =>
        let i := getCount st.incl (k, gid)
        let e := getCount st.excl (k, gid)
        if i > 0 ∨ e > 0 then some { fi := fi, group := g, incl := i, excl := e } else none))

/-- the row keys -/
abbrev CoordKey := String × Int × Int
def coordKey (f : FeatureInfo) : CoordKey := (f.chr, f.start, f.stop)
abbrev StrandKey := String × Int × Int × String
def strandKey (f : FeatureInfo) : StrandKey := (f.chr, f.start, f.stop, f.strand)
def idKey (f : FeatureInfo) : Nat := f.id

/-! ### one processed read as the counters see it; ExonCounter / IntronCounter.add_read_info -/

/-- what `add_read_info` takes from a read assignment: the gene profile, the property map of its GeneInfo and the
    read group -/
structure ReadEv where
  profile : List Int
  pmap : List FeatureInfo
  group : String
  deriving Repr

/-- `ExonCounter.add_read_info` / `IntronCounter.add_read_info` on a valid assignment -/
def addReadInfo {κ} [BEq κ] (key : FeatureInfo → κ) (upd : FeatureInfo → FeatureInfo → FeatureInfo) (ignoreReadGroups : Bool) (defaultGroup : String)
    (st : PCounter κ) (ev : ReadEv) : Option (PCounter κ) :=
  addReadInfoFromProfile key upd st ev.profile ev.pmap (if ignoreReadGroups then defaultGroup else ev.group)

def runCounter {κ} [BEq κ] (key : FeatureInfo → κ) (upd : FeatureInfo → FeatureInfo → FeatureInfo) (ignoreReadGroups : Bool) (defaultGroup : String) :
    PCounter κ → List ReadEv → Option (PCounter κ)
  | st, [] => some st
  | st, ev :: evs =>
    match addReadInfo key upd ignoreReadGroups defaultGroup st ev with
    | none => none
    | some st' => runCounter key upd ignoreReadGroups defaultGroup st' evs

/-- a counter fed with a whole history from its initial state -/
def countAll {κ} [BEq κ] (key : FeatureInfo → κ) (upd : FeatureInfo → FeatureInfo → FeatureInfo) (ignoreReadGroups : Bool) (defaultGroup : String)
    (evs : List ReadEv) : Option (PCounter κ) :=
  runCounter key upd ignoreReadGroups defaultGroup (PCounter.init ignoreReadGroups defaultGroup) evs

/-- numeric id of a group name -/
def PCounter.gid? {κ} (st : PCounter κ) (g : String) : Option Nat := st.groupIds.lookup g

/-- include / exclude count of a (feature key, group name) -/
def PCounter.inclOf {κ} [BEq κ] (st : PCounter κ) (k : κ) (g : String) : Nat :=
  match st.groupIds.lookup g with
  | some gid => getCount st.incl (k, gid)
  | none => 0

def PCounter.exclOf {κ} [BEq κ] (st : PCounter κ) (k : κ) (g : String) : Nat :=
  match st.groupIds.lookup g with
  | some gid => getCount st.excl (k, gid)
  | none => 0

/-! ### the feed of `process_genic` (src/alignment_processor.py) -/

/-- the part of a GeneInfo the counting sees -/
structure GeneModel where
  chr : String
  region : Iv                      -- (gene_info.start, gene_info.end)
  delta : Int
  exons : List Iv                  -- exon_profiles.features (sorted distinct)
  introns : List Iv                -- intron_profiles.features
  exonMap : List FeatureInfo       -- exon_property_map
  intronMap : List FeatureInfo     -- intron_property_map
  deriving Repr

structure ReadAln where
  blocks : List Iv
  polya : Int                      -- polya_info.external_polya_pos
  polyt : Int
  group : String
  deriving Repr

def exonEvent (g : GeneModel) (r : ReadAln) : Option ReadEv :=
  (constructExonProfile g.exons g.region g.delta r.blocks r.polya r.polyt).map
    (fun p => { profile := p.gene, pmap := g.exonMap, group := r.group })

def intronEvent (g : GeneModel) (absDelta : Int) (r : ReadAln) : Option ReadEv :=
  (constructIntronProfile g.introns g.region g.delta absDelta r.blocks r.polya r.polyt).map
    (fun p => { profile := p.gene, pmap := g.intronMap, group := r.group })

/-! ### GeneInfo construction as far as the counting depends on it -/

/-- lexicographic insertion sort + dedup of coordinate pairs = `sorted(list(set(..)))` -/
def ivLe (a b : Iv) : Bool := a.1 < b.1 || (a.1 == b.1 && a.2 ≤ b.2)
def insertIv (x : Iv) : List Iv → List Iv
  | [] => [x]
  | y :: ys => if x == y then y :: ys else if ivLe x y then x :: y :: ys else y :: insertIv x ys
def sortDedupIv : List Iv → List Iv
  | [] => []
  | x :: xs => insertIv x (sortDedupIv xs)

structure GeneIn where
  region : Iv
  isoforms : List IsoformFeatures      -- feats = exon blocks

/-- GeneInfo as the counting sees it, ids threaded as in `GeneInfo.__init__` (exon map first, then intron map) -/
def mkGene (chr : String) (delta : Int) (nextId : Nat) (g : GeneIn) : GeneModel × Nat :=
  let exons := sortDedupIv (g.isoforms.flatMap (·.feats))
  let isoIntrons := g.isoforms.map (fun t => { t with feats := junctionsFromBlocks t.feats })
  let introns := sortDedupIv (isoIntrons.flatMap (·.feats))
  let em := setFeatureProperties chr delta exons g.isoforms nextId
  let im := setFeatureProperties chr delta introns isoIntrons (nextId + exons.length)
  ({ chr := chr, region := g.region, delta := delta, exons := exons, introns := introns, exonMap := em, intronMap := im },
   nextId + exons.length + introns.length)

def mkGenes (chr : String) (delta : Int) : Nat → List GeneIn → List GeneModel
  | _, [] => []
  | n, g :: gs => let (m, n') := mkGene chr delta n g; m :: mkGenes chr delta n' gs

/-! ### the delta a run uses (isoquant.py set_matching_options) -/

/-- `if args.delta is None: args.delta = strategy.delta; elif args.delta < 0: exit` over the regenerated preset table.
    `none` = unknown strategy (KeyError) or negative explicit delta (the code exits). -/
def effectiveDelta (strategy : String) (explicit : Option Int) : Option Int :=
  match matching_presets.lookup strategy with
  | none => none
  | some p =>
    match explicit with
    | none => some p.delta
    | some d => if d < 0 then none else some d

end IsoVerif.Model.C13
