/-
Executable model of /repo/src/exon_corrector.py (`ExonCorrector.correct_assigned_read`,
`correct_misalignments`, `process_events`) and of
`OverlappingFeaturesProfileConstructor.match_genomic_features` (/repo/src/long_read_profiles.py).
Core Lean only.

What is an *input* of the model (and therefore universally quantified in the theorems):
  * the event list of the assigned isoform match (produced by the unmodelled `JunctionComparator`);
  * `err i left` = the pair `(indel_count, mismatch_count)` that `AlignmentInfo.get_error_count` returns for
    the left / right site of read intron `i` (pysam aligned pairs + reference sequence, unmodelled);
  * the annotation: `known` (= `gene_info.intron_profiles.features`), the assigned isoform's region and introns.
Exceptions of the real code are `Except.error`: `.index` (IndexError / AttributeError), `.assertion`
(an `assert` fails), `.fuel` (the `while` loop of `process_events` does not terminate).
-/
import IsoVerif.Gen.Prims
import IsoVerif.Gen.Enums
import IsoVerif.Gen.EventClasses
import IsoVerif.Gen.Strategies
import IsoVerif.Gen.Corrector
import IsoVerif.Model.Interval

namespace IsoVerif.Model.C14
open IsoVerif.Gen

inductive CErr where
  | index | assertion | fuel
  deriving DecidableEq, Repr

/-- `MatchEvent` (event_info is not read by the corrector) -/
structure MEvent where
  etype : MatchEventSubtype
  iso : Int × Int
  read : Int × Int
  deriving DecidableEq, Repr

/-- the fields of `params` read by the corrector: the six strategy flags and `delta` -/
structure CParams where
  fl : CorrectionPreset
  delta : Int
  deriving DecidableEq, Repr

/-! ### `match_genomic_features` -/

/-- `match_delta` -/
def siteDelta (a b : Iv) : Int := iabs (a.1 - b.1) + iabs (a.2 - b.2)

/-- the two-pointer sweep; returns the `(read_pos, known feature)` pairs in the order they are appended
    (`known_features[gene_pos]` is always the head of the remaining known list) -/
def matchSweep (δ : Int) : List Iv → List Iv → Nat → List (Nat × Iv)
  | [], _, _ => []
  | _ :: _, [], _ => []
  | k :: ks, r :: rs, ri =>
    if equal_ranges r k δ then (ri, k) :: matchSweep δ ks (r :: rs) ri
    else if overlaps r k then matchSweep δ ks (r :: rs) ri
    else if left_of r k then matchSweep δ (k :: ks) rs (ri + 1)
    else matchSweep δ ks (r :: rs) ri
termination_by ks rs _ => ks.length + rs.length

/-- `matched_features[i]` -/
def candidatesOf (m : List (Nat × Iv)) (i : Nat) : List Iv := (m.filter (fun q => q.1 == i)).map (·.2)

/-- minimum of a non-empty list (`min(deltas)`) -/
def listMin : List Int → Option Int
  | [] => none
  | x :: xs => match listMin xs with
    | none => some x
    | some m => some (if x ≤ m then x else m)

/-- "eliminating non unique features" + "always take first for now" -/
def pickBest (r : Iv) (cs : List Iv) : Option Iv :=
  if cs.length > 1 then
    match listMin (cs.map (siteDelta r)) with
    | none => none
    | some best => (cs.filter (fun c => siteDelta r c == best)).head?
  else cs.head?

def pickAll (m : List (Nat × Iv)) : List Iv → Nat → List Iv
  | [], _ => []
  | r :: rs, i => (match pickBest r (candidatesOf m i) with | some k => k | none => r) :: pickAll m rs (i + 1)

/-- `match_genomic_features(read_features)` with comparator `equal_ranges(·,·,δ)` -/
def matchGenomicFeatures (δ : Int) (known reads : List Iv) : List Iv :=
  pickAll (matchSweep δ known reads 0) reads 0

/-! ### fuzzy junction correction (first half of `process_events`) -/

/-- one splice site: keep the read's own site when it equals the reference site or when the alignment shows
    no indel and at most one mismatch between the two candidate sites, else take the reference site -/
def fuzzySite (own ref : Int) (e : Int × Int) : Int :=
  if own = ref then own else if e.1 = 0 ∧ e.2 ≤ 1 then own else ref

def fuzzyLoop (err : Nat → Bool → Int × Int) : List Iv → List Iv → Nat → List Iv
  | r :: rs, q :: qs, i =>
    (fuzzySite r.1 q.1 (err i true), fuzzySite r.2 q.2 (err i false)) :: fuzzyLoop err rs qs (i + 1)
  | _, _, _ => []

/-- `corrected_introns` -/
def correctedIntrons (p : CParams) (err : Nat → Bool → Int × Int) (known readIntrons : List Iv) : List Iv :=
  if p.fl.fuzzy_junctions then fuzzyLoop err readIntrons (matchGenomicFeatures p.delta known readIntrons) 0
  else readIntrons

/-! ### the event map of `correct_misalignments` -/

def undefinedRegion : Int × Int := ((smc_undefined_region.1 : Int), (smc_undefined_region.2 : Int))
def absentPosition : Int := (smc_absent_position : Int)

/-- one step of the `for e in ...match_subclassifications` loop, event-map part; the newest binding of a key is
    first, so `List.lookup` returns what the Python dict holds after all assignments.  Events whose read region
    starts with the absent sentinel never enter the event map (micro-intron retentions go to `buildMicroMap`). -/
def addEvent (m : List (Int × MEvent)) (e : MEvent) : List (Int × MEvent) :=
  if e.read = undefinedRegion then m
  else if e.read.1 = absentPosition then m
  else (e.read.1, e) :: m

def buildEventMap (events : List MEvent) : List (Int × MEvent) :=
  events.foldl addEvent []

/-- the same loop, `retained_micro_introns` part (repaired code):
    `retained_micro_introns.setdefault(e.read_region[1], []).append(e.isoform_region[0])` for a
    `fake_micro_intron_retention` event when `correct_microintron_retention` is on.  The dict of lists is the list of
    ALL `(read exon index, isoform intron index)` bindings in event order. -/
def microEntry (micro : Bool) (e : MEvent) : Option (Int × Int) :=
  if e.read = undefinedRegion then none
  else if e.read.1 = absentPosition ∧ e.etype = corrector_micro_intron_test.1 ∧ micro then some (e.read.2, e.iso.1)
  else none

def buildMicroMap (micro : Bool) (events : List MEvent) : List (Int × Int) :=
  events.filterMap (microEntry micro)

/-! ### the `while` loop of `process_events` -/

/-- `[l[j] for j in range(a, a + n)]`; `none` = IndexError -/
def rangeGet (l : List Iv) (a : Int) : Nat → Option (List Iv)
  | 0 => some []
  | n + 1 =>
    match pyGet? l a, rangeGet l (a + 1) n with
    | some x, some xs => some (x :: xs)
    | _, _ => none

/-- `[l[j] for j in range(a, b + 1)]` -/
def sliceIncl (l : List Iv) (a b : Int) : Except CErr (List Iv) :=
  match rangeGet l a (b + 1 - a).toNat with
  | some xs => .ok xs
  | none => .error .index

def misalignmentSet (p : CParams) : List MatchEventSubtype :=
  (if p.fl.intron_shifts then [MatchEventSubtype.intron_shift] else []) ++
  (if p.fl.skipped_exons then [MatchEventSubtype.exon_misalignment] else [])

/-- the last two branches of the event chain: "add corrected read intron" / "add as is" -/
def keepStep (readIntrons corrected : List Iv) (e : MEvent) (reg : Iv) (acc : List Iv) : Except CErr (Iv × List Iv) :=
  if corrector_known_event_types.contains e.etype then
    match sliceIncl corrected e.read.1 e.read.2 with
    | .ok xs => .ok (reg, acc ++ xs)
    | .error x => .error x
  else
    match sliceIncl readIntrons e.read.1 e.read.2 with
    | .ok xs => .ok (reg, acc ++ xs)
    | .error x => .error x

/-- the if/elif chain on `event = event_map[i]`: returns the new `corrected_read_region` and `new_introns` -/
def eventStep (p : CParams) (readRegion : Iv) (readIntrons corrected : List Iv) (isoRegion : Iv)
    (isoIntrons : List Iv) (e : MEvent) (reg : Iv) (acc : List Iv) : Except CErr (Iv × List Iv) :=
  if e.etype = MatchEventSubtype.fake_terminal_exon_left ∧ p.fl.fake_terminal_exons then
    if e.read.1 ≠ e.read.2 then .error .assertion
    else match pyGet? readIntrons e.read.1 with
      | none => .error .index
      | some x => .ok ((x.2 + 1, reg.2), acc)
  else if e.etype = MatchEventSubtype.fake_terminal_exon_right ∧ p.fl.fake_terminal_exons then
    if e.read.1 ≠ e.read.2 then .error .assertion
    else match pyGet? readIntrons e.read.1 with
      | none => .error .index
      | some x => .ok ((reg.1, x.1 - 1), acc)
  else if e.etype = MatchEventSubtype.terminal_exon_misalignment_left ∧ p.fl.terminal_exons then
    match pyGet? isoIntrons e.iso.1 with
    | none => .error .index
    | some x => .ok ((isoRegion.1, reg.2), acc ++ [x])
  else if e.etype = MatchEventSubtype.terminal_exon_misalignment_right ∧ p.fl.terminal_exons then
    match pyGet? isoIntrons e.iso.1 with
    | none => .error .index
    | some x => .ok ((reg.1, isoRegion.2), acc ++ [x])
  else if (misalignmentSet p).contains e.etype then
    match pyGet? isoIntrons e.iso.1, pyGet? isoIntrons e.iso.2 with
    | some a, some b =>
      if contains_well_inside readRegion (a.1, b.2) p.delta then
        if e.read.1 ≠ e.read.2 then .error .assertion
        else match sliceIncl isoIntrons e.iso.1 e.iso.2 with
          | .ok xs => .ok (reg, acc ++ xs)
          | .error x => .error x
      else keepStep readIntrons corrected e reg acc
    | _, _ => .error .index
  else keepStep readIntrons corrected e reg acc

/-- `retained_micro_introns.get(i, [])`: the isoform intron indices bound to read exon `i`, in event order -/
def microAt (mm : List (Int × Int)) (i : Int) : List Int := (mm.filter (fun q => q.1 == i)).map (·.2)

/-- `[l[j] for j in js]`; `none` = IndexError -/
def getAll (l : List Iv) : List Int → Option (List Iv)
  | [] => some []
  | j :: js =>
    match pyGet? l j, getAll l js with
    | some x, some xs => some (x :: xs)
    | _, _ => none

/-- "special case for fake IR" (repaired code): every micro intron of the isoform retained in the read exon that
    precedes read intron `i` (`i = len(read_introns)`: the last exon) is restored -/
def microStep (mm : List (Int × Int)) (isoIntrons : List Iv) (i : Int) (acc : List Iv) : Except CErr (List Iv) :=
  match getAll isoIntrons (microAt mm i) with
  | none => .error .index
  | some xs => .ok (acc ++ xs)

/-- `while i < len(corrected_introns)` + the step for the last read exon after the loop;
    state = (i, corrected_read_region, new_introns) -/
def eventLoop (p : CParams) (emap : List (Int × MEvent)) (mm : List (Int × Int)) (readRegion : Iv)
    (readIntrons corrected : List Iv) (isoRegion : Iv) (isoIntrons : List Iv) :
    Nat → Int → Iv → List Iv → Except CErr (Iv × List Iv)
  | 0, _, _, _ => .error .fuel
  | fuel + 1, i, reg, acc =>
    if i < (corrected.length : Int) then
      match microStep mm isoIntrons i acc with
      | .error x => .error x
      | .ok acc1 =>
        match emap.lookup i with
        | none =>
          match pyGet? corrected i with
          | none => .error .index
          | some c => eventLoop p emap mm readRegion readIntrons corrected isoRegion isoIntrons fuel (i + 1) reg (acc1 ++ [c])
        | some e =>
          match eventStep p readRegion readIntrons corrected isoRegion isoIntrons e reg acc1 with
          | .error x => .error x
          | .ok (reg', acc2) =>
            eventLoop p emap mm readRegion readIntrons corrected isoRegion isoIntrons fuel (e.read.2 + 1) reg' acc2
    else
      match microStep mm isoIntrons (corrected.length : Int) acc with
      | .error x => .error x
      | .ok acc1 => .ok (reg, acc1)

/-- the code BEFORE the repair (kept for the `…_witness` theorems): the dict key `-k-1` held ONE event (the last
    one assigned: `microAtOld`), and the key of the last read exon (`k = len(read_introns)`) was never looked up
    (no step after the loop) -/
def microAtOld (mm : List (Int × Int)) (i : Int) : List Int := (microAt mm i).getLast?.toList

def microStepOld (mm : List (Int × Int)) (isoIntrons : List Iv) (i : Int) (acc : List Iv) : Except CErr (List Iv) :=
  match getAll isoIntrons (microAtOld mm i) with
  | none => .error .index
  | some xs => .ok (acc ++ xs)

def eventLoopOld (p : CParams) (emap : List (Int × MEvent)) (mm : List (Int × Int)) (readRegion : Iv)
    (readIntrons corrected : List Iv) (isoRegion : Iv) (isoIntrons : List Iv) :
    Nat → Int → Iv → List Iv → Except CErr (Iv × List Iv)
  | 0, _, _, _ => .error .fuel
  | fuel + 1, i, reg, acc =>
    if i < (corrected.length : Int) then
      match microStepOld mm isoIntrons i acc with
      | .error x => .error x
      | .ok acc1 =>
        match emap.lookup i with
        | none =>
          match pyGet? corrected i with
          | none => .error .index
          | some c => eventLoopOld p emap mm readRegion readIntrons corrected isoRegion isoIntrons fuel (i + 1) reg (acc1 ++ [c])
        | some e =>
          match eventStep p readRegion readIntrons corrected isoRegion isoIntrons e reg acc1 with
          | .error x => .error x
          | .ok (reg', acc2) =>
            eventLoopOld p emap mm readRegion readIntrons corrected isoRegion isoIntrons fuel (e.read.2 + 1) reg' acc2
    else .ok (reg, acc)

/-- enough fuel for every terminating run: an iteration without an event needs `-len ≤ i < len`, an iteration
    with an event uses one key of the map; a longer run revisits a value of `i` and never ends -/
def eventFuel (emap : List (Int × MEvent)) (corrected : List Iv) : Nat := 2 * corrected.length + emap.length + 2

/-- `process_events` -/
def processEvents (p : CParams) (err : Nat → Bool → Int × Int) (known : List Iv) (emap : List (Int × MEvent))
    (mm : List (Int × Int)) (readRegion : Iv) (readIntrons : List Iv) (isoRegion : Iv) (isoIntrons : List Iv) :
    Except CErr (Iv × List Iv) :=
  let corrected := correctedIntrons p err known readIntrons
  eventLoop p emap mm readRegion readIntrons corrected isoRegion isoIntrons (eventFuel emap corrected) 0 readRegion []

/-- `process_events` before the repair (micro-intron restoration: one per read exon, never in the last exon) -/
def processEventsOld (p : CParams) (err : Nat → Bool → Int × Int) (known : List Iv) (emap : List (Int × MEvent))
    (mm : List (Int × Int)) (readRegion : Iv) (readIntrons : List Iv) (isoRegion : Iv) (isoIntrons : List Iv) :
    Except CErr (Iv × List Iv) :=
  let corrected := correctedIntrons p err known readIntrons
  eventLoopOld p emap mm readRegion readIntrons corrected isoRegion isoIntrons (eventFuel emap corrected) 0 readRegion []

/-! ### `correct_assigned_read` -/

/-- exon list from the corrected region and the new introns -/
def buildExons (reg : Iv) (ni : List Iv) : List Iv :=
  match ni.head?, ni.getLast? with
  | some f, some l => (reg.1, f.1 - 1) :: (junctionsFromBlocks ni ++ [(l.2 + 1, reg.2)])
  | _, _ => [reg]

/-- second conjunct of `is_valid_exon_chain`: every exon ends before the next one starts -/
def chainSorted : List Iv → Bool
  | [] => true
  | [_] => true
  | a :: b :: t => decide (a.2 < b.1) && chainSorted (b :: t)

/-- `ExonCorrector.is_valid_exon_chain` -/
def validChain (exons : List Iv) : Bool :=
  exons.all (fun e => decide (e.1 ≤ e.2)) && chainSorted exons

/-- second conjunct of `ExonCorrector.is_valid_intron_chain`: at least one exon base between consecutive introns -/
def intronsSpaced : List Iv → Bool
  | [] => true
  | [_] => true
  | a :: b :: t => decide (a.2 + 1 < b.1) && intronsSpaced (b :: t)

/-- `ExonCorrector.is_valid_intron_chain` (repair `fix_corrector_closed_intron`, builder c19x): non-empty introns with
    at least one exon base between consecutive ones; tested BEFORE the new introns reach `junctions_from_blocks` -/
def validIntronChain (introns : List Iv) : Bool :=
  introns.all (fun i => decide (i.1 ≤ i.2)) && intronsSpaced introns

/-- `correct_assigned_read`.  `events = none` ⇔ `not read_assignment.isoform_matches`; otherwise the events of
    `isoform_matches[0]`.  `read_introns` / `read_start` / `read_end` are what `AlignmentInfo` and
    `construct_intron_profile` derive from `read_exons`.  A correction that does not yield a valid exon chain is
    discarded (the read's own exons are returned); so is one whose new introns are not a valid intron chain (an empty
    intron, or two introns closing the exon between them: `validIntronChain`). -/
def correctAssignedRead (p : CParams) (err : Nat → Bool → Int × Int) (known : List Iv) (noninformative : Bool)
    (events : Option (List MEvent)) (isoRegion : Iv) (isoIntrons : List Iv) (exons : List Iv) :
    Except CErr (List Iv) :=
  match events with
  | none => .ok exons
  | some evs =>
    if exons.length = 1 ∨ noninformative then .ok exons
    else
      match exons.head?, exons.getLast? with
      | some f, some l =>
        let emap := buildEventMap evs
        let mm := buildMicroMap p.fl.microintron_retention evs
        match processEvents p err known emap mm (f.1, l.2) (junctionsFromBlocks exons) isoRegion isoIntrons with
        | .error x => .error x
        | .ok (reg, ni) => if validIntronChain ni && validChain (buildExons reg ni) then .ok (buildExons reg ni) else .ok exons
      | _, _ => .error .index

/-- `correct_assigned_read` before the micro-intron repair (`processEventsOld`): kept for the `…_witness` theorems -/
def correctAssignedReadOld (p : CParams) (err : Nat → Bool → Int × Int) (known : List Iv) (noninformative : Bool)
    (events : Option (List MEvent)) (isoRegion : Iv) (isoIntrons : List Iv) (exons : List Iv) :
    Except CErr (List Iv) :=
  match events with
  | none => .ok exons
  | some evs =>
    if exons.length = 1 ∨ noninformative then .ok exons
    else
      match exons.head?, exons.getLast? with
      | some f, some l =>
        let emap := buildEventMap evs
        let mm := buildMicroMap p.fl.microintron_retention evs
        match processEventsOld p err known emap mm (f.1, l.2) (junctionsFromBlocks exons) isoRegion isoIntrons with
        | .error x => .error x
        | .ok (reg, ni) => if validChain (buildExons reg ni) then .ok (buildExons reg ni) else .ok exons
      | _, _ => .error .index

/-- the code before the `fix:` commit (no validity gate): kept for the regression witness -/
def correctAssignedReadBuggy (p : CParams) (err : Nat → Bool → Int × Int) (known : List Iv) (noninformative : Bool)
    (events : Option (List MEvent)) (isoRegion : Iv) (isoIntrons : List Iv) (exons : List Iv) :
    Except CErr (List Iv) :=
  match events with
  | none => .ok exons
  | some evs =>
    if exons.length = 1 ∨ noninformative then .ok exons
    else
      match exons.head?, exons.getLast? with
      | some f, some l =>
        let emap := buildEventMap evs
        let mm := buildMicroMap p.fl.microintron_retention evs
        match processEvents p err known emap mm (f.1, l.2) (junctionsFromBlocks exons) isoRegion isoIntrons with
        | .error x => .error x
        | .ok (reg, ni) => .ok (buildExons reg ni)
      | _, _ => .error .index

end IsoVerif.Model.C14
