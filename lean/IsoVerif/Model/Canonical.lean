/-
Hand-written executable model of the canonical-site / strand code of /repo (property C18):

  src/common.py          get_intron_strand, get_strand            (tables: IsoVerif/Gen/Constants.lean, generated)
  src/gene_info.py       StrandDetector (set_strand, count_canonical_sites, get_clean_strand, get_strand)
  src/assignment_io.py   IOSupport.check_sites_are_canonical (memo `gene_info.canonical_sites` as explicit state),
                         add_canonical_info_for_model / add_canonical_info, the Canonical field of a read line
  src/alignment_processor.py   AlignmentCollector.get_assignment_strand
  src/graph_based_model_construction.py   the strand decision / reporting filter of novel models in
                         construct_fl_isoforms, select_reference_gene
  src/gene_info.py       GeneInfo.set_gene_attributes (transcript level; skip lists: IsoVerif/Gen/GeneAttributes.lean, generated),
                         TranscriptModel.additional_info (OrderedDict)
  src/transcript_printer.py   the attribute list of the transcript line written by GFFPrinter.dump

Core Lean only.  A reference sequence is a `List Char`; Python `str` slicing (negative indices, clamping) is
`pySlice`.  Dicts are association lists whose newest entry wins (`List.lookup`), mutation through
`self`/`gene_info` is a returned state.  The strand argument is one of '+', '-', '.'.
-/
import IsoVerif.Gen.Constants
import IsoVerif.Gen.GeneAttributes
import IsoVerif.Model.Interval

namespace IsoVerif.Model.C18
open IsoVerif.Gen IsoVerif.Model

inductive Strand where
  | plus
  | minus
  | dot
  deriving DecidableEq, Repr, Inhabited

def Strand.toStr : Strand → String
  | .plus => "+"
  | .minus => "-"
  | .dot => "."

abbrev Seq := List Char
/-- (left dinucleotide, right dinucleotide); "left site always first" -/
abbrev Site := List Char × List Char

-- Python `s[a:b]` on `str` is `pySlice` of IsoVerif/Model/Interval.lean (negative indices wrap, bounds clamp)

/-- the two slices every function of the cone takes: `s[l:l+2]`, `s[r-1:r+1]` with `l = intron[0] - start`,
    `r = intron[1] - start` (no case folding) -/
def siteRaw (s : Seq) (start : Int) (it : Iv) : Site :=
  let l := it.1 - start
  let r := it.2 - start
  (pySlice s l (l + 2), pySlice s (r - 1) (r + 1))

/-- `.upper()` of both sites (ASCII) -/
def upperSite (p : Site) : Site := (p.1.map Char.toUpper, p.2.map Char.toUpper)

/-- the generated tables as character lists -/
def fwdSites : List Site := CANONICAL_FWD_SITES.map fun p => (p.1.toList, p.2.toList)
def revSites : List Site := CANONICAL_REV_SITES.map fun p => (p.1.toList, p.2.toList)

def isFwd (p : Site) : Bool := fwdSites.contains p
def isRev (p : Site) : Bool := revSites.contains p

/-! ### src/common.py -/

/-- `get_intron_strand(intron, reference_region, ref_region_start=1)` -/
def getIntronStrand (it : Iv) (s : Seq) (start : Int := 1) : Strand :=
  let p := upperSite (siteRaw s start it)
  let isF := isFwd p
  let isR := isRev p
  if isF = isR then .dot
  else if isF then .plus else .minus

/-- the loop of `common.get_strand` (note: no `.upper()` there) with its two counters -/
def commonCountLoop (s : Seq) (start : Int) : List Iv → Nat → Nat → Nat × Nat
  | [], f, r => (f, r)
  | it :: rest, f, r =>
    let p := siteRaw s start it
    commonCountLoop s start rest (f + if isFwd p then 1 else 0) (r + if isRev p then 1 else 0)

/-- `get_strand(introns, reference_region, ref_region_start=1)` of src/common.py -/
def commonGetStrand (introns : List Iv) (s : Seq) (start : Int := 1) : Strand :=
  if introns.length = 0 then .dot
  else
    let c := commonCountLoop s start introns 0 0
    if c.1 = c.2 then .dot
    else if c.2 < c.1 then .plus else .minus

/-! ### src/gene_info.py  StrandDetector -/

/-- `self.strand_dict` -/
abbrev StrandDict := List (Iv × Strand)

/-- `set_strand(intron, strand=None)` (a chromosome record is always present: `--reference` is mandatory) -/
def setStrand (seq : Seq) (σ : StrandDict) (it : Iv) : Option Strand → StrandDict
  | some st => (it, st) :: σ
  | none => (it, getIntronStrand it seq) :: σ

/-- the loop of `count_canonical_sites` -/
def countLoop (seq : Seq) : List Iv → StrandDict → Nat → Nat → (Nat × Nat) × StrandDict
  | [], σ, f, r => ((f, r), σ)
  | it :: rest, σ, f, r =>
    match σ.lookup it with
    | some st =>
      countLoop seq rest σ (f + if st = .plus then 1 else 0) (r + if st = .minus then 1 else 0)
    | none =>
      let st := getIntronStrand it seq
      countLoop seq rest ((it, st) :: σ) (f + if st = .plus then 1 else 0) (r + if st = .minus then 1 else 0)

def countCanonicalSites (seq : Seq) (introns : List Iv) (σ : StrandDict) : (Nat × Nat) × StrandDict :=
  countLoop seq introns σ 0 0

/-- the decision of `get_clean_strand` on the two counts -/
def cleanOf (f r : Nat) : Strand :=
  if f = 0 ∧ r > 0 then .minus
  else if f > 0 ∧ r = 0 then .plus
  else .dot

def getCleanStrand (seq : Seq) (introns : List Iv) (σ : StrandDict) : Strand × StrandDict :=
  let c := countCanonicalSites seq introns σ
  (cleanOf c.1.1 c.1.2, c.2)

/-- the decision of `StrandDetector.get_strand` on the two counts and the tail flags -/
def voteOf (f r : Nat) (hasPolyA hasPolyT : Bool) : Strand :=
  if f = r then
    if hasPolyA && !hasPolyT then .plus
    else if hasPolyT && !hasPolyA then .minus
    else .dot
  else if r < f then .plus else .minus

def detGetStrand (seq : Seq) (introns : List Iv) (hasPolyA hasPolyT : Bool) (σ : StrandDict) : Strand × StrandDict :=
  let c := countCanonicalSites seq introns σ
  (voteOf c.1.1 c.1.2 hasPolyA hasPolyT, c.2)

/-! ### src/alignment_processor.py  AlignmentCollector.get_assignment_strand -/

/-- the fields of a `ReadAssignment` the function reads -/
structure ReadStrandInfo where
  matchStrands : List Strand              -- `transcript_strand` of `isoform_matches`, in order
  atype : String                          -- `assignment_type.name`
  extPolyA : Int
  intPolyA : Int
  extPolyT : Int
  intPolyT : Int
  nExons : Nat                            -- `len(read_assignment.exons)`
  correctedIntrons : List Iv

def ReadStrandInfo.hasPolyA (ra : ReadStrandInfo) : Bool := ra.extPolyA != -1 || ra.intPolyA != -1
def ReadStrandInfo.hasPolyT (ra : ReadStrandInfo) : Bool := ra.extPolyT != -1 || ra.intPolyT != -1

/-- `isoform_matches[0].transcript_strand` when `isoform_matches` is non-empty and the assignment type is
    `unique` / `unique_minor_difference` (the first `if` of the function) -/
def ReadStrandInfo.uniqueMatchStrand (ra : ReadStrandInfo) : Option Strand :=
  match ra.matchStrands with
  | [] => none
  | ms :: _ => if ra.atype = "unique" ∨ ra.atype = "unique_minor_difference" then some ms else none

/-- the rest of the function: tails only for a mono-exonic read, the detector's vote otherwise -/
def strandViaSites (seq : Seq) (ra : ReadStrandInfo) (σ : StrandDict) : Strand × StrandDict :=
  if ra.nExons = 1 then
    (if ra.hasPolyA && !ra.hasPolyT then .plus
     else if ra.hasPolyT && !ra.hasPolyA then .minus
     else .dot, σ)
  else detGetStrand seq ra.correctedIntrons ra.hasPolyA ra.hasPolyT σ

def getAssignmentStrand (seq : Seq) (ra : ReadStrandInfo) (σ : StrandDict) : Strand × StrandDict :=
  match ra.uniqueMatchStrand with
  | some ms => (ms, σ)
  | none => strandViaSites seq ra σ

/-! ### src/assignment_io.py  IOSupport -/

/-- the fields of `gene_info` the canonical test reads: `reference_region` (`[]` stands for `None`/`''`, both falsy)
    and `all_read_region_start` -/
structure GeneRef where
  refRegion : Seq
  start : Int

/-- `GeneInfo.set_reference_sequence(start, end, chr_record)`: `all_read_region_start = max(1, start)` (a read cluster
    that begins at the first base of a contig has the 0-based start 0), the slice
    `chr_record[all_read_region_start-1:end]` and a fresh memo -/
def setReferenceSequence (chr : Seq) (start end_ : Int) : GeneRef × List ((Iv × Strand) × Bool) :=
  let s := max 1 start
  ({ refRegion := pySlice chr (s - 1) end_, start := s }, [])

/-- before the clamp: for `start ≤ 0` the slice start `start - 1` is negative, Python counts it from the end of the
    chromosome and the region comes out empty (no Canonical flag at all for that locus) -/
def setReferenceSequenceNoClamp (chr : Seq) (start end_ : Int) : GeneRef × List ((Iv × Strand) × Bool) :=
  ({ refRegion := pySlice chr (start - 1) end_, start := start }, [])

/-! ### the reference window of a gene region loaded from the save file (second pass)

`NormalTmpFileAssignmentLoader.get_object` loads the window `(gene_info.start, gene_info.end)` of the saved header — for a
genic region that is the GENE span, not the span of the reads — and `ReadAssignmentLoader.get_next` (fix: widen the window)
then makes it cover every read it hands on: `extend_reference_region`. -/

/-- what the window computation reads of a loaded read assignment -/
structure ReadSpan where
  exons : List Iv
  correctedExons : List Iv
  deriving Repr, DecidableEq

/-- `if exons: region_start = min(region_start, exons[0][0]); region_end = max(region_end, exons[-1][1])` -/
def widenBy (w : Iv) (ex : List Iv) : Iv :=
  match ex.head?, ex.getLast? with
  | some f, some l => (min w.1 f.1, max w.2 l.2)
  | _, _ => w

/-- the loop of `extend_reference_region` over the assignment storage -/
def extendedWindow (w : Iv) (reads : List ReadSpan) : Iv :=
  reads.foldl (fun w r => widenBy (widenBy w r.exons) r.correctedExons) w

/-- the loaded `gene_info` of a region whose header says `hdr = (start, end)` and whose kept reads are `reads`:
    `get_object` sets the header window (clamped at 1), `extend_reference_region` re-loads a wider one when a read
    reaches beyond it.  `flank` = `ReadAssignmentLoader.reference_flank` (`upstream_region_len` with `--sqanti_output`,
    else 0): the window is widened by `flank` bases on either side of the reads (the SQANTI-like table reads that many
    bases beyond the 3' end of a transcript model); nothing is done for a region without kept reads -/
def loadRegion (chr : Seq) (hdr : Iv) (reads : List ReadSpan) (flank : Int := 0) : GeneRef × List ((Iv × Strand) × Bool) :=
  let w0 : Iv := (max 1 hdr.1, hdr.2)
  let w := extendedWindow w0 reads
  if reads.isEmpty then setReferenceSequence chr hdr.1 hdr.2          -- `if ... not assignment_storage: return`
  else if w.1 - flank < w0.1 ∨ w.2 + flank > w0.2 then setReferenceSequence chr (w.1 - flank) (w.2 + flank)
  else setReferenceSequence chr hdr.1 hdr.2

/-- before the fix: the header window, whatever the reads -/
def loadRegionOrig (chr : Seq) (hdr : Iv) (_reads : List ReadSpan) : GeneRef × List ((Iv × Strand) × Bool) :=
  setReferenceSequence chr hdr.1 hdr.2

/-- `gene_info.canonical_sites` after the `fix:` commits (key = (intron, strand)) -/
abbrev CanonMemo := List ((Iv × Strand) × Bool)

/-- the value stored on a memo miss -/
def canonCompute (g : GeneRef) (it : Iv) (st : Strand) : Bool :=
  let p := upperSite (siteRaw g.refRegion g.start it)
  if st = .plus then isFwd p else isRev p

/-- the loop of `check_sites_are_canonical(read_introns, gene_info, strand)` for a strand `+` / `-`; returns the answer and
    the memo afterwards.  (Before the repair of the unknown strand this loop was the whole function: `.` went through the
    `else` of `canonCompute`, i.e. was looked up as `-`; kept under the name `checkSitesOrig`.) -/
def checkSitesStrand (g : GeneRef) : List Iv → Strand → CanonMemo → Bool × CanonMemo
  | [], _, σ => (true, σ)
  | it :: rest, st, σ =>
    match σ.lookup (it, st) with
    | some v =>
      if v then checkSitesStrand g rest st σ else (false, σ)
    | none =>
      let v := canonCompute g it st
      if v then checkSitesStrand g rest st (((it, st), v) :: σ) else (false, ((it, st), v) :: σ)

/-- `check_sites_are_canonical(read_introns, gene_info, strand)`: for the unknown strand `.` the answer is
    `check(…, '+') or check(…, '-')` (Python `or`: the `-` pass runs only when the `+` pass answered False); nothing is
    stored under the key `.` -/
def checkSites (g : GeneRef) (introns : List Iv) (st : Strand) (σ : CanonMemo) : Bool × CanonMemo :=
  if st = .dot then
    let r1 := checkSitesStrand g introns .plus σ
    if r1.1 then (true, r1.2) else checkSitesStrand g introns .minus r1.2
  else checkSitesStrand g introns st σ

/-- the function before the repair: the unknown strand `.` was looked up as `-` (and stored under the key `.`) -/
def checkSitesOrig (g : GeneRef) (introns : List Iv) (st : Strand) (σ : CanonMemo) : Bool × CanonMemo :=
  checkSitesStrand g introns st σ

/-- a history of queries against one `gene_info` (reads and models of one locus, in processing order) -/
def runQueries (g : GeneRef) : List (List Iv × Strand) → CanonMemo → List Bool × CanonMemo
  | [], σ => ([], σ)
  | q :: qs, σ =>
    let r := checkSites g q.1 q.2 σ
    let rs := runQueries g qs r.2
    (r.1 :: rs.1, rs.2)

/-! the code before the two `fix:` commits (kept for the regression witnesses) -/

abbrev CanonMemoBuggy := List (Iv × Bool)

/-- before 35f57f0: no case folding -/
def canonComputeNoUpper (g : GeneRef) (it : Iv) (st : Strand) : Bool :=
  let p := siteRaw g.refRegion g.start it
  if st = .plus then isFwd p else isRev p

/-- before 29fb9df: memo keyed by the intron only (case folding as in the current code) -/
def checkSitesBuggy (g : GeneRef) : List Iv → Strand → CanonMemoBuggy → Bool × CanonMemoBuggy
  | [], _, σ => (true, σ)
  | it :: rest, st, σ =>
    match σ.lookup it with
    | some v =>
      if v then checkSitesBuggy g rest st σ else (false, σ)
    | none =>
      let v := canonCompute g it st
      if v then checkSitesBuggy g rest st ((it, v) :: σ) else (false, (it, v) :: σ)

def runQueriesBuggy (g : GeneRef) : List (List Iv × Strand) → CanonMemoBuggy → List Bool × CanonMemoBuggy
  | [], σ => ([], σ)
  | q :: qs, σ =>
    let r := checkSitesBuggy g q.1 q.2 σ
    let rs := runQueriesBuggy g qs r.2
    (r.1 :: rs.1, rs.2)

/-- Python `str(bool)` -/
def boolStr (b : Bool) : String := if b then "True" else "False"

/-- the fields of a `TranscriptModel` used by `add_canonical_info_for_model` -/
structure TModel where
  exons : List Iv
  strand : Strand
  canonicalAttr : Option String           -- `additional_info.get('Canonical')`
  deriving Repr

/-- `add_canonical_info_for_model(model, gene_info)` -/
def addCanonicalInfoForModel (g : GeneRef) (m : TModel) (σ : CanonMemo) : TModel × CanonMemo :=
  if g.refRegion.isEmpty then (m, σ)
  else if m.canonicalAttr.isSome then (m, σ)
  else
    let introns := junctionsFromBlocks m.exons
    if introns.length = 0 then ({ m with canonicalAttr := some "Unspliced" }, σ)
    else
      let r := checkSites g introns m.strand σ
      ({ m with canonicalAttr := some (boolStr r.1) }, r.2)

/-- `add_canonical_info(model_storage, gene_info)` -/
def addCanonicalInfo (g : GeneRef) : List TModel → CanonMemo → List TModel × CanonMemo
  | [], σ => ([], σ)
  | m :: ms, σ =>
    let r := addCanonicalInfoForModel g m σ
    let rs := addCanonicalInfo g ms r.2
    (r.1 :: rs.1, rs.2)

/-- the `Canonical=` field of one line of `BasicTSVAssignmentPrinter.add_read_info` (`none`: field not printed) -/
def readCanonicalField (checkCanonical : Bool) (g : GeneRef) (readExons : List Iv) (strand : Strand) (σ : CanonMemo) :
    Option String × CanonMemo :=
  if checkCanonical && !g.refRegion.isEmpty then
    let introns := junctionsFromBlocks readExons
    if introns.length = 0 then (some "Unspliced", σ)
    else
      let r := checkSites g introns strand σ
      (some (boolStr r.1), r.2)
  else (none, σ)

/-! ### the downstream-A window of the SQANTI-like table (`perc_A_downstream_TTS`, `seq_A_downstream_TTS`) -/

/-- `IOSupport.check_downstream_polya(read_coords, gene_info, strand)` for a strand `+` / `-`, first component: the slice of
    the loaded region as it reads on the forward strand — the `n = upstream_region_len` bases behind the last base for
    `+`, before the first base for `-` (slice start clamped at 0: fewer than `n` bases before the transcript) -/
def downstreamSeq (g : GeneRef) (coords : Iv) (st : Strand) (n : Int) : Seq :=
  if st = .plus then
    let e := coords.2 - g.start + 1
    pySlice g.refRegion e (e + n)
  else
    let s := coords.1 - g.start
    pySlice g.refRegion (max 0 (s - n)) (max 0 s)

/-- before the repair: no clamp, a negative slice start is counted from the end of the loaded region -/
def downstreamSeqOrig (g : GeneRef) (coords : Iv) (st : Strand) (n : Int) : Seq :=
  if st = .plus then
    let e := coords.2 - g.start + 1
    pySlice g.refRegion e (e + n)
  else
    let s := coords.1 - g.start
    pySlice g.refRegion (s - n) s

/-- second component, numerator of `a_percentage` (denominator `n`): `seq.upper().count('A')` for `+`, `count('T')` for `-` -/
def downstreamCount (seq : Seq) (st : Strand) : Nat :=
  (seq.map Char.toUpper).count (if st = .plus then 'A' else 'T')

/-- the two columns as `SqantiTSVPrinter.add_read_info` fills them: `none` = `NA` (no reference region, or unknown strand:
    a transcript of strand `.` has no known 3' end), else (sequence, count of A / T; the printed percentage is count / n) -/
def sqantiDownstream (g : GeneRef) (coords : Iv) (st : Strand) (n : Int) : Option (Seq × Nat) :=
  if g.refRegion.isEmpty then none
  else if st = .dot then none
  else
    let s := downstreamSeq g coords st n
    some (s, downstreamCount s st)

/-- before the two repairs: `.` taken as `-`, no clamp -/
def sqantiDownstreamOrig (g : GeneRef) (coords : Iv) (st : Strand) (n : Int) : Option (Seq × Nat) :=
  if g.refRegion.isEmpty then none
  else
    let s := downstreamSeqOrig g coords st n
    some (s, downstreamCount s st)

/-- the `all_canonical` column of the same row: `NA` without reference region, else `str(check_sites_are_canonical(...))`
    (a mono-exonic model has no intron: `True`) -/
def sqantiAllCanonical (g : GeneRef) (exons : List Iv) (st : Strand) (σ : CanonMemo) : Option String × CanonMemo :=
  if g.refRegion.isEmpty then (none, σ)
  else
    let r := checkSites g (junctionsFromBlocks exons) st σ
    (some (boolStr r.1), r.2)

/-! ### the attribute list of a printed transcript line

`GFFPrinter.dump` writes `gene_id "g"; transcript_id "t"; ` + the model's own `additional_info` (an `OrderedDict`:
`Canonical` from `add_canonical_info_for_model`, `exons` from `dump`, `similar_reference_id` / `alternatives` from the model
constructor) + `gene_info.feature_attributes[t]`, the text `GeneInfo.set_gene_attributes` builds from the attributes of the
REFERENCE transcript with that id: every attribute that is not in a fixed skip list, first value only. -/

/-- an attribute list as it is printed: `key "value";` items in line order -/
abbrev AttrList := List (String × String)

/-- the attributes of a reference feature as gffutils hands them on: key → list of values (keys in line order, the values
    of a repeated key collected under its first occurrence; an empty list for `key "";`) -/
abbrev RefAttrs := List (String × List String)

/-- `attribute in self.additional_info` (`TranscriptModel.check_additional`) -/
def checkAdditional (info : AttrList) (k : String) : Bool := info.any fun e => e.1 == k

/-- `self.additional_info[attribute] = value` on an `OrderedDict`: an existing key keeps its place -/
def setAttr : AttrList → String → String → AttrList
  | [], k, v => [(k, v)]
  | e :: rest, k, v => if e.1 = k then (k, v) :: rest else e :: setAttr rest k v

/-- the fields of a `TranscriptModel` the GTF printer and `add_canonical_info_for_model` read -/
structure PModel where
  geneId : String
  transcriptId : String
  exons : List Iv
  strand : Strand
  info : AttrList                         -- `additional_info.items()`
  deriving Repr

/-- `add_canonical_info_for_model(model, gene_info)` on the whole `additional_info` -/
def addCanonicalInfoForModelP (g : GeneRef) (m : PModel) (σ : CanonMemo) : PModel × CanonMemo :=
  if g.refRegion.isEmpty then (m, σ)
  else if checkAdditional m.info CANONICAL_KEY then (m, σ)
  else
    let introns := junctionsFromBlocks m.exons
    if introns.length = 0 then ({ m with info := setAttr m.info CANONICAL_KEY "Unspliced" }, σ)
    else
      let r := checkSites g introns m.strand σ
      ({ m with info := setAttr m.info CANONICAL_KEY (boolStr r.1) }, r.2)

/-- the transcript-level loop of `GeneInfo.set_gene_attributes`: `for attr in t.attributes.keys(): if attr in SKIP: continue;
    if t.attributes[attr]: feature_attributes[t.id] += '%s "%s"; ' % (attr, t.attributes[attr][0])` -/
def copyLoop (skip : List String) : RefAttrs → AttrList
  | [] => []
  | (k, vs) :: rest =>
    if skip.contains k then copyLoop skip rest
    else match vs with
      | [] => copyLoop skip rest
      | v :: _ => (k, v) :: copyLoop skip rest

/-- the attribute column of the transcript line of `GFFPrinter.dump`; `ref` = the attributes of the reference transcript
    whose id is the model's id (`none`: no such reference transcript in this `gene_info`) -/
def transcriptLineAttrs (skip : List String) (m : PModel) (ref : Option RefAttrs) : AttrList :=
  let info := if checkAdditional m.info EXONS_KEY then m.info else setAttr m.info EXONS_KEY (toString m.exons.length)
  [("gene_id", m.geneId), ("transcript_id", m.transcriptId)] ++ info ++
    (match ref with
     | none => []
     | some r => copyLoop skip r)

/-- one model through `add_canonical_info` (iff `--check_canonical`) and `dump` -/
def printTranscriptLine (skip : List String) (check : Bool) (g : GeneRef) (m : PModel) (ref : Option RefAttrs)
    (σ : CanonMemo) : AttrList × CanonMemo :=
  let r := if check then addCanonicalInfoForModelP g m σ else (m, σ)
  (transcriptLineAttrs skip r.1 ref, r.2)

/-- `add_canonical_info(storage, gene_info)` (iff `--check_canonical`) followed by `dump(gene_info, storage)`: the attribute
    lists of the transcript lines of a whole model storage, one memo -/
def printStorage (skip : List String) (check : Bool) (g : GeneRef) :
    List (PModel × Option RefAttrs) → CanonMemo → List AttrList × CanonMemo
  | [], σ => ([], σ)
  | m :: ms, σ =>
    let r := printTranscriptLine skip check g m.1 m.2 σ
    let rs := printStorage skip check g ms r.2
    (r.1 :: rs.1, rs.2)

/-- the transcript skip list before `Canonical` was added to it -/
def transcriptSkipOrig : List String := TRANSCRIPT_ATTR_SKIP.filter fun k => k != CANONICAL_KEY

/-! ### src/graph_based_model_construction.py  strand of a novel model in construct_fl_isoforms -/

/-- `StrandnessReportingLevel` after `auto` has been resolved by isoquant.py -/
inductive ReportLevel where
  | only_canonical
  | only_stranded
  | all
  deriving DecidableEq, Repr, Inhabited

/-- `select_reference_gene`: `cands` = `ordered_genes` with the strand of each gene -/
def selectReferenceGene (cands : List (String × Strand)) (st : Strand) : Option (String × Strand) :=
  cands.find? fun g => st = .dot ∨ g.2 = st

structure NovelParams where
  minNovelCount : Int
  requireMonointronicPolya : Bool
  level : ReportLevel

/-- The novel branch of `construct_fl_isoforms` up to the strand of the new `TranscriptModel`:
    `none` = the path is not reported (low count, unreliable mono-intron, reporting level);
    `some s` = a model with strand `s` is built (technical-replica suspension aside). -/
def novelModelStrand (seq : Seq) (prm : NovelParams) (count : Int) (range : Iv) (intronPath : List Iv)
    (hasPolyA hasPolyT : Bool) (cands : List (String × Strand)) (σ : StrandDict) : Option Strand × StrandDict :=
  if intronPath.isEmpty then (none, σ) else               -- `if not intron_path: continue`
  let nExons := (getExons range intronPath).length      -- `len(novel_exons)`
  -- (since 1acc226) `if len(novel_exons) != len(intron_path) + 1: continue` (consecutive introns overlap or touch)
  if nExons ≠ intronPath.length + 1 then (none, σ) else
  let polyaSite := hasPolyA || hasPolyT
  let r1 := detGetStrand seq intronPath hasPolyA hasPolyT σ
  let r2 := getCleanStrand seq intronPath r1.2
  let transcriptStrand := r1.1
  let cleanStrand := r2.1
  if count < prm.minNovelCount then (none, r2.2)
  else if nExons = 2 ∧ ((prm.requireMonointronicPolya ∧ ¬ polyaSite) ∨ cleanStrand = .dot) then (none, r2.2)
  else if (prm.level = .only_canonical ∧ cleanStrand = .dot) ∨ (prm.level = .only_stranded ∧ transcriptStrand = .dot) then
    (none, r2.2)
  else
    match selectReferenceGene cands transcriptStrand with
    | none => (some transcriptStrand, r2.2)
    | some g => (some (if transcriptStrand = .dot then g.2 else transcriptStrand), r2.2)

end IsoVerif.Model.C18
