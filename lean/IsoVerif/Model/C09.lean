/-
C09 — executable model of read grouping and of the grouped count tables.

  src/read_groups.py        AlignmentTagReadGrouper / ReadIdSplitReadGrouper / ReadTableGrouper / FileNameGrouper
                            `.get_group_id` (+ what each call adds to `self.read_groups`), `create_read_grouper`
                            option parsing, `load_table`, `split_read_group_table`
  src/dataset_processor.py  the group universe: union of the per-chromosome `read_groups` sets (info file)
  src/long_read_counter.py  `AssignedFeatureCounter.__init__` (ordered_groups / group_numeric_ids),
                            `add_read_info`, `add_read_info_raw`, `dump` / `dump_ungrouped` / `dump_grouped`,
                            `ReadWeightCounter.process_ambiguous / process_inconsistent`

Core Lean only.  A Python `set` is a `List` *in its iteration order* (the order is an explicit input: `π`);
a `dict` is an insertion-ordered association list with unique keys; exceptions are `Except Err`.
Counts are exact rationals (`Rat`); the real code adds floats (`1.0`, `1.0 / k`).
-/
import IsoVerif.Gen.Enums
import IsoVerif.Gen.EventClasses
import IsoVerif.Gen.Strategies
import IsoVerif.Gen.ReadGroups

namespace IsoVerif.Model.C09
open IsoVerif.Gen

/-- exceptions of the real code -/
inductive Err where
  | keyError | indexError | zeroDivision | valueError
  deriving DecidableEq, Repr

/-- decidable equality of results (kept inside this namespace: no global instance) -/
instance decEqExcept {α} [DecidableEq α] : DecidableEq (Except Err α)
  | .ok a, .ok b => if h : a = b then isTrue (by rw [h]) else isFalse (by intro e; injection e; contradiction)
  | .error a, .error b => if h : a = b then isTrue (by rw [h]) else isFalse (by intro e; injection e; contradiction)
  | .ok _, .error _ => isFalse (by intro e; cases e)
  | .error _, .ok _ => isFalse (by intro e; cases e)

def Err.name : Err → String
  | .keyError => "KeyError" | .indexError => "IndexError"
  | .zeroDivision => "ZeroDivisionError" | .valueError => "ValueError"

/-- the label of reads without a group (`AbstractReadGrouper.default_group_id`, generated) -/
abbrev NA : String := rg_default_group_id

/-! ### `str.split(sep)` (non-empty separator): leftmost, non-overlapping occurrences -/

/-- pieces of `s` split at `d0 :: dt`, as (first piece, remaining pieces) -/
def splitGo (d0 : Char) (dt : List Char) : List Char → List Char × List (List Char)
  | [] => ([], [])
  | c :: s =>
    if c = d0 ∧ dt.isPrefixOf s then
      let r := splitGo d0 dt (s.drop dt.length)
      ([], r.1 :: r.2)
    else
      let r := splitGo d0 dt s
      (c :: r.1, r.2)
termination_by s => s.length
decreasing_by all_goals simp_wf <;> omega

/-- `s.split(d)`; `ValueError` for the empty separator -/
def pySplit (d s : List Char) : Except Err (List (List Char)) :=
  match d with
  | [] => .error .valueError
  | d0 :: dt => let r := splitGo d0 dt s; .ok (r.1 :: r.2)

/-- `d.join(pieces)` -/
def joinWith (d : List Char) : List (List Char) → List Char
  | [] => []
  | [a] => a
  | a :: b :: rest => a ++ d ++ joinWith d (b :: rest)

/-! ### alignments and groupers -/

/-- value of a BAM tag as pysam returns it (strings and integers are modelled) -/
inductive TagVal where
  | str (s : String)
  | int (i : Int)
  deriving DecidableEq, Repr

/-- Python `str(value)` -/
def TagVal.render : TagVal → String
  | .str s => s
  | .int i => toString i

/-- what `get_group_id(alignment, filename)` looks at -/
structure Aln where
  name : String                      -- alignment.query_name
  tags : List (String × TagVal)      -- alignment.get_tag (KeyError when absent)
  file : Option String               -- the `filename` argument (None when absent)
  deriving Repr

inductive Grouper where
  | default
  | tag (t : String)
  | readId (delim : String)
  | table (readMap : List (String × String))       -- ReadTableGrouper.read_map
  | fileName (names : List (String × String))      -- FileNameGrouper.readable_names_dict
  deriving Repr

/-- result of one `get_group_id` call: the returned value (`none` = Python `None`) and the value added
    to `self.read_groups` (`none` = nothing added) -/
structure GRes where
  ret : Option String
  added : Option String
  deriving DecidableEq, Repr

def GRes.both (g : String) : GRes := ⟨some g, some g⟩

/-- `get_group_id` of the four groupers (tree after the `fix:` commits e484a5c, 08a0dff) -/
def getGroupId : Grouper → Aln → Except Err GRes
  | .default, _ => .ok ⟨some NA, none⟩       -- read_groups is {NA} from __init__
  | .tag t, a =>
    match a.tags.lookup t with
    | none => .ok (GRes.both NA)                          -- KeyError caught: NA
    | some v => .ok (GRes.both v.render)
  | .readId delim, a =>
    match pySplit delim.toList a.name.toList with
    | .error e => .error e
    | .ok values =>
      if values.length = 1 then .ok (GRes.both NA)
      else match values.getLast? with
        | none => .error .indexError
        | some l => .ok (GRes.both (String.ofList l))
  | .table m, a =>
    match m.lookup a.name with
    | none => .ok (GRes.both NA)
    | some g => .ok (GRes.both g)
  | .fileName names, a =>
    match a.file with
    | none => .ok (GRes.both NA)
    | some f =>
      match names.lookup f with
      | some label => .ok (GRes.both label)
      | none => if f = "" then .ok (GRes.both NA) else .ok (GRes.both f)

/-- the tree before the fixes: no delimiter ⇒ returns `None` and adds nothing; tag values are returned as
    they are (an integer value is not a string: rendered here as `none` for "not a str") -/
def getGroupIdBuggy : Grouper → Aln → Except Err GRes
  | .readId delim, a =>
    match pySplit delim.toList a.name.toList with
    | .error e => .error e
    | .ok values =>
      if values.length = 1 then .ok ⟨none, none⟩
      else match values.getLast? with
        | none => .error .indexError
        | some l => .ok (GRes.both (String.ofList l))
  | g, a => getGroupId g a

/-- `set.add` on a set kept in some iteration order -/
def setInsert (s : List String) (x : String) : List String := if s.contains x then s else s ++ [x]

/-- one collector run over the alignments of a chromosome: the group recorded for every read and the
    final `read_groups` set -/
def runGrouper (g : Grouper) : List Aln → List String → Except Err (List (Option String) × List String)
  | [], s => .ok ([], s)
  | a :: as, s =>
    match getGroupId g a with
    | .error e => .error e
    | .ok r =>
      let s' := match r.added with | some x => setInsert s x | none => s
      match runGrouper g as s' with
      | .error e => .error e
      | .ok (rs, sf) => .ok (r.ret :: rs, sf)

/-- initial `read_groups` of a grouper -/
def Grouper.initGroups : Grouper → List String
  | .default => [NA]
  | _ => []

/-- `all_read_groups.update(read_groups)` over the chromosomes (and the list → set round trip of the info file) -/
def groupUniverse (perChr : List (List String)) : List String :=
  perChr.foldl (fun acc s => s.foldl setInsert acc) []

/-! ### `create_read_grouper` option parsing -/

inductive GrouperSpec where
  | default | fileName | tag (t : String) | readId (d : String) | tableFile
  deriving DecidableEq, Repr

/-- `"read_id:"` — the prefix that `option[len('read_id:'):]` removes -/
def kwReadIdColon : List Char := ['r', 'e', 'a', 'd', '_', 'i', 'd', ':']

/-- `option.split(':')` dispatch on text (`List Char`).  `orig = false`: the repaired tree (candidate patch
    `fix_read_id_colon_delimiter`, audit-2 B GAP C09-4): the delimiter of `read_id:DELIM` is EVERYTHING after the first
    colon (`option[len('read_id:'):]`), so it may be or contain a colon; a bare `read_id` gives the empty delimiter.
    `orig = true`: the pinned tree, `values[1]` (`read_id::` gave the empty delimiter, a bare `read_id` an IndexError) -/
def parseReadGroupL (orig : Bool) (o : List Char) : Except Err GrouperSpec :=
  match pySplit [':'] o with
  | .error e => .error e
  | .ok values =>
    let vs := values.map String.ofList
    match vs with
    | [] => .error .indexError
    | v0 :: rest =>
      if v0 = "file_name" then .ok .fileName
      else if v0 = "tag" then
        match rest with
        | [] => .ok (.tag rg_default_tag)
        | t :: _ => .ok (.tag t)
      else if v0 = "read_id" then
        if orig then
          match rest with
          | [] => .error .indexError
          | d :: _ => .ok (.readId d)
        else .ok (.readId (String.ofList (o.drop kwReadIdColon.length)))
      else if v0 = "file" then .ok .tableFile
      else .ok .default

/-- `create_read_grouper` option dispatch; `none` option = no `--read_group` -/
def parseReadGroup (opt : Option String) : Except Err GrouperSpec :=
  match opt with
  | none => .ok .default
  | some o => parseReadGroupL false o.toList

/-- the pinned tree -/
def parseReadGroupOrig (opt : Option String) : Except Err GrouperSpec :=
  match opt with
  | none => .ok .default
  | some o => parseReadGroupL true o.toList

/-! ### `load_table` and `split_read_group_table` -/

/-- code points for which Python's `str.isspace()` holds (what `str.strip()` removes) -/
def pySpaceCodes : List Nat :=
  [9, 10, 11, 12, 13, 28, 29, 30, 31, 32, 133, 160, 5760, 8192, 8193, 8194, 8195, 8196, 8197, 8198, 8199, 8200,
   8201, 8202, 8232, 8233, 8239, 8287, 12288]

def isPySpace (c : Char) : Bool := pySpaceCodes.contains c.toNat

/-- `str.strip()` -/
def pyStrip (s : List Char) : List Char :=
  ((s.dropWhile isPySpace).reverse.dropWhile isPySpace).reverse

/-- dict assignment `d[k] = v` (position of an existing key is kept) -/
def dictSet (d : List (String × String)) (k v : String) : List (String × String) :=
  match d with
  | [] => [(k, v)]
  | (k', v') :: t => if k' = k then (k', v) :: t else (k', v') :: dictSet t k v

/-- one line of `load_table` -/
def loadLine (rc gc : Nat) (delim : List Char) (m : List (String × String)) (line : List Char) :
    Except Err (List (String × String)) :=
  let l := pyStrip line
  if l.head? = some '#' ∨ l = [] then .ok m
  else
    match pySplit delim l with
    | .error e => .error e
    | .ok cols =>
      if cols.length ≤ max rc gc then .ok m
      else
        match cols[rc]?, cols[gc]? with
        | some r, some g => .ok (dictSet m (String.ofList r) (String.ofList g))
        | _, _ => .error .indexError

/-- `load_table` over the lines of the file (without their line terminators) -/
def loadTable (rc gc : Nat) (delim : List Char) : List (List Char) → List (String × String) →
    Except Err (List (String × String))
  | [], m => .ok m
  | l :: ls, m =>
    match loadLine rc gc delim m l with
    | .error e => .error e
    | .ok m' => loadTable rc gc delim ls m'

/-- lines written by `split_read_group_table` to the file of chromosome `chr`: alignments in file order as
    (read id, chromosome or none), first occurrence of a read per chromosome, only reads present in the table -/
def splitTableLines (m : List (String × String)) (chr : String) :
    List (String × Option String) → List String → List (List Char)
  | [], _ => []
  | (rid, c) :: as, seen =>
    if c = some chr then
      match m.lookup rid with
      | some g =>
        if seen.contains rid then splitTableLines m chr as seen
        else (rid.toList ++ ['\t'] ++ g.toList) :: splitTableLines m chr as (rid :: seen)
      | none => splitTableLines m chr as seen
    else splitTableLines m chr as seen

/-! ### the counter (`AssignedFeatureCounter`) -/

/-- `IncrementalDict.data` : numeric group id → count, insertion ordered -/
abbrev IDict := List (Nat × Rat)

/-- `IncrementalDict.inc` -/
def incD : IDict → Nat → Rat → IDict
  | [], k, v => [(k, v)]
  | (k', x) :: t, k, v => if k' = k then (k', x + v) :: t else (k', x) :: incD t k v

/-- `IncrementalDict.get` (0 for an absent key, nothing inserted) -/
def getD (d : IDict) (k : Nat) : Rat :=
  match d.lookup k with
  | some v => v
  | none => 0

/-- `feature_counter` : feature id → IncrementalDict -/
abbrev FC := List (String × IDict)

/-- `self.feature_counter[f].inc(k, v)` -/
def incF : FC → String → Nat → Rat → FC
  | [], f, k, v => [(f, [(k, v)])]
  | (f', d) :: t, f, k, v => if f' = f then (f', incD d k v) :: t else (f', d) :: incF t f k v

def dataOf (fc : FC) (f : String) : IDict :=
  match fc.lookup f with
  | some d => d
  | none => []

/-- `self.feature_counter[f].get(k)` -/
def cell (fc : FC) (f : String) (k : Nat) : Rat := getD (dataOf fc f) k

structure Counter where
  ignoreGroups : Bool
  ordered : List String                 -- ordered_groups
  ids : List (String × Nat)             -- group_numeric_ids
  strategy : CountingStrategy
  fc : FC
  allFeatures : List String
  confirmed : List String
  ambiguousReads : Nat
  forTpm : Nat
  notAssigned : Nat
  notAligned : Nat
  outputZeroes : Bool
  fmt : GroupedOutputFormat
  deriving Repr

/-- insertion into a sorted list -/
def insertStr (x : String) : List String → List String
  | [] => [x]
  | y :: t => if x ≤ y then x :: y :: t else y :: insertStr x t

/-- `sorted(read_groups)` (strings compare by code points in both languages; the sorted list of a set is unique,
    so the sorting algorithm is immaterial: insertion sort, structurally recursive) -/
def sortStr : List String → List String
  | [] => []
  | x :: t => insertStr x (sortStr t)

/-- `AssignedFeatureCounter.__init__`; `rg` is the `read_groups` argument in its iteration order.
    `buggy = true` is the numbering of the tree before fix b707b14: `enumerate(read_groups)`. -/
def initCounter (buggy : Bool) (rg : Option (List String)) (strategy : CountingStrategy)
    (allFeatures : List String) (outputZeroes : Bool) (fmt : GroupedOutputFormat) : Counter :=
  let empty := match rg with | none => true | some l => l.isEmpty
  let base : Counter := {
    ignoreGroups := empty, ordered := [NA], ids := [(NA, 0)], strategy := strategy, fc := [],
    allFeatures := allFeatures.foldl setInsert [], confirmed := [], ambiguousReads := 0, forTpm := 0,
    notAssigned := 0, notAligned := 0, outputZeroes := outputZeroes, fmt := fmt }
  match rg with
  | none => base
  | some l =>
    if l.isEmpty then base
    else
      let ordered := sortStr l
      { base with ordered := ordered, ids := if buggy then l.zipIdx else ordered.zipIdx }

/-- `ReadWeightCounter.process_ambiguous` -/
def processAmbiguous (s : CountingStrategy) (n : Nat) : Rat :=
  if n = 0 then 0
  else if n = 1 then 1
  else if s.ambiguous then 1 / (n : Rat)
  else 0

/-- `ReadWeightCounter.process_inconsistent` -/
def processInconsistent (s : CountingStrategy) (t : ReadAssignmentType) (n : Nat) : Except Err Rat :=
  if t = ReadAssignmentType.inconsistent_ambiguous ∨ n > 1 then
    if s.ambiguous ∧ s.inconsistent then
      if n = 0 then .error .zeroDivision else .ok (1 / (n : Rat))
    else .ok 0
  else if s.inconsistent then .ok 1
  else if s.inconsistent_minor ∧ t = ReadAssignmentType.inconsistent_non_intronic then .ok 1
  else .ok 0

/-- what `add_read_info` sees of a read assignment (the extractor's answers are inputs) -/
structure ReadInfo where
  present : Bool                      -- `read_assignment` is not None
  rawType : ReadAssignmentType        -- read_assignment.assignment_type
  hasMatches : Bool                   -- bool(read_assignment.isoform_matches)
  firstTranscriptNone : Bool          -- isoform_matches[0].assigned_transcript is None
  features : List String              -- assignment_extractor.get_features (a set, in iteration order)
  atype : ReadAssignmentType          -- assignment_extractor.get_assignment_type
  confirms : Bool                     -- assignment_extractor.confirms_feature
  group : String                      -- read_assignment.read_group
  deriving Repr

/-- arguments of `add_read_info_raw` -/
structure RawInfo where
  hasId : Bool                        -- bool(read_id)
  features : List String
  group : String
  deriving Repr

/-- what one read does to a counter, *before* the group is looked at -/
structure Effect where
  needsGroup : Bool                        -- `self.group_numeric_ids[group_id]` is evaluated
  incs : List (String × Rat × Bool)        -- (feature, value, also `all_features.add`)
  confirm : Option String
  dAmbiguous : Nat
  dForTpm : Nat
  dNotAssigned : Nat
  dNotAligned : Nat
  deriving Repr

def Effect.none : Effect := ⟨false, [], .none, 0, 0, 0, 0⟩

/-- the branches of `add_read_info` (an exception raised inside a branch aborts the run: `.error`) -/
def readEffect (s : CountingStrategy) (r : ReadInfo) : Except Err Effect :=
  if !r.present then .ok { Effect.none with dNotAligned := 1 }
  else if r.rawType.is_unassigned ∨ !r.hasMatches then .ok { Effect.none with dNotAssigned := 1 }
  else if r.hasMatches ∧ r.firstTranscriptNone then .ok { Effect.none with dNotAssigned := 1 }
  else if r.atype = ReadAssignmentType.ambiguous then
    let v := processAmbiguous s r.features.length
    .ok { Effect.none with needsGroup := true, incs := r.features.map (fun f => (f, v, decide (v > 0))),
                           dAmbiguous := 1, dForTpm := 1 }
  else if r.atype.is_inconsistent then
    match processInconsistent s r.atype r.features.length with
    | .error e => .error e
    | .ok v =>
      if v > 0 then
        .ok { Effect.none with needsGroup := true, incs := r.features.map (fun f => (f, v, true)), dForTpm := 1 }
      else .ok { Effect.none with needsGroup := true, dForTpm := 1 }
  else if r.atype.is_unique then
    match r.features with
    | [] => .error .indexError
    | f :: _ =>
      .ok { Effect.none with needsGroup := true, incs := [(f, 1, true)],
                             confirm := if r.confirms then some f else .none, dForTpm := 1 }
  else .ok { Effect.none with needsGroup := true, dForTpm := 1 }

/-- the branches of `add_read_info_raw` (the group id is looked up first, in every branch) -/
def rawEffect (s : CountingStrategy) (r : RawInfo) : Effect :=
  if !r.hasId then { Effect.none with needsGroup := true, dNotAligned := 1 }
  else match r.features with
    | [] => { Effect.none with needsGroup := true, dNotAssigned := 1 }
    | [f] => { Effect.none with needsGroup := true, incs := [(f, 1, true)], dForTpm := 1 }
    | fs =>
      let v := processAmbiguous s fs.length
      { Effect.none with needsGroup := true, incs := fs.map (fun f => (f, v, true)), dAmbiguous := 1, dForTpm := 1 }

/-- the `inc` / `all_features.add` statements of one read under numeric group id `gid` -/
def applyIncs (gid : Nat) : List (String × Rat × Bool) → FC → List String → FC × List String
  | [], fc, af => (fc, af)
  | (f, v, add) :: t, fc, af => applyIncs gid t (incF fc f gid v) (if add then setInsert af f else af)

/-- apply the effect of a read of group `group` to the counter; `KeyError` when the group has no numeric id -/
def applyEffect (c : Counter) (group : String) (e : Effect) : Except Err Counter :=
  let gname := if c.ignoreGroups then NA else group
  match (if e.needsGroup then c.ids.lookup gname else some 0) with
  | none => .error .keyError
  | some gid =>
    let r := applyIncs gid e.incs c.fc c.allFeatures
    .ok { c with fc := r.1, allFeatures := r.2,
                 confirmed := match e.confirm with | some f => setInsert c.confirmed f | none => c.confirmed,
                 ambiguousReads := c.ambiguousReads + e.dAmbiguous, forTpm := c.forTpm + e.dForTpm,
                 notAssigned := c.notAssigned + e.dNotAssigned, notAligned := c.notAligned + e.dNotAligned }

/-- `add_read_info` -/
def addReadInfo (c : Counter) (r : ReadInfo) : Except Err Counter :=
  match readEffect c.strategy r with
  | .error e => .error e
  | .ok e => applyEffect c r.group e

/-- `add_read_info_raw` -/
def addReadInfoRaw (c : Counter) (r : RawInfo) : Except Err Counter :=
  applyEffect c r.group (rawEffect c.strategy r)

/-- one call on the counter -/
inductive Call where
  | info (r : ReadInfo)
  | raw (r : RawInfo)
  | confirmFeatures (fs : List String)     -- add_confirmed_features
  deriving Repr

def Call.group : Call → Option String
  | .info r => some r.group
  | .raw r => some r.group
  | .confirmFeatures _ => none

def callEffect (s : CountingStrategy) : Call → Except Err Effect
  | .info r => readEffect s r
  | .raw r => .ok (rawEffect s r)
  | .confirmFeatures _ => .ok Effect.none

def step (c : Counter) : Call → Except Err Counter
  | .info r => addReadInfo c r
  | .raw r => addReadInfoRaw c r
  | .confirmFeatures fs => .ok { c with confirmed := fs.foldl setInsert c.confirmed }

def run (c : Counter) : List Call → Except Err Counter
  | [] => .ok c
  | x :: xs =>
    match step c x with
    | .error e => .error e
    | .ok c' => run c' xs

/-! ### `dump` -/

/-- `for g in data.keys(): data[g] = 0.0` when `b` -/
def zeroIf (b : Bool) (d : IDict) : IDict := if b then d.map (fun kv => (kv.1, (0 : Rat))) else d

/-- zeroing of the features that are not confirmed (first loop of `dump`) -/
def zeroUnconfirmed (fc : FC) (feats confirmed : List String) : FC :=
  fc.map (fun p => (p.1, zeroIf (feats.contains p.1 && !confirmed.contains p.1) p.2))

/-- what `dump` writes: the matrix (header, rows) and the linear table; `none` = that file gets no lines -/
structure Dump where
  header : List String
  matrix : Option (List (String × List Rat))
  linear : Option (List (String × String × Rat))
  stats : Option (Nat × Nat × Nat × Nat)      -- ungrouped only: __ambiguous, __no_feature, __not_aligned, __usable
  deriving Repr

/-- linear lines of one feature: `ordered_groups[group_id]` for every key of the IncrementalDict -/
def linearOf (ordered : List String) (f : String) : IDict → Except Err (List (String × String × Rat))
  | [] => .ok []
  | (k, v) :: t =>
    match ordered[k]? with
    | none => .error .indexError
    | some g =>
      match linearOf ordered f t with
      | .error e => .error e
      | .ok r => .ok ((f, g, v) :: r)

/-- matrix row of one feature: `get(group_numeric_ids[g])` for every g of `all_groups` -/
def rowOf (ids : List (String × Nat)) (d : IDict) : List String → Except Err (List Rat)
  | [] => .ok []
  | g :: gs =>
    match ids.lookup g with
    | none => .error .keyError
    | some i =>
      match rowOf ids d gs with
      | .error e => .error e
      | .ok r => .ok (getD d i :: r)

def sumVals : IDict → Rat
  | [] => 0
  | (_, v) :: t => v + sumVals t

/-- loop of `dump_grouped` over the sorted features -/
def dumpGroupedRows (c : Counter) (fc : FC) :
    List String → Except Err (List (String × List Rat) × List (String × String × Rat))
  | [] => .ok ([], [])
  | f :: fs =>
    let d := dataOf fc f
    match linearOf c.ordered f d with
    | .error e => .error e
    | .ok lin =>
      match dumpGroupedRows c fc fs with
      | .error e => .error e
      | .ok (rows, lins) =>
        if !c.outputZeroes ∧ sumVals d = 0 then .ok (rows, lin ++ lins)
        else
          match rowOf c.ids d c.ordered with
          | .error e => .error e
          | .ok row => .ok ((f, row) :: rows, lin ++ lins)

/-- `dump()` -/
def dump (c : Counter) : Except Err Dump :=
  let feats := sortStr c.allFeatures
  let fc := zeroUnconfirmed c.fc feats c.confirmed
  if c.ignoreGroups then
    match c.ids.head? with
    | none => .error .indexError
    | some (_, gid0) =>
      let rows := feats.filterMap (fun f =>
        let v := cell fc f gid0
        if !c.outputZeroes ∧ v = 0 then none else some (f, [v]))
      .ok { header := ["count"], matrix := some rows, linear := none,
            stats := some (c.ambiguousReads, c.notAssigned, c.notAligned, c.forTpm) }
  else
    match dumpGroupedRows c fc feats with
    | .error e => .error e
    | .ok (rows, lins) =>
      .ok { header := c.ordered,
            matrix := if c.fmt.output_matrix then some rows else none,
            linear := if c.fmt.output_linear then some lins else none,
            stats := none }

/-- `s.replace(a, b)` (non-empty `a`): leftmost non-overlapping occurrences, i.e. `b.join(s.split(a))` -/
def pyReplace (a b s : List Char) : List Char :=
  match pySplit a s with
  | .ok ps => joinWith b ps
  | .error _ => s

/-- header columns of the TPM table written by `convert_counts_to_tpm` from the header of the count table.
    Tree after fix fea027c: only the `count` column of an ungrouped table is renamed; group names are
    copied.  `buggy = true`: the tree before, `line.replace("count", "TPM")` on every header. -/
def tpmHeader (buggy ignoreGroups : Bool) (header : List String) : List String :=
  if buggy || ignoreGroups then
    header.map (fun g => String.ofList (pyReplace "count".toList "TPM".toList g.toList))
  else header

/-- the (feature, group, value) triples of a matrix -/
def matrixTriples (header : List String) (rows : List (String × List Rat)) : List (String × String × Rat) :=
  rows.flatMap (fun r => (header.zip r.2).map (fun gv => (r.1, gv.1, gv.2)))

/-! ### `ProfileFeatureCounter` (exon / intron inclusion–exclusion counts per group) -/

structure PCounter where
  ignoreGroups : Bool
  ids : List (String × Nat)          -- group_numeric_ids, filled on first sight of a group
  next : Nat                         -- current_group_id
  incl : FC                          -- inclusion_feature_counter (integer counts)
  excl : FC                          -- exclusion_feature_counter
  names : List String                -- keys of feature_name_dict, insertion ordered
  deriving Repr

/-- `ProfileFeatureCounter.__init__` -/
def initPCounter (ignoreGroups : Bool) : PCounter :=
  { ignoreGroups := ignoreGroups, ids := if ignoreGroups then [(NA, 0)] else [], next := 1, incl := [], excl := [], names := [] }

/-- one read as `ExonCounter.add_read_info` sees it: validity, the gene profile, the ids of `*_property_map` -/
structure PRead where
  valid : Bool                       -- ProfileFeatureCounter.is_valid(read_assignment)
  profile : List Int
  fids : List String                 -- feature_property_map[i].id
  group : String
  deriving Repr

/-- the loop over the profile positions under numeric id `gid`; `IndexError` when the map is shorter than a position
    that has to be counted -/
def pLoop (gid : Nat) : List Int → List String → FC → FC → List String → Except Err (FC × FC × List String)
  | [], _, incl, excl, names => .ok (incl, excl, names)
  | p :: ps, fids, incl, excl, names =>
    if p = 1 then
      match fids with
      | [] => .error .indexError
      | f :: fs => pLoop gid ps fs (incF incl f gid 1) excl (setInsert names f)
    else if p = -1 then
      match fids with
      | [] => .error .indexError
      | f :: fs => pLoop gid ps fs incl (incF excl f gid 1) (setInsert names f)
    else pLoop gid ps fids.tail incl excl names

/-- `if read_group not in self.group_numeric_ids: ids[read_group] = current_group_id; current_group_id += 1` -/
def assign (c : PCounter) (g : String) : PCounter :=
  match c.ids.lookup g with
  | some _ => c
  | none => { c with ids := c.ids ++ [(g, c.next)], next := c.next + 1 }

/-- `ExonCounter.add_read_info` / `IntronCounter.add_read_info` + `add_read_info_from_profile` -/
def pStep (c : PCounter) (r : PRead) : Except Err PCounter :=
  if !r.valid then .ok c
  else
    let g := if c.ignoreGroups then NA else r.group
    let c1 : PCounter := assign c g
    match c1.ids.lookup g with
    | none => .error .keyError
    | some gid =>
      match pLoop gid r.profile r.fids c1.incl c1.excl c1.names with
      | .error e => .error e
      | .ok (incl, excl, names) => .ok { c1 with incl := incl, excl := excl, names := names }

def pRun (c : PCounter) : List PRead → Except Err PCounter
  | [] => .ok c
  | r :: rs =>
    match pStep c r with
    | .error e => .error e
    | .ok c' => pRun c' rs

/-- `ProfileFeatureCounter.dump`: one line (feature, group name, include count, exclude count) per feature and group
    with a non-zero count, features in first-seen order, groups sorted by name -/
def pDump (c : PCounter) : List (String × String × Rat × Rat) :=
  let groups := sortStr (c.ids.map Prod.fst)
  c.names.flatMap (fun f =>
    groups.filterMap (fun g =>
      match c.ids.lookup g with
      | none => none
      | some gid =>
        let i := cell c.incl f gid
        let e := cell c.excl f gid
        if i > 0 ∨ e > 0 then some (f, g, i, e) else none))

end IsoVerif.Model.C09
