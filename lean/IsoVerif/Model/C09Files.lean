/-
C09 — the two internal text files of read grouping, as written and re-read by the REPAIRED code
(candidate patches fix_D1 / fix_D3 of builder c09fix; the behaviour of the pinned tree is kept as `…Orig`).

  src/read_groups.py        split_read_group_table: `open(<rg>_<chr>, "w", newline='\n')`, one `"%s\t%s\n" % (read_id, group)`
                            per line; load_split_table (new): `open(.., 'r', newline='\n')`, per line: the terminator is
                            removed, `read_id, group_id = line.split('\t', 1)` (ValueError without a tab), later lines win.
                            create_read_grouper builds `ReadTableGrouper(file, 0, 1, '\t', internal=True)` from it.
                            Pinned tree: the same file went through `load_table(file, 0, 1, '\t')` (the user-table parser:
                            `strip()`, `#` comments, `split('\t')`) = `loadTable 0 1 ['\t']` of Model/C09.lean.
  src/dataset_processor.py  collect_reads_in_parallel: `with open(group_file, "w", newline='\n')`: `"%s\n" % g` for every group
                            of the chromosome; `--resume` branch: `for g in open(group_file, newline='\n')`:
                            `read_groups.add(g[:-1] if g.endswith("\n") else g)`.  Pinned tree: `add(g.strip())`.

A text file is the list of its characters; with `newline='\n'` Python neither translates on writing nor on reading and
iterating the file yields the pieces that end at each `'\n'` (terminator kept; a last piece without terminator when the
text does not end in one).  Core Lean only.
-/
import IsoVerif.Model.C09

namespace IsoVerif.Model.C09

/-- `for line in handle` on a file opened with `newline='\n'`: lines with their terminator -/
def fileLines : List Char → List (List Char)
  | [] => []
  | c :: s =>
    if c = '\n' then ['\n'] :: fileLines s
    else
      match fileLines s with
      | [] => [[c]]
      | l :: ls => (c :: l) :: ls

/-- `line[:-1] if line.endswith('\n') else line` -/
def chomp (l : List Char) : List Char := if l.getLast? = some '\n' then l.dropLast else l

/-- text of a file that received `"%s\n" % x` for every `x` of `items` -/
def linesText (items : List (List Char)) : List Char := items.flatMap (fun l => l ++ ['\n'])

/-! ### the `_groups` file of a chromosome -/

/-- the dump at the end of read collection; `π` = the grouper's `read_groups` set in its iteration order -/
def groupsFileText (π : List String) : List Char := linesText (π.map String.toList)

/-- the `--resume` branch (repaired): the set is cleared and every line, without its terminator, is added -/
def readGroupsFile (text : List Char) : List String :=
  (fileLines text).foldl (fun s l => setInsert s (String.ofList (chomp l))) []

/-- the pinned tree: `read_groups.add(g.strip())` (group names without `'\r'`: the universal-newline translation of the
    default text mode is not modelled) -/
def readGroupsFileOrig (text : List Char) : List String :=
  (fileLines text).foldl (fun s l => setInsert s (String.ofList (pyStrip l))) []

/-! ### the per-chromosome read-group table -/

/-- text of the file of chromosome `chr` written by `split_read_group_table` -/
def splitFileText (m : List (String × String)) (chr : String) (alns : List (String × Option String)) : List Char :=
  linesText (splitTableLines m chr alns [])

/-- `line.split('\t', 1)` unpacked into two names: `none` = ValueError (no tab in the line) -/
def splitFirstTab : List Char → Option (List Char × List Char)
  | [] => none
  | c :: s =>
    if c = '\t' then some ([], s)
    else
      match splitFirstTab s with
      | none => none
      | some p => some (c :: p.1, p.2)

/-- one line of `load_split_table` -/
def loadSplitLine (m : List (String × String)) (line : List Char) : Except Err (List (String × String)) :=
  match splitFirstTab (chomp line) with
  | none => .error .valueError
  | some (r, g) => .ok (dictSet m (String.ofList r) (String.ofList g))

def loadSplitLines : List (List Char) → List (String × String) → Except Err (List (String × String))
  | [], m => .ok m
  | l :: ls, m =>
    match loadSplitLine m l with
    | .error e => .error e
    | .ok m' => loadSplitLines ls m'

/-- `load_split_table` on the text of a per-chromosome file -/
def loadSplitTable (text : List Char) : Except Err (List (String × String)) :=
  loadSplitLines (fileLines text) []

end IsoVerif.Model.C09
