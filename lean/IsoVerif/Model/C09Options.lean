/-
C09 — the option string of `--read_group file:FILE:READ_COL:GROUP_COL:DELIM` and the set of per-chromosome tables
(audit-2 B, GAP C09-1 / C09-2; repaired code = candidate patches `fix_file_option_fields`,
`fix_group_table_missing_contig` of builder c09x; the behaviour of the pinned tree is kept as `…Orig`).

  src/read_groups.py   get_file_grouping_properties(values)   `values = option.split(':')`:
                         repaired:  read_col  = int(values[2]) if len(values) > 2 and values[2] else 0
                                    group_col = int(values[3]) if len(values) > 3 and values[3] else 1
                                    delim     = ":".join(values[4:]) or "\t"
                         pinned:    5+ fields -> (int(v2), int(v3), v4); 4 fields -> (int(v2), int(v3), tab);
                                    2 or 3 fields -> (0, 1, tab)   -- `file:T:2` silently ignores READ_COL
                       prepare_read_groups(args, sample): nothing unless `values[0] == 'file'`; otherwise the four
                         properties are handed to split_read_group_table
                       split_read_group_table: one file `<rg>_<chr>` per sequence named in the header of a BAM file
                       create_read_grouper(.., chr) for `file`: ReadTableGrouper(<rg>_<chr>, internal=True) ->
                         load_split_table: repaired: a file that does not exist is an empty table; pinned: FileNotFoundError
  Python `int(text)`   ASCII text: outer white space stripped, optional sign, decimal digits with single underscores
                       between digits.  Non-ASCII decimal digits (accepted by CPython) are outside the model.

Core Lean only.  Text is `List Char`.
-/
import IsoVerif.Model.C09
import IsoVerif.Model.C09Files

namespace IsoVerif.Model.C09

/-- exceptions of the option / table-set code -/
inductive OErr where
  | valueError | indexError | assertionError | fileNotFound
  deriving DecidableEq, Repr

def OErr.name : OErr → String
  | .valueError => "ValueError" | .indexError => "IndexError"
  | .assertionError => "AssertionError" | .fileNotFound => "FileNotFoundError"

instance decEqExceptO {α} [DecidableEq α] : DecidableEq (Except OErr α)
  | .ok a, .ok b => if h : a = b then isTrue (by rw [h]) else isFalse (by intro e; injection e; contradiction)
  | .error a, .error b => if h : a = b then isTrue (by rw [h]) else isFalse (by intro e; injection e; contradiction)
  | .ok _, .error _ => isFalse (by intro e; cases e)
  | .error _, .ok _ => isFalse (by intro e; cases e)

/-! ### `int(text)` -/

def digitVal (c : Char) : Nat := c.toNat - 48

/-- value of a digit string; underscores are skipped -/
def digitsValue : List Char → Nat → Nat
  | [], acc => acc
  | c :: s, acc => if c = '_' then digitsValue s acc else digitsValue s (acc * 10 + digitVal c)

/-- `digit ("_"? digit)*` -/
def validDigits : List Char → Bool
  | [] => false
  | [c] => c.isDigit
  | c :: d :: rest => c.isDigit && (if d = '_' then validDigits rest else validDigits (d :: rest))

/-- sign and digit part of stripped text -/
def signSplit : List Char → Bool × List Char
  | [] => (false, [])
  | c :: r => if c = '-' then (true, r) else if c = '+' then (false, r) else (false, c :: r)

/-- white space that `int()` removes at the outer ends: the ASCII set of C `isspace` (tab, LF, VT, FF, CR, blank) and
    every non-ASCII `str.isspace` character (mapped to a blank before parsing); NOT the separators 0x1c–0x1f, which
    `str.strip()` does remove -/
def isIntSpace (c : Char) : Bool := isPySpace c && !(28 ≤ c.toNat && c.toNat ≤ 31)

def pyIntStrip (s : List Char) : List Char :=
  ((s.dropWhile isIntSpace).reverse.dropWhile isIntSpace).reverse

/-- Python `int(s)` for a `str` (base 10) -/
def pyInt (s : List Char) : Except OErr Int :=
  let p := signSplit (pyIntStrip s)
  if validDigits p.2 then .ok (if p.1 then -((digitsValue p.2 0 : Nat) : Int) else ((digitsValue p.2 0 : Nat) : Int))
  else .error .valueError

/-! ### `get_file_grouping_properties`, `prepare_read_groups` -/

/-- (FILE, READ_COL, GROUP_COL, DELIM) as handed to `split_read_group_table` -/
structure FileProps where
  file : List Char
  readCol : Int
  groupCol : Int
  delim : List Char
  deriving DecidableEq, Repr

/-- `int(values[i]) if len(values) > i and values[i] else dflt` -/
def fieldInt (v : Option (List Char)) (dflt : Int) : Except OErr Int :=
  match v with
  | none => .ok dflt
  | some s => if s = [] then .ok dflt else pyInt s

/-- `":".join(values[4:]) or "\t"` -/
def delimOf (rest : List (List Char)) : List Char :=
  let d := joinWith [':'] rest
  if d = [] then ['\t'] else d

/-- repaired `get_file_grouping_properties` -/
def fileGroupingProperties (values : List (List Char)) : Except OErr FileProps :=
  match values with
  | _ :: f :: rest =>
    match fieldInt rest[0]? 0 with
    | .error e => .error e
    | .ok rc =>
      match fieldInt rest[1]? 1 with
      | .error e => .error e
      | .ok gc => .ok ⟨f, rc, gc, delimOf (rest.drop 2)⟩
  | _ => .error .assertionError

/-- `get_file_grouping_properties` of the pinned tree -/
def fileGroupingPropertiesOrig (values : List (List Char)) : Except OErr FileProps :=
  match values with
  | _ :: f :: a :: b :: rest =>
    match pyInt a with
    | .error e => .error e
    | .ok rc =>
      match pyInt b with
      | .error e => .error e
      | .ok gc => .ok ⟨f, rc, gc, match rest with | [] => ['\t'] | d :: _ => d⟩
  | _ :: f :: _ => .ok ⟨f, 0, 1, ['\t']⟩
  | _ => .error .assertionError

def kwFile : List Char := ['f', 'i', 'l', 'e']

/-- the pieces of `option.split(':')` (never empty, never an error: the separator is not empty) -/
def colonPieces (o : List Char) : List (List Char) :=
  let r := splitGo ':' [] o
  r.1 :: r.2

/-- `prepare_read_groups`: `none` = nothing to split (no option, or another mode) -/
def prepareReadGroups (orig : Bool) (opt : Option (List Char)) : Except OErr (Option FileProps) :=
  match opt with
  | none => .ok none
  | some o =>
    let values := colonPieces o
    if values.head? = some kwFile then
      match (if orig then fileGroupingPropertiesOrig values else fileGroupingProperties values) with
      | .error e => .error e
      | .ok p => .ok (some p)
    else .ok none

/-! ### which per-chromosome tables exist -/

/-- the text of `<rg>_<chr>` after `split_read_group_table`, `none` when the file does not exist: a file is opened for
    every sequence named in the header of some BAM file of the sample (`headers` = the `bam.references` lists) -/
def splitFileOf (headers : List (List String)) (m : List (String × String)) (chr : String)
    (alns : List (String × Option String)) : Option (List Char) :=
  if headers.any (fun h => h.contains chr) then some (splitFileText m chr alns) else none

/-- `load_split_table(<rg>_<chr>)` as called by `create_read_grouper`: repaired — a missing file is the empty table -/
def loadSplitFile (orig : Bool) (file : Option (List Char)) : Except OErr (List (String × String)) :=
  match file with
  | none => if orig then .error .fileNotFound else .ok []
  | some t =>
    match loadSplitTable t with
    | .ok m => .ok m
    | .error _ => .error .valueError

end IsoVerif.Model.C09
