/-
C02 growth — the part of the expression-table code between the per-chromosome dumps and the files a user opens:

  src/file_utils.py   merge_files / merge_counts   : the ORDER in which the per-chromosome part files are visited
                                                     (natural sort of the part-file names; model: C06 `keyLe`,
                                                     Model/Schedule.lean – not re-modelled here) and the order in
                                                     which the `.stats` files are summed (`chr_ids` order)
  src/stats.py        transform_counts / combine_table / combine_counts
                                                   : the files `pd.read_csv` reads (feature rows + the statistics
                                                     lines written by `merge_counts`, resp. + the `__unassigned`
                                                     line written by `convert_counts_to_tpm`), the `[:-3]` slice,
                                                     the outer join on `#feature_id` (model: C10 `transformCounts`,
                                                     `combineTable`, Model/Samples.lean – imported, not duplicated),
                                                     the row order of `how='outer'` (keys sorted), column naming

Core Lean only.  Cells of a table are the printed texts (`fmtC` = `%.2f` of a count in hundredths, `fmtT` = `%.6f`
of a TPM value in millionths, `fmtN` = `%d`); the theorems hold for every rendering, the driver uses `fmtFixed`.
-/
import IsoVerif.Model.Counter
import IsoVerif.Model.CounterSpec
import IsoVerif.Model.Schedule
import IsoVerif.Model.Samples
import IsoVerif.Gen.CounterTables
import IsoVerif.Gen.CombineTables

namespace IsoVerif.Model.C02
open IsoVerif.Gen

/-! ### merge_counts with the part files given by NAME (any order of `chr_ids`) -/

/-- the order in which `merge_files` visits the part files: `file_names.sort(key=natural key)` – a stable sort by
    the C06 order `keyLe` on the file names -/
def orderParts {α : Type} (named : List (String × α)) : List (String × α) :=
  IsoVerif.Model.C06.isort (fun a b => IsoVerif.Model.C06.keyLe a.1 b.1) named

variable {F : Type} [DecidableEq F]

/-- `merge_counts(counter, label, chr_ids, unaligned_reads)`: `named` = (name of the part file, its content) in the
    order of `chr_ids`.  Rows: the parts concatenated in the natural order of their names; statistics: the `.stats`
    files summed in `chr_ids` order. -/
def mergeCountsNamed (named : List (String × Part F)) (unalignedReads : Nat) : Part F :=
  let inOrder := named.map Prod.snd
  { rows := ((orderParts named).map Prod.snd).flatMap (·.rows),
    ambiguous := natSum (inOrder.map (·.ambiguous)),
    noFeature := natSum (inOrder.map (·.noFeature)),
    notAligned := if unalignedReads > 0 then unalignedReads else natSum (inOrder.map (·.notAligned)),
    usable := natSum (inOrder.map (·.usable)) }

/-! ### the files of one experiment as `pd.read_csv(path, sep='\t')` sees them (first column, value column) -/

/-- `"%.<d>f"` of a value given in units of `10^-d` (what `dump` / `convert_counts_to_tpm` print) -/
def fmtFixed (d : Nat) (q : Int) : String :=
  let a := q.natAbs
  let ip := a / 10 ^ d
  let fp := toString (a % 10 ^ d)
  (if q < 0 then "-" else "") ++ toString ip ++
    (if d = 0 then "" else "." ++ String.ofList (List.replicate (d - fp.length) '0') ++ fp)

/-- `<prefix>.gene_counts.tsv` / `<prefix>.transcript_counts.tsv` after `merge_counts`: the feature rows followed by
    one line per name of `merge_stat_names` (generated from `merge_counts`) -/
def countsFileTable (fmtC : Int → String) (fmtN : Nat → String) (p : Part String) : IsoVerif.Model.C10.Table :=
  p.rows.map (fun r => (r.1, fmtC r.2)) ++
    (merge_stat_names.zip [p.ambiguous, p.noFeature, p.notAligned]).map (fun x => (x.1, fmtN x.2))

/-- a TPM table as printed: values in millionths (`%.6f`) -/
structure TpmPrinted where
  rows : List (String × Int)
  unassigned : Int
  deriving Repr

def TpmTable.printed (t : TpmTable String) : TpmPrinted :=
  { rows := t.rows.map (fun r => (r.1, millionths r.2)), unassigned := millionths t.unassigned }

/-- `<prefix>.gene_tpm.tsv` / `<prefix>.transcript_tpm.tsv`: the TPM rows followed by the `__unassigned` line that
    `convert_counts_to_tpm` always writes for an ungrouped counter -/
def tpmFileTable (fmtT : Int → String) (t : TpmPrinted) : IsoVerif.Model.C10.Table :=
  t.rows.map (fun r => (r.1, fmtT r.2)) ++ [(tpm_unassigned_name, fmtT t.unassigned)]

/-! ### combine_table / combine_counts -/

/-- code-point order of Python `str` (= Lean `String`) -/
def strLeB (a b : String) : Bool := decide (a ≤ b)

/-- `combine_table`: C10's outer join, rows in the order pandas writes them for `how='outer'` (join keys sorted) -/
def combineTableSorted (full : Bool) (ts : List (String × IsoVerif.Model.C10.Table)) :
    List String × List (String × List (Option String)) :=
  let r := IsoVerif.Model.C10.combineTable full ts
  (r.1, IsoVerif.Model.C06.isort (fun a b => strLeB a.1 b.1) r.2)

/-- the merged tables of one experiment (`sample.prefix`, gene / transcript counts, gene / transcript TPM) -/
structure ExperimentTables where
  name : String
  geneCounts : Part String
  transcriptCounts : Part String
  geneTpm : TpmPrinted
  transcriptTpm : TpmPrinted

structure CombinedTables where
  geneCounts : List String × List (String × List (Option String))
  geneTpm : List String × List (String × List (Option String))
  transcriptCounts : List String × List (String × List (Option String))
  transcriptTpm : List String × List (String × List (Option String))

/-- `combine_counts(input_data, output)`: the four `combine_table` calls (file, `column_name`, `full` as in the
    generated `combine_calls`: counts tables lose their last `combine_dropped_tail` lines, TPM tables are read whole) -/
def combineCounts (fmtC fmtT : Int → String) (fmtN : Nat → String) (es : List ExperimentTables) : CombinedTables :=
  { geneCounts := combineTableSorted false (es.map (fun e => (e.name, countsFileTable fmtC fmtN e.geneCounts))),
    geneTpm := combineTableSorted true (es.map (fun e => (e.name, tpmFileTable fmtT e.geneTpm))),
    transcriptCounts := combineTableSorted false (es.map (fun e => (e.name, countsFileTable fmtC fmtN e.transcriptCounts))),
    transcriptTpm := combineTableSorted true (es.map (fun e => (e.name, tpmFileTable fmtT e.transcriptTpm))) }

end IsoVerif.Model.C02
