/-
C15 (reuse clause) — executable model of the two halves of `DatasetProcessor.process_sample` around the saved files
`<prefix>_<chr>`, `<prefix>_multimappers_<chr>`, `<prefix>_info`, composed from the merged models of
  C15  byte formats, printer, full / abridged loader, multimapper files, info file            (Model/Serial.lean)
  C08  per-read lists of both memory modes, `MultimapResolver.resolve`, verdict files, loader (Model/Resolver.lean)
  C02  ungrouped gene / transcript counters, dump, merge_counts, TPM                          (Model/Counter.lean)
  C12  the glue of `construct_models_in_parallel` / `merge_assignments`                       (Model/BamPipeline.lean)
Core Lean only.

  src/dataset_processor.py
    collect_reads_in_parallel   the printer part: `tmp_printer.add_gene_info / add_read_info`, `processed_reads`
                                (`BasicReadAssignment(ra)` with --high_memory, `ra.read_id` otherwise)      `collectReads`
    collect_reads               list building of both memory modes, `prepare_multimapper_dict` (re-reads the dump
                                with the ABRIDGED loader), `resolve_multimappers` (writer of the multimapper files,
                                totals), the `_info` file                                                   `collectReads`
    process_sample              `load_read_info`, then `process_assigned_reads` on `saves_file`             `processSaved`
    construct_models_in_parallel   the reading loop of the multimapper file (`a.chr_id == chr_id`), the FULL loader,
                                `ReadAssignmentLoader.get_next`, the counters                               `constructChr`
    a run restarted with `--read_assignments` skips `collect_reads` (and with it `count_unaligned_reads`) and
                                takes the number of unaligned reads from `_info` (`load_unaligned_reads`, fix cc73ffc) `restartRun`

MODELS: everything above.  PARAMETERS (`Env`, arbitrary functions): the interning of strings as numbers (`intern`, with
`name` to print them again – the C08/C02/C12 models work on interned ids), `derive` = what `GeneInfo.deserialize`
re-derives from the gene DATABASE for a gene-info header (`all_isoforms_introns` as isoform ↦ number of introns: the only
derived attribute the modelled consumers read), `code` = everything else of a record that is printed.
NOT modelled (outside `downstream`): printers, transcript model construction, grouped counters, exon/intron counters.
-/
import IsoVerif.Model.Serial
import IsoVerif.Model.BamPipeline

namespace IsoVerif.Model.C15
open IsoVerif.Gen IsoVerif.Model IsoVerif.Model.Serial IsoVerif.Model.Resolver IsoVerif.Model.C12

/-- the externals of the composition -/
structure Env where
  /-- read ids, chromosome names, gene and transcript ids as numbers -/
  intern : String → Nat
  /-- the string a number stands for -/
  name : Nat → String
  /-- everything else of a full record that reaches an output line -/
  code : ReadAssignment → Nat
  /-- `GeneInfo.deserialize(infile, genedb)`: the header is read from the stream, `all_isoforms_introns` comes from the
      gene database (isoform ↦ number of introns) -/
  derive : GeneHeader → List (Nat × Nat)

/-! ### views -/

/-- a `BasicReadAssignment` as the record the C08 model works on (`penalty` in the on-disk unit 2^-20: exact for every
    record produced by either reader and for `BasicReadAssignment(ra)` of a record whose first penalty is not negative) -/
def toRec (E : Env) (b : BasicReadAssignment) : Rec :=
  { aid := b.assignmentId.toNat, readId := E.intern b.readId, chr := E.intern b.chrId, start := b.start, stop := b.end,
    region := b.genomicRegion, multimapper := b.multimapper, polyA := b.polyAFound, atype := b.assignmentType,
    gtype := b.geneAssignmentType, penalty := penaltyToInt b.penaltyScore, isoforms := b.isoforms.map E.intern,
    genes := b.genes.map E.intern }

/-- the object a C08 record stands for (what `resolve_multimappers` hands to `BasicReadAssignment.serialize`) -/
def ofRec (E : Env) (r : Rec) : BasicReadAssignment :=
  { assignmentId := (r.aid : Int), readId := E.name r.readId, chrId := E.name r.chr, start := r.start, «end» := r.stop,
    genomicRegion := r.region, multimapper := r.multimapper, polyAFound := r.polyA, assignmentType := r.atype,
    geneAssignmentType := r.gtype,
    penaltyScore := ((r.penalty : Int) : Rat) / ((ser_SHORT_FLOAT_MULTIPLIER : Nat) : Rat),
    genes := r.genes.map E.name, isoforms := r.isoforms.map E.name }

/-- `if m.assigned_gene:` – `None` and `""` are both falsy -/
def truthyId (E : Env) : Option String → Option Nat
  | some s => if s = "" then none else some (E.intern s)
  | none => none

/-- what the consumers downstream of the loader read of a full record loaded under the gene info with header `h` -/
def toPRec (E : Env) (h : GeneHeader) (r : ReadAssignment) : PRec :=
  { basic := toRec E (basicOf r),
    isoMatches := r.isoformMatches.map (fun m => ⟨truthyId E m.assignedGene, truthyId E m.assignedTranscript⟩),
    nCorrectedExons := r.correctedExons.length,
    isoformIntrons := E.derive h,
    rest := E.code r }

/-- the records of a chromosome's dump, in file order, each under the gene info that precedes it -/
def chrPRecs (E : Env) (gs : List (Group ReadAssignment)) : List PRec :=
  gs.flatMap (fun g => g.2.map (toPRec E g.1))

/-! ### the files of one prefix -/

structure ChrFiles where
  /-- `<prefix>_<chr>` -/
  save : Bytes
  /-- `<prefix>_multimappers_<chr>` -/
  multimappers : Bytes
  deriving DecidableEq, Repr

structure Saved where
  /-- `<prefix>_info` -/
  info : Bytes
  /-- per chromosome, in `get_chr_list` order -/
  chrs : List ChrFiles
  deriving DecidableEq, Repr

/-- what `collect_reads_in_parallel` produces for one chromosome before anything is written: the gene regions in
    processing order, each with its read assignments -/
structure ChrIn where
  name : String
  groups : List (Group ReadAssignment)
  deriving Repr

/-! ### first half: `collect_reads` -/

/-- `processed_reads` with `--high_memory`: `BasicReadAssignment(ra)` of the objects in memory -/
def memBasics (E : Env) (c : ChrIn) : List Rec := (c.groups.flatMap (·.2)).map (fun r => toRec E (basicOf r))

/-- `processed_reads` otherwise: `ra.read_id` -/
def memReadIds (E : Env) (c : ChrIn) : List Nat := (c.groups.flatMap (·.2)).map (fun r => E.intern r.readId)

/-- `BasicReadAssignmentLoader(chr_dump_file)`: `while loader.has_next(): for ra in loader.get_next()`;
    `none` = the loader raises -/
def rereadBasics (E : Env) (save : Bytes) : Option (List Rec) :=
  (loadStreamQuick.run save).map (fun x => (x.1.flatMap (·.2)).map (toRec E))

/-- `multimappers_counts[read_id]` -/
def countIds (ids : List Nat) (rid : Nat) : Nat := (ids.filter (· == rid)).length

/-- `prepare_multimapper_dict`: the per-read lists of the reads seen more than once, the number of records of reads seen
    once, and how many of those have a polyA tail -/
def prepareMultimapperDict (ids : List Nat) (reread : List Rec) : List (Nat × List Rec) × Nat × Nat :=
  let uniq := reread.filter (fun r => countIds ids r.readId == 1)
  ((reread.filter (fun r => !(countIds ids r.readId == 1))).foldl dictAppend [], uniq.length,
   (uniq.filter (·.polyA)).length)

/-- the two counters of `resolve_multimappers` over a sequence of (resolved or single) lists -/
def tally (ls : List (List Rec)) : Nat × Nat :=
  let kept := ls.flatten.filter (fun a => !(a.atype == .suspended))
  (kept.length, (kept.filter (·.polyA)).length)

/-- `total_assignments, polya_assignments` returned by `resolve_multimappers`: lists of one record are counted as they
    are, longer ones after resolution -/
def collectTotals (d resolved : List (Nat × List Rec)) : Nat × Nat :=
  tally ((d.filter (fun kv => !(1 < kv.2.length))).map (·.2) ++ resolved.map (·.2))

/-- the lists `resolve_multimappers` writes to `<prefix>_multimappers_<chr>` (`chr` = interned chromosome name):
    per resolved read, in dict order, its records on that chromosome when there is any -/
def multimapLists (E : Env) (chr : Nat) (resolved : List (Nat × List Rec)) : List (List BasicReadAssignment) :=
  ((verdictsFor chr resolved).map (·.2)).map (List.map (ofRec E))

/-- `resolve_multimappers`, the resolution itself: every list longer than one goes through `MultimapResolver.resolve`
    (`take_best`, the command line's default); `none` = the resolver raises for some read
    (this is `C12.resolveStream` after the list building) -/
def resolveDict (d : List (Nat × List Rec)) : Option (List (Nat × List Rec)) :=
  (resolveAll .take_best d).mapM (fun kv => kv.2.map (fun out => (kv.1, out)))

/-- the per-read lists `collect_reads` hands to `resolve_multimappers`, with the number of records (and of records with
    a polyA tail) it has already counted as unique; `saves` = the dumps just written.
    `--high_memory`: the `BasicReadAssignment(ra)` objects kept in memory, every read; otherwise the dumps are re-read
    with the abridged loader and the reads seen once are counted and dropped (`prepare_multimapper_dict`). -/
def perReadLists (E : Env) (highMemory : Bool) (chroms : List ChrIn) (saves : List Bytes) :
    Option (List (Nat × List Rec) × Nat × Nat) :=
  if highMemory then some (groupAll (chroms.flatMap (memBasics E)), 0, 0)
  else (saves.mapM (rereadBasics E)).map
         (fun rr => prepareMultimapperDict (chroms.flatMap (memReadIds E)) rr.flatten)

/-- `multimap_dumper[chr_id]` exists only for the chromosomes of the reference: a resolved record with another
    `chr_id` is a KeyError -/
def unknownChr (E : Env) (chroms : List ChrIn) (resolved : List (Nat × List Rec)) : Bool :=
  resolved.any (fun kv => kv.2.any (fun r => !((chroms.map (fun c => E.intern c.name)).contains r.chr)))

/-- the `_info` record `collect_reads` writes -/
def infoOf (readGroups : List String) (d : List (Nat × List Rec) × Nat × Nat) (resolved : List (Nat × List Rec)) :
    SaveInfo :=
  { totalAssignments := (((collectTotals d.1 resolved).1 + d.2.1 : Nat) : Int),
    polyaAssignments := (((collectTotals d.1 resolved).2 + d.2.2 : Nat) : Int),
    readGroups := readGroups }

/-- `collect_reads` of a fresh run: every chromosome's dump is written by the printer, the per-read lists are built,
    the multimappers are resolved, the verdicts and the totals are written; `unaligned` = what
    `alignment_stat_counter` holds for `AlignmentType.unaligned` after `count_unaligned_reads` (last field of `_info`).
    `none` = something raises (a writer, a loader, the resolver, `multimap_dumper[a.chr_id]`). -/
def collectReads (E : Env) (highMemory : Bool) (readGroups : List String) (unaligned : Nat) (chroms : List ChrIn) :
    Option Saved :=
  match chroms.mapM (fun c => writeStream (ungroup c.groups)) with
  | none => none
  | some saves =>
    match perReadLists E highMemory chroms saves with
    | none => none
    | some d =>
      match resolveDict d.1 with
      | none => none
      | some resolved =>
        if unknownChr E chroms resolved then none
        else
          match chroms.mapM (fun c => writeMultimap (multimapLists E (E.intern c.name) resolved)),
                writeInfoFile (infoOf readGroups d resolved) (unaligned : Int) with
          | some mms, some info => some { info := info, chrs := (saves.zip mms).map (fun x => ⟨x.1, x.2⟩) }
          | _, _ => none

/-! ### second half: `load_read_info` + `process_assigned_reads` on a prefix -/

/-- the reading loop at the top of `construct_models_in_parallel`: every record of every list whose `chr_id` is this
    chromosome is appended under its read id -/
def loadVerdicts (E : Env) (chrName : String) (mm : Bytes) : Option (List (Nat × List Rec)) :=
  (loadMultimap.run mm).map (fun x =>
    ((x.1.flatten.filter (fun a => a.chrId == chrName)).map (toRec E)).foldl dictAppend [])

/-- `construct_models_in_parallel` for the `c`-th chromosome, as far as `downstream` goes: verdicts, full loader,
    `ReadAssignmentLoader.get_next`, the two ungrouped counters and their dumps -/
def constructChr (E : Env) (cfg : Config) (c : Nat) (chrName : String) (f : ChrFiles) : Option ChrOut :=
  match loadVerdicts E chrName f.multimappers, loadStreamFull.run f.save with
  | some dict, some (groups, _) =>
    match loadChr dict (chrPRecs E groups) with
    | some loaded => chrOutOf cfg c loaded
    | none => none
  | _, _ => none

structure RunOut where
  /-- `total_assignments, polya_found, all_read_groups` as `load_read_info` returns them -/
  info : SaveInfo
  out : Output
  deriving Repr

/-- `load_read_info(saves_file)`, `process_assigned_reads(sample, saves_file)`; `unmapped` = what
    `alignment_stat_counter` holds for `AlignmentType.unaligned` when `merge_assignments` runs -/
def processSaved (E : Env) (cfg : Config) (unmapped : List Nat) (names : List String) (files : Saved) : Option RunOut :=
  match readSaveInfo.run files.info,
        (names.zip files.chrs).zipIdx.mapM (fun x => constructChr E cfg x.2 x.1.1 x.1.2) with
  | some (info, _), some outs => some { info := info, out := assemble cfg unmapped outs }
  | _, _ => none

/-- a run from BAM files (`unmapped` = `bam.unmapped` per file, added by `count_unaligned_reads` at the end of
    `collect_reads`): it saves, then works from what it saved – in BOTH memory modes the second half reads the dumps -/
def savingRun (E : Env) (cfg : Config) (readGroups : List String) (unmapped : List Nat) (chroms : List ChrIn) :
    Option (Saved × RunOut) :=
  match collectReads E cfg.highMemory readGroups (countUnaligned unmapped) chroms with
  | none => none
  | some files => (processSaved E cfg unmapped (chroms.map (·.name)) files).map (fun o => (files, o))

/-- a run restarted with `--read_assignments <prefix>`: `collect_reads` is skipped, `alignment_stat_counter` is the
    fresh one of `process_sample` plus the number `load_unaligned_reads` finds at the end of `_info` (fix cc73ffc) -/
def restartRun (E : Env) (cfg : Config) (names : List String) (files : Saved) : Option RunOut :=
  match readUnaligned.run files.info with
  | some (u, _) => processSaved E cfg [u.toNat] names files
  | none => none

/-- the restart before fix cc73ffc: nothing was known about unaligned reads (kept for `restart_not_aligned_witness`) -/
def restartRunOrig (E : Env) (cfg : Config) (names : List String) (files : Saved) : Option RunOut :=
  processSaved E cfg [] names files

/-! ### the run set-up (audit 2-C GAP 1-4, audit 2-B C09-3)

What the second half of `process_sample` reads of the command line AND of the input files of the experiment:
`args.read_group` (`ReadAssignmentAggregator`: the grouped tables are written iff it is truthy) and
`args.use_technical_replicas` (`GraphBasedModelConstructor`: a novel intron chain whose reads all carry one read group is
dropped).  A BAM run computes them from its command line and `len(sample.file_list)`; a restart has ONE "file" - the
prefix - so both must come from `_info`. -/

/-- `args.read_group`, `args.use_technical_replicas` when `process_assigned_reads` starts -/
structure Setup where
  readGroup : Option String
  useTechnicalReplicas : Bool
  deriving DecidableEq, Repr

/-- `self.args.use_technical_replicas = self.args.read_group == "file_name" and input_file_count > 1` -/
def mkSetup (readGroup : Option String) (fileCount : Nat) : Setup :=
  { readGroup := readGroup, useTechnicalReplicas := readGroup == some "file_name" && decide (1 < fileCount) }

/-- `set_data_dependent_options`: `if args.read_group is None and args.input_data.has_replicas(): args.read_group =
    "file_name"` (`hasReplicas` = SOME experiment of the invocation has several files) -/
def effectiveReadGroup (cmd : Option String) (hasReplicas : Bool) : Option String :=
  if cmd.isNone && hasReplicas then some "file_name" else cmd

/-- the set-up of an experiment of `fileCount` files in a BAM invocation with `--read_group cmd`
    (`otherReplicas` = another experiment of the invocation has several files) -/
def savingSetup (cmd : Option String) (otherReplicas : Bool) (fileCount : Nat) : Setup :=
  mkSetup (effectiveReadGroup cmd (otherReplicas || decide (1 < fileCount))) fileCount

/-- ... and what it stores at the end of `_info` -/
def savedSetupOf (cmd : Option String) (otherReplicas : Bool) (fileCount : Nat) : SavedSetup :=
  { fileCount := (fileCount : Int), readGroup := effectiveReadGroup cmd (otherReplicas || decide (1 < fileCount)) }

/-- `read_group if read_group else None` -/
def truthyStr : Option String → Option String
  | some s => if s = "" then none else some s
  | none => none

/-- the set-up of an experiment of a restart with `--read_group cmd` (no replicas on its command line: one prefix per
    experiment, `effectiveReadGroup cmd false = cmd`): grouping mode and file count of the saving run unless
    `--read_group` is given again; a file of an older format (0 files) leaves `len(sample.file_list)` = 1 -/
def restartSetup (cmd : Option String) (s : SavedSetup) : Setup :=
  mkSetup (if cmd.isSome then cmd else truthyStr s.readGroup) (if 0 < s.fileCount then s.fileCount.toNat else 1)

/-- the restart before the repair: its own command line, its own `file_list = [[prefix]]` -/
def restartSetupOrig (cmd : Option String) : Setup := mkSetup cmd 1

/-- `ReadAssignmentAggregator.__init__`: `if self.args.read_group and self.args.genedb` / `... and not
    self.args.no_model_construction` - the grouped tables exist iff the grouping mode is truthy -/
def groupedTablesWritten (s : Setup) : Bool := (truthyStr s.readGroup).isSome

/-- `GraphBasedModelConstructor.construct_fl_isoforms`, the technical-replicas check on a candidate novel chain whose
    reads carry the read groups `groups`: `if use_technical_replicas and len(set(groups)) <= 1: continue` -/
def replicaCheckPasses (s : Setup) (groups : List String) : Bool :=
  !(s.useTechnicalReplicas && decide (groups.eraseDups.length ≤ 1))

/-- `collect_reads` with the set-up fields at the end of `_info` (everything before them is written as before) -/
def collectReadsS (E : Env) (highMemory : Bool) (readGroups : List String) (unaligned : Nat) (setup : SavedSetup)
    (chroms : List ChrIn) : Option Saved :=
  match collectReads E highMemory readGroups unaligned chroms, writeSetup setup with
  | some f, some sb => some { f with info := f.info ++ sb }
  | _, _ => none

/-- a run from BAM files, with the set-up it worked under: `unmapped` has one entry per file of the experiment -/
def savingRunS (E : Env) (cfg : Config) (cmd : Option String) (otherReplicas : Bool) (readGroups : List String)
    (unmapped : List Nat) (chroms : List ChrIn) : Option (Saved × Setup × RunOut) :=
  match collectReadsS E cfg.highMemory readGroups (countUnaligned unmapped)
          (savedSetupOf cmd otherReplicas unmapped.length) chroms with
  | none => none
  | some files =>
    (processSaved E cfg unmapped (chroms.map (·.name)) files).map
      (fun o => (files, savingSetup cmd otherReplicas unmapped.length, o))

/-- a run restarted with `--read_assignments <prefix>` (and `--read_group cmd`) for the experiment of that prefix -/
def restartRunS (E : Env) (cfg : Config) (cmd : Option String) (names : List String) (files : Saved) :
    Option (Setup × RunOut) :=
  match readSetup.run files.info with
  | some (s, _) => (restartRun E cfg names files).map (fun o => (restartSetup cmd s, o))
  | none => none

/-- the restart before the repair (one prefix) -/
def restartRunOrigS (E : Env) (cfg : Config) (cmd : Option String) (names : List String) (files : Saved) :
    Option (Setup × RunOut) :=
  (restartRun E cfg names files).map (fun o => (restartSetupOrig cmd, o))

/-- `--read_assignments P0 P1 ...`: one experiment per prefix, each from ITS OWN files (`sample.file_list[0][0]`) -/
def restartAllS (E : Env) (cfg : Config) (cmd : Option String) (exps : List (List String × Saved)) :
    List (Option (Setup × RunOut)) :=
  exps.map (fun x => restartRunS E cfg cmd x.1 x.2)

/-- before the repair: `illumina_bam = [[]]` is indexed per experiment (IndexError for a second prefix = `none`) -/
def restartAllOrig (E : Env) (cfg : Config) (cmd : Option String) (exps : List (List String × Saved)) :
    Option (List (Option (Setup × RunOut))) :=
  if 1 < exps.length then none else some (exps.map (fun x => restartRunOrigS E cfg cmd x.1 x.2))

/-- ... and with only that line repaired: every experiment reads `args.read_assignments[0]` -/
def restartAllFirstPrefix (E : Env) (cfg : Config) (cmd : Option String) (exps : List (List String × Saved)) :
    List (Option (Setup × RunOut)) :=
  exps.map (fun x => (exps.head?.bind (fun x0 => restartRunOrigS E cfg cmd x.1 x0.2)))

/-! ### `downstream` on records that carry their own `chr_id` / `assignment_id` -/

/-- `processChr` with the chromosome's key in the records (`chr_id`, interned) separate from its position `c` -/
def processChrKeyed (cfg : Config) (resolved : List (Nat × List Rec)) (c key : Nat) (l : List PRec) : Option ChrOut :=
  match loadChr (verdictsFor key resolved) l with
  | none => none
  | some loaded => chrOutOf cfg c loaded

/-- `C12.downstream` without the stamping: `chroms` = per chromosome (position, key, records as they are).
    `C12.downstream cfg ids u X = downstreamKeyed cfg u (stamped X)` (Props/C15Reuse.lean, `downstream_eq_keyed`). -/
def downstreamKeyed (cfg : Config) (unmapped : List Nat) (chroms : List (Nat × Nat × List PRec)) : Option Output :=
  match resolveStream cfg.highMemory ((chroms.map (·.2.2)).flatten.map (·.basic)) with
  | none => none
  | some resolved =>
    match chroms.mapM (fun x => processChrKeyed cfg resolved x.1 x.2.1 x.2.2) with
    | none => none
    | some outs => some (assemble cfg unmapped outs)

end IsoVerif.Model.C15
