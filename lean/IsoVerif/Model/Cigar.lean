/-
C16 — executable model of the CIGAR walk of /repo/src/common.py (`get_read_blocks`, `correct_bam_coords`,
`concat_gapless_blocks`) and the declarative SAM-semantics specification it is proved equal to.
Core Lean only.

`get_read_blocks(ref_start, cigar_tuples)` is a `while` over the CIGAR with the locals
`read_pos, ref_pos, cigar_index, current_ref_block_start, current_read_block_start,
current_cigar_block_start, has_match` and three output lists.  The model is a left fold (`List.foldl step`)
over the operations whose state holds exactly these locals (the three `current_*_start` variables are always
assigned together, so they are one `Option` triple) followed by the flush after the loop (`finish`).

Faithfulness notes
* `if current_ref_block_start:` is a *truthiness* test in the code: a block that started at reference
  coordinate 0 is not closed by `N`/`S` (and not flushed at the end).  The model keeps this (`truthy`).
  `ref_pos = ref_start + 1 ≥ 1` for `ref_start ≥ 0`, so it matters only for `ref_start = -1`
  (see `Props/C16.lean`, `truthiness_witness`).
* operation classes are the *generated* lists `cigar_match_events`, `cigar_ins_del_match_events`
  (IsoVerif/Gen/CigarClasses.lean); the specification uses its own SAM tables (`consumesRef`, `consumesQuery`,
  `isAligned`).
* `CigarEvent(code)` raises `ValueError` for codes > 8: decoding happens in the driver (`none` = error).
-/
import IsoVerif.Gen.Enums
import IsoVerif.Gen.CigarClasses
import IsoVerif.Gen.Prims

namespace IsoVerif.Model.C16
open IsoVerif.Gen IsoVerif.Model

/-- one CIGAR operation: (kind, length) -/
abbrev CigarOp := CigarEvent × Int

/-! ### the code: `get_read_blocks` -/

structure RBState where
  readPos : Int
  refPos : Int
  idx : Int
  /-- `(current_ref_block_start, current_read_block_start, current_cigar_block_start)`; `none` = `None` -/
  cur : Option (Int × Int × Int)
  hasMatch : Bool
  refBlocks : List Iv
  readBlocks : List Iv
  cigarBlocks : List Iv
  deriving Repr, DecidableEq

def rbInit (refStart : Int) : RBState :=
  { readPos := 0, refPos := refStart + 1, idx := 0, cur := none, hasMatch := false,
    refBlocks := [], readBlocks := [], cigarBlocks := [] }

/-- Python truthiness of `current_ref_block_start` (`None` and `0` are falsy) -/
def truthy : Option (Int × Int × Int) → Bool
  | none => false
  | some (b, _, _) => b != 0

/-- the three `append`s -/
def pushBlock (st : RBState) : RBState :=
  match st.cur with
  | none => st
  | some (b, rb, cb) =>
    { st with refBlocks := st.refBlocks ++ [(b, st.refPos - 1)],
              readBlocks := st.readBlocks ++ [(rb, st.readPos - 1)],
              cigarBlocks := st.cigarBlocks ++ [(cb, st.idx - 1)] }

/-- common body of the `skipped` and `soft_clipping` branches -/
def closeBlock (st : RBState) : RBState :=
  if truthy st.cur then
    let st1 := if st.hasMatch then pushBlock st else st
    { st1 with hasMatch := false, cur := none }
  else st

/-- one iteration of the `while` loop (without `cigar_index += 1`) -/
def stepBody (st : RBState) (op : CigarOp) : RBState :=
  if st.cur.isNone && op.1.in_cigar_ins_del_match_events then
    let st1 := { st with cur := some (st.refPos, st.readPos, st.idx) }
    if op.1 = CigarEvent.insertion then { st1 with readPos := st1.readPos + op.2 }
    else if op.1 = CigarEvent.deletion then { st1 with refPos := st1.refPos + op.2 }
    else { st1 with readPos := st1.readPos + op.2, refPos := st1.refPos + op.2, hasMatch := true }
  else if op.1.in_cigar_match_events then
    { st with readPos := st.readPos + op.2, refPos := st.refPos + op.2, hasMatch := true }
  else if op.1 = CigarEvent.insertion then { st with readPos := st.readPos + op.2 }
  else if op.1 = CigarEvent.deletion then { st with refPos := st.refPos + op.2 }
  else if op.1 = CigarEvent.skipped then
    let st1 := closeBlock st
    { st1 with refPos := st1.refPos + op.2 }
  else if op.1 = CigarEvent.soft_clipping then
    let st1 := closeBlock st
    { st1 with readPos := st1.readPos + op.2 }
  else st

def step (st : RBState) (op : CigarOp) : RBState :=
  let st1 := stepBody st op
  { st1 with idx := st1.idx + 1 }

/-- the flush after the loop -/
def finish (st : RBState) : RBState :=
  if truthy st.cur && st.hasMatch then pushBlock st else st

/-- `get_read_blocks(ref_start, cigar_tuples)`; the result's `refBlocks, readBlocks, cigarBlocks` are the
    returned triple -/
def getReadBlocks (refStart : Int) (ops : List CigarOp) : RBState :=
  finish (ops.foldl step (rbInit refStart))

/-- `correct_bam_coords` -/
def correctBamCoords (blocks : List Iv) : List Iv := blocks.map (fun x => (x.1 + 1, x.2))

/-! ### the specification (SAM semantics; no loop locals)

The CIGAR is cut at every `N` and `S` into *segments* (maximal runs without `N`/`S`); `cuts ops` lists each
segment together with the operations that precede it (`mem_cuts_iff` in Props/C16.lean characterises it as
"all maximal separator-free runs").  A segment that contains an aligned base (`M`, `=`, `X`) is an exon that
starts right after the reference bases consumed by everything before it and spans the reference bases the
segment consumes. -/

/-- `N` and `S` end an exon -/
def isSep (k : CigarEvent) : Bool := k == .skipped || k == .soft_clipping
/-- SAM: operations that consume reference bases -/
def consumesRef (k : CigarEvent) : Bool :=
  k == .«match» || k == .seq_match || k == .seq_mismatch || k == .deletion || k == .skipped
/-- SAM: operations that consume query bases -/
def consumesQuery (k : CigarEvent) : Bool :=
  k == .«match» || k == .seq_match || k == .seq_mismatch || k == .insertion || k == .soft_clipping
/-- aligned base -/
def isAligned (k : CigarEvent) : Bool := k == .«match» || k == .seq_match || k == .seq_mismatch
/-- operations that belong to an alignment block (`M = X I D`); `H`/`P` are transparent -/
def isBlockOp (k : CigarEvent) : Bool := isAligned k || k == .insertion || k == .deletion

/-- reference bases consumed by a list of operations -/
def refLen (ops : List CigarOp) : Int := (ops.map (fun o => if consumesRef o.1 then o.2 else 0)).sum
/-- query bases consumed by a list of operations -/
def queryLen (ops : List CigarOp) : Int := (ops.map (fun o => if consumesQuery o.1 then o.2 else 0)).sum

/-- `(pre, seg)` for every maximal `N`/`S`-free run `seg` of the CIGAR, `pre` = everything before it -/
def cutsAux (pre seg : List CigarOp) : List CigarOp → List (List CigarOp × List CigarOp)
  | [] => [(pre, seg)]
  | op :: rest =>
    if isSep op.1 then (pre, seg) :: cutsAux (pre ++ seg ++ [op]) [] rest
    else cutsAux pre (seg ++ [op]) rest

def cuts (ops : List CigarOp) : List (List CigarOp × List CigarOp) := cutsAux [] [] ops

def hasAligned (seg : List CigarOp) : Bool := seg.any (fun o => isAligned o.1)

/-- exon (1-based, closed) of a segment, if it has read support -/
def exonOf (refStart : Int) (c : List CigarOp × List CigarOp) : Option Iv :=
  if hasAligned c.2 then some (refStart + 1 + refLen c.1, refStart + refLen c.1 + refLen c.2) else none

/-- query interval (0-based, closed; soft-clipped bases are counted, hard-clipped are not) of a segment -/
def queryBlockOf (c : List CigarOp × List CigarOp) : Option Iv :=
  if hasAligned c.2 then some (queryLen c.1, queryLen c.1 + queryLen c.2 - 1) else none

/-- CIGAR index interval of a segment: from its first `M = X I D` operation to its last operation -/
def cigarBlockOf (c : List CigarOp × List CigarOp) : Option Iv :=
  if hasAligned c.2 then
    some ((c.1.length : Int) + (c.2.findIdx (fun o => isBlockOp o.1) : Nat), (c.1.length : Int) + c.2.length - 1)
  else none

def exonsSpec (refStart : Int) (ops : List CigarOp) : List Iv := (cuts ops).filterMap (exonOf refStart)
def queryBlocksSpec (ops : List CigarOp) : List Iv := (cuts ops).filterMap queryBlockOf
def cigarBlocksSpec (ops : List CigarOp) : List Iv := (cuts ops).filterMap cigarBlockOf

/-! ### pysam's `get_blocks()` / `reference_end` (SAM walk of the aligned operations only), used to tie the
exons to the match-only projection -/

/-- `AlignedSegment.get_blocks()`: one 0-based half-open block per `M`/`=`/`X` operation -/
def alignedBlocksAux (pos : Int) : List CigarOp → List Iv
  | [] => []
  | op :: rest =>
    if isAligned op.1 then (pos, pos + op.2) :: alignedBlocksAux (pos + op.2) rest
    else if consumesRef op.1 then alignedBlocksAux (pos + op.2) rest
    else alignedBlocksAux pos rest

def alignedBlocks (refStart : Int) (ops : List CigarOp) : List Iv := alignedBlocksAux refStart ops

/-- `AlignedSegment.reference_end` (0-based, exclusive); htslib's `bam_endpos` reports `pos + 1` for a CIGAR
    that consumes no reference base -/
def referenceEnd (refStart : Int) (ops : List CigarOp) : Int :=
  if refLen ops = 0 then refStart + 1 else refStart + refLen ops

/-! ### `concat_gapless_blocks(blocks, cigar_tuples)`

`blocks` are pysam `get_blocks()` (one per aligned operation).  Locals: `cigar_index` (implicit in the
recursion), `block_index` (the remaining `blocks`), `current_block`, `deletions_before_block`,
`resulting_blocks`.  The loop stops when either list is exhausted. -/

def concatGaplessAux (cur : Option Iv) (delBefore : Int) (res : List Iv) :
    List CigarOp → List Iv → List Iv × Option Iv
  | [], _ => (res, cur)
  | _ :: _, [] => (res, cur)
  | op :: ops, b :: bs =>
    match cur with
    | none =>
      if op.1.in_cigar_match_events then concatGaplessAux (some (b.1 - delBefore, b.2)) 0 res ops bs
      else if op.1 = CigarEvent.deletion then concatGaplessAux none op.2 res ops (b :: bs)
      else concatGaplessAux none delBefore res ops (b :: bs)
    | some c =>
      if op.1 = CigarEvent.skipped then concatGaplessAux none delBefore (res ++ [c]) ops (b :: bs)
      else if op.1 = CigarEvent.deletion then concatGaplessAux (some (c.1, c.2 + op.2)) delBefore res ops (b :: bs)
      else if op.1.in_cigar_match_events then concatGaplessAux (some (c.1, b.2)) delBefore res ops bs
      else concatGaplessAux (some c) delBefore res ops (b :: bs)

def concatGaplessBlocks (blocks : List Iv) (ops : List CigarOp) : List Iv :=
  match concatGaplessAux none 0 [] ops blocks with
  | (res, some c) => res ++ [c]
  | (res, none) => res

end IsoVerif.Model.C16
