/-
C04 — executable model of `IntronGraph.attach_terminal_positions` (/repo/src/intron_graph.py):
`collect_terminal_positions`, `is_start_internal` / `is_end_internal`, `cluster_polya_positions` (with its `assert`s and
`find_closest` against the annotated transcript ends), `cluster_terminal_positions`, `attach_transcpt_ends`.
The result is the list of graph operations the call performs: defaultdict reads of `clustered_introns` (`touch`) and the
attachments of `(VERTEX_polya | VERTEX_read_end, pos)` to `outgoing_edges`, `(VERTEX_polyt | VERTEX_read_start, pos)` to
`incoming_edges`.  Core Lean only.

Dicts are insertion-ordered association lists.  Float cut-offs (`count * terminal_position_rel`, …) are exact
thousandths; the second component of the result says whether some comparison was exactly on a boundary (there the
float product of the code may round either way: the harness does not compare such cases).
-/
import IsoVerif.Model.IntronGraph

namespace IsoVerif.Model.C04
open IsoVerif.Gen IsoVerif.Model

/-- position → count (`defaultdict(int)`) -/
abbrev PosCounts := List (Int × Int)
/-- intron → position → count (`defaultdict(lambda: defaultdict(int))`) -/
abbrev TermTable := List (Iv × PosCounts)

/-- `table[intron][pos] += 1` -/
def tableAdd (t : TermTable) (intron : Iv) (pos : Int) : TermTable :=
  amSet t intron (amSet ((amGet? t intron).getD []) pos (cnt ((amGet? t intron).getD []) pos + 1))

structure TermParams where
  delta : Int
  apaDelta : Int
  abs : Int                              -- terminal_position_abs
  relM : Int                             -- terminal_position_rel, thousandths
  internalRelM : Int                     -- terminal_internal_position_rel, thousandths
  knownEnds : List (Iv × List Int)       -- terminal_known_positions
  knownStarts : List (Iv × List Int)     -- starting_known_positions
  deriving Repr, DecidableEq

/-- the four dictionaries `collect_terminal_positions` returns -/
structure Terminals where
  polyaEnds : TermTable
  readEnds : TermTable
  polytStarts : TermTable
  readStarts : TermTable
  deriving Repr, DecidableEq

def Terminals.empty : Terminals := ⟨[], [], [], []⟩

/-- `is_start_internal` -/
def isStartInternal (g : Graph) (delta : Int) (intron : Iv) (readStart : Int) : Bool :=
  (incOf g intron).any (fun v => decide (v.2 - delta ≤ readStart))

/-- `is_end_internal` -/
def isEndInternal (g : Graph) (delta : Int) (intron : Iv) (readEnd : Int) : Bool :=
  (outOf g intron).any (fun v => decide (v.1 + delta ≥ readEnd))

/-- the start half of one iteration of `collect_terminal_positions` -/
def collectStart (g : Graph) (delta : Int) (t : Terminals) (a : Read) (si : Iv) (readStart : Int) : Terminals :=
  if decide (a.strand = "-") && a.polyt then { t with polytStarts := tableAdd t.polytStarts si readStart }
  else if !isStartInternal g delta si readStart then { t with readStarts := tableAdd t.readStarts si readStart }
  else t

/-- the end half -/
def collectEnd (g : Graph) (delta : Int) (t : Terminals) (a : Read) (ti : Iv) (readEnd : Int) : Terminals :=
  if decide (a.strand = "+") && a.polya then { t with polyaEnds := tableAdd t.polyaEnds ti readEnd }
  else if !isEndInternal g delta ti readEnd then { t with readEnds := tableAdd t.readEnds ti readEnd }
  else t

/-- one iteration of the loop of `collect_terminal_positions`; `none` = IndexError (a spliced read without exons) -/
def collectStep (g : Graph) (delta : Int) (t : Terminals) (a : Read) : Option Terminals :=
  if a.multimapper || a.introns.isEmpty then some t
  else if a.introns.any (fun i => decide (i ∈ g.col.discarded)) then some t
  else
    match a.introns.head?, a.introns.getLast?, a.exons.head?, a.exons.getLast? with
    | some i0, some il, some e0, some el =>
      let si := g.col.substitute i0
      if e0.1 ≥ si.1 then some t      -- substituted intron shifted to the left: the read contributes nothing
      else
        let t1 := collectStart g delta t a si e0.1
        let ti := g.col.substitute il
        if el.2 ≤ ti.2 then some t1
        else some (collectEnd g delta t1 a ti el.2)
    | _, _, _, _ => none

/-- `collect_terminal_positions` -/
def collectTerminals (g : Graph) (delta : Int) (reads : List Read) : Option Terminals :=
  reads.foldlM (collectStep g delta) Terminals.empty

/-- `max(d.items(), key=lambda x: x[1])`: the first entry with the largest count -/
def firstMaxCount : PosCounts → Option (Int × Int)
  | [] => none
  | p :: t =>
    match firstMaxCount t with
    | none => some p
    | some q => if p.2 < q.2 then some q else some p

/-- `find_closest(value, l)`: `(best_el, best_diff)`, the first element at minimal distance; `none` for an empty list -/
def findClosest (value : Int) : List Int → Option (Int × Int)
  | [] => none
  | v :: t =>
    match findClosest value t with
    | none => some (v, iabs (v - value))
    | some b => if b.2 < iabs (v - value) then some b else some (v, iabs (v - value))

def inWindow (top apa : Int) (q : Int × Int) : Bool := decide (top - apa ≤ q.1) && decide (q.1 ≤ top + apa)

/-- the representative of a cluster: the annotated transcript end closest to the best supported position when it is
    within `apa_delta` (`if nearest_position and diff_to_nearest_position <= apa_delta`), else that position -/
def polyaTop (apa : Int) (known : List Int) (pos : Int) : Int :=
  match findClosest pos known with
  | some b => if b.1 ≠ 0 ∧ b.2 ≤ apa then b.1 else pos
  | none => pos

/-- the `while position_dict` loop of `cluster_polya_positions`; `none` = an `assert` fails (or the loop never ends) -/
def clusterPolyaLoop (apa : Int) (known : List Int) (intron : Iv) (readEnd : Bool) :
    Nat → PosCounts → PosCounts → Option PosCounts
  | 0, _, _ => none
  | fuel + 1, dict, acc =>
    match firstMaxCount dict with
    | none => some acc
    | some best =>
      let top := polyaTop apa known best.1
      if (readEnd && decide (top ≤ intron.2)) || (!readEnd && decide (top ≥ intron.1)) then none
      else
        clusterPolyaLoop apa known intron readEnd fuel (dict.filter (fun q => !inWindow top apa q))
          (amSet acc top (((dict.filter (inWindow top apa)).map (·.2)).sum))

def maxCount (a : Int × Int) (t : PosCounts) : Int := t.foldl (fun m v => max m v.2) a.2
def maxKey (a : Int × Int) (t : PosCounts) : Int := t.foldl (fun m v => max m v.1) a.1
def minKey (a : Int × Int) (t : PosCounts) : Int := t.foldl (fun m v => min m v.1) a.1

/-- `cluster_polya_positions`; the Bool: a count is exactly on the relative cut-off -/
def clusterPolya (p : TermParams) (dict : PosCounts) (intron : Iv) (readEnd : Bool) : Option (PosCounts × Bool) :=
  if dict.isEmpty then some ([], false)
  else
    let known := (amGet? (if readEnd then p.knownEnds else p.knownStarts) intron).getD []
    match clusterPolyaLoop p.apaDelta known intron readEnd (dict.length + 1) dict [] with
    | none => none
    | some [] => some ([], false)
    | some (a :: t) =>
      let maxc := maxCount a t
      if maxc = p.abs then some (a :: t, false)
      else
        let cutoffM := max (maxc * p.relM) (p.abs * 1000)
        some ((a :: t).filter (fun kv => decide (kv.2 * 1000 ≥ cutoffM)),
              decide (maxc * p.relM ≥ p.abs * 1000) && (a :: t).any (fun kv => decide (kv.2 * 1000 = maxc * p.relM)))

/-- `cluster_terminal_positions` with the cut-off in thousandths -/
def clusterTerminal (dict : PosCounts) (readEnd : Bool) (cutoffM : Int) : PosCounts :=
  match dict with
  | [] => []
  | a :: t =>
    let total := ((a :: t).map (·.2)).sum
    if total * 1000 < cutoffM then [] else [(if readEnd then maxKey a t else minKey a t, total)]

/-- `attach_transcpt_ends(intron, polya_confirmed_positions, read_terminal_positions, read_end)` as operations -/
def attachEnds (g : Graph) (p : TermParams) (intron : Iv) (polyaConf readTerm : PosCounts) (readEnd : Bool) :
    Option (List Op × Bool) :=
  match clusterPolya p polyaConf intron readEnd with
  | none => none
  | some (clustered, fr1) =>
    let cutoff1M : Int := match clustered with
      | [] => p.abs * 1000
      | a :: t => max (p.abs * 1000) (maxCount a t * p.relM)
    let extra : PosCounts := match clustered with
      | [] => readTerm
      | a :: t =>
        if readEnd then readTerm.filter (fun kv => decide (kv.1 ≥ maxKey a t + p.apaDelta))
        else readTerm.filter (fun kv => decide (kv.1 ≤ minKey a t - p.apaDelta))
    let nbrs := if readEnd then outOf g intron else incOf g intron
    let touches := (nbrs.filter (fun i => !amHas g.col.clustered i)).map Op.touch
    let nbrM : Option Int := match nbrs with
      | [] => none
      | a :: t => some ((t.foldl (fun m i => max m (cnt g.col.clustered i)) (cnt g.col.clustered a)) * p.internalRelM)
    let cutoffM := match nbrM with | none => cutoff1M | some x => max cutoff1M x
    let terminal := clusterTerminal extra readEnd cutoffM
    let total := (extra.map (·.2)).sum
    let fr2 := !extra.isEmpty && decide (total * 1000 = cutoffM) &&
      ((match clustered with | [] => false | a :: t => decide (maxCount a t * p.relM = cutoffM)) ||
       (match nbrM with | none => false | some x => decide (x = cutoffM)))
    some (touches ++
            (amKeys clustered).map (fun pos => if readEnd then Op.attachOut intron (VERTEX_polya, pos)
                                               else Op.attachInc intron (VERTEX_polyt, pos)) ++
            (amKeys terminal).map (fun pos => if readEnd then Op.attachOut intron (VERTEX_read_end, pos)
                                              else Op.attachInc intron (VERTEX_read_start, pos)),
          fr1 || fr2)

/-- both calls of `attach_transcpt_ends` for one intron -/
def attachIntron (g : Graph) (p : TermParams) (t : Terminals) (acc : List Op × Bool) (intron : Iv) : Option (List Op × Bool) :=
  match attachEnds g p intron ((amGet? t.polyaEnds intron).getD []) ((amGet? t.readEnds intron).getD []) true with
  | none => none
  | some (o1, f1) =>
    match attachEnds g p intron ((amGet? t.polytStarts intron).getD []) ((amGet? t.readStarts intron).getD []) false with
    | none => none
    | some (o2, f2) => some (acc.1 ++ o1 ++ o2, acc.2 || f1 || f2)

/-- `attach_terminal_positions` as the list of operations it performs (and the boundary flag) -/
def attachTerminalOps (g : Graph) (p : TermParams) (reads : List Read) : Option (List Op × Bool) :=
  match collectTerminals g p.delta reads with
  | none => none
  | some t => (sortIv (amKeys g.col.clustered)).foldlM (attachIntron g p t) ([], false)

/-- `attach_terminal_positions()` -/
def Graph.attachTerminals (g : Graph) (p : TermParams) (reads : List Read) : Option Graph :=
  match attachTerminalOps g p reads with
  | none => none
  | some (ops, _) => ops.foldlM applyOp g

end IsoVerif.Model.C04
