/-
C09 — the VALUES of a grouped TPM table (`AssignedFeatureCounter.convert_counts_to_tpm`, branch
`not self.ignore_read_groups`, src/long_read_counter.py).

The function reads the merged grouped count file (header lines, then one row per feature with one `%.2f` value per
group) twice: the first pass sums every column (`total_counts[j] += float(fs[j + 1])`), the second writes
`scale_factors[j] * count` per cell, with `scale_factors[j] = 1000000.0 / total` (`total` replaced by 1.0 when it is
not positive).  Both passes stop at the first statistics line (`STAT_LINE_PREFIXES`, generated: `tpm_stop_names`) and
skip the header = the first line of the file (before the repair `fix_tpm_header`: every line starting with `#`).  The usable-reads normalisation is applied only when `self.ignore_read_groups`, i.e.
never here; zero rows are never dropped in the grouped branch.

A row is (feature id, printed counts in hundredths); TPM values are exact rationals (printed with `%.6f`).
Core Lean only.
-/
import IsoVerif.Model.C09
import IsoVerif.Gen.CounterTables

namespace IsoVerif.Model.C09
open IsoVerif.Gen

/-- `float(fs[j + 1])` of a printed count given in hundredths -/
def printedVal (h : Int) : Rat := (h : Rat) / 100

/-- one row of the first pass: `total_counts[j] += float(fs[j + 1])` for `j in range(len(fs) - 1)`; the
    `defaultdict(float)` grows with the longest row seen (keys 0, 1, 2, … in this order) -/
def addCols : List Rat → List Int → List Rat
  | ts, [] => ts
  | [], h :: hs => (0 + printedVal h) :: addCols [] hs
  | t :: ts, h :: hs => (t + printedVal h) :: addCols ts hs

/-- `line.startswith(STAT_LINE_PREFIXES)`: the feature id is one of the statistics names (an id contains no tab) -/
def isStatId (f : String) : Bool := tpm_stop_names.contains f

/-- `line.startswith('#')` (the header test of the tree before the repair `fix_tpm_header`) -/
def isCommentId (f : String) : Bool := f.toList.head? == some '#'

/-- the prefixes end with a tab: a line that consists of a statistics name alone (no value column) is not a statistics line -/
def isStatRow (r : String × List Int) : Bool := isStatId r.1 && !r.2.isEmpty

/-- the rows both passes look at: every row up to the first statistics line.  `rows` are the lines AFTER the header,
    which is the first line of the file (`is_header_line`, repair `fix_tpm_header`); a feature id may start with `#` -/
def tpmInputRowsG (rows : List (String × List Int)) : List (String × List Int) :=
  rows.takeWhile (fun r => !isStatRow r)

/-- the rows the tree BEFORE the repair `fix_tpm_header` looked at: `if line.startswith('#'): continue` skipped every
    row whose id starts with `#` -/
def tpmInputRowsGOrig (rows : List (String × List Int)) : List (String × List Int) :=
  (rows.takeWhile (fun r => !isStatRow r)).filter (fun r => !isCommentId r.1)

/-- `total_counts` after the first pass -/
def gTotals (rows : List (String × List Int)) : List Rat :=
  rows.foldl (fun acc r => addCols acc r.2) []

/-- `scale_factors[j]`; `usable` = `normalization == usable_reads and self.ignore_read_groups and self.reads_for_tpm`,
    which is false for every grouped counter whatever the normalisation -/
def gScale (total : Rat) : Rat := if total > 0 then 1000000 / total else 1000000 / 1

/-- `[scale_factors[i] * counts[i] for i in range(len(scale_factors))]`: `IndexError` for a row shorter than the
    longest one; surplus values cannot occur (the scale factors have the length of the longest row) -/
def tpmRow : List Rat → List Int → Except Err (List Rat)
  | [], _ => .ok []
  | _ :: _, [] => .error .indexError
  | s :: ss, h :: hs =>
    match tpmRow ss hs with
    | .error e => .error e
    | .ok r => .ok (s * printedVal h :: r)

def tpmRows (sf : List Rat) : List (String × List Int) → Except Err (List (String × List Rat))
  | [] => .ok []
  | r :: rs =>
    match tpmRow sf r.2 with
    | .error e => .error e
    | .ok v =>
      match tpmRows sf rs with
      | .error e => .error e
      | .ok t => .ok ((r.1, v) :: t)

/-- `convert_counts_to_tpm(normalization)` of a grouped counter on the rows of its count file; the arguments
    `usableNorm` (normalisation = usable_reads) and `readsForTpm` are accepted and ignored, as in the code -/
def groupedTpm (_usableNorm : Bool) (_readsForTpm : Nat) (rows : List (String × List Int)) :
    Except Err (List (String × List Rat)) :=
  let inp := tpmInputRowsG rows
  tpmRows ((gTotals inp).map gScale) inp

end IsoVerif.Model.C09
