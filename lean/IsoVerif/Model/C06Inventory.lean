/-
C06 — the hand-written "handled" tables against which the inventories regenerated from /repo
(`Gen/SharedState.lean`, `Gen/SetSites.lean`) are checked by `decide` in `Props/C06.lean`.
Every entry names the argument (a theorem of Props/C06 or a reading recorded in docs/C06.md) by which the
per-chromosome output does not depend on that piece of state / on that iteration order.
A new entry in a regenerated inventory has no line here, the `decide` fails, the obligation is open again.
Core Lean only.
-/
import IsoVerif.Gen.SharedState
import IsoVerif.Gen.SetSites

namespace IsoVerif.Model.C06Inv

/-- why a piece of process-wide state cannot influence an output file -/
inductive StateArg where
  | equalityOnlyWithinChromosome   -- `assignment_id_renumbering_invariant`, `collect_ids_shift`
  | neverRead                      -- `feature_id_counter_unread` (+ generated `feature_info_readers`)
  | resetPerTask                   -- `construct_state_independent` (reset at task start, /repo 42b6bc8)
  | logOnlyParentOnly              -- `duplicate_counter_log_only`
  deriving DecidableEq, Repr

def handled_state : List (String × StateArg) := [
  ("ReadAssignment.assignment_id_generator", .equalityOnlyWithinChromosome),
  ("FeatureInfo.feature_id_counter", .neverRead),
  ("GraphBasedModelConstructor.detected_known_isoforms", .resetPerTask),
  -- added by fix b2b4dd9 (C04): keys (strand, intron chain) of the novel models already reported on this chromosome; the
  -- same mechanics as `detected_known_isoforms` (a class-level set, cleared at the top of every chromosome task,
  -- filtered against and extended block by block).  In Model/Schedule.lean both sets are the ONE list `WState.detected`
  -- over the disjoint union of the two key spaces (isoform ids / chain keys), `Block.known` = the keys a block reports
  ("GraphBasedModelConstructor.reported_novel_chains", .resetPerTask),
  ("MultimapResolver.duplicate_counter", .logOnlyParentOnly)]

/-- fields of the `args` namespace assigned after start-up.  All assignments happen in the parent before a pool
    is created (`DatasetProcessor.__init__`, `process_sample`, `isoquant.py` set-up); workers receive a pickled
    copy with every task, so within one experiment they are constants of the run (their behaviour *across*
    experiments is C10) -/
def handled_args_fields : List String := [
  "fai_file_name", "gunzipped_reference", "junc_bed_file", "output_exists", "reference",
  "gzi_file_name",     -- (/repo 8f3abaa) set next to fai_file_name in DatasetProcessor.__init__, before any pool exists
  "require_monoexonic_polya", "require_monointronic_polya", "requires_polya_for_construction",
  "use_technical_replicas",
  -- assigned by `process_sample` of a run restarted with --read_assignments only (repair of audit 2-C GAP 1-4): the
  -- command-line value kept in `requested_read_group`, else the grouping mode stored in the experiment's `_info` file
  "read_group"]

/-- why the iteration order of a set cannot reach an output file -/
inductive IterArg where
  | modelled          -- a `hash_independent_…` theorem of Props/C06
  | sortedAfter       -- the result is passed to `sorted` before it is used
  | sortedBefore      -- the expression is a sorted list at that point (the scan is flow-insensitive)
  | quantifier        -- all / any / membership / len: order-free
  | commutative       -- the loop body only adds to sets / per-key counters, or removes the element itself
  | intKeys           -- elements are ints or tuples of ints: CPython hashes them without the seed, the order is a
                      -- function of the (deterministic) insertion history only
  | singleton         -- `list(s)[0]` on a set of one element
  | debugOnly         -- feeds logger.debug only
  deriving DecidableEq, Repr

def handled_set_sites : List (String × IterArg) := [
  ("src.dataset_processor:DatasetProcessor.collect_reads:list:all_read_groups", .modelled),
  ("src.dataset_processor:collect_reads_in_parallel:for:read_grouper.read_groups", .modelled),
  ("src.gene_info:GeneInfo.from_models:list:exons", .sortedAfter),
  ("src.gene_info:GeneInfo.from_models:list:introns", .sortedAfter),
  ("src.gene_info:GeneInfo.set_introns_and_exons:list:exons", .sortedAfter),
  ("src.gene_info:GeneInfo.set_introns_and_exons:list:introns", .sortedAfter),
  ("src.graph_based_model_construction:GraphBasedModelConstructor.collect_terminal_exons_from_graph:for:self.intron_graph.incoming_edges[intron]", .intKeys),
  ("src.graph_based_model_construction:GraphBasedModelConstructor.collect_terminal_exons_from_graph:for:self.intron_graph.outgoing_edges[intron]", .intKeys),
  ("src.graph_based_model_construction:GraphBasedModelConstructor.correct_novel_transcript_ends:for:read_starts", .sortedBefore),
  ("src.graph_based_model_construction:GraphBasedModelConstructor.select_reference_gene:for:self.intron_genes[intron] => sorted(gene_counts.items(), key=lambda x: (x[1], x[0]), reverse=True)", .modelled),
  ("src.intron_graph:IntronCollector.simplify_correction_map:for:to_remove", .intKeys),
  ("src.intron_graph:IntronGraph.attach_transcpt_ends:comp:self.incoming_edges[intron]", .intKeys),
  ("src.intron_graph:IntronGraph.attach_transcpt_ends:comp:self.outgoing_edges[intron]", .intKeys),
  ("src.intron_graph:IntronGraph.clean_tips_and_bulges:for:to_remove", .intKeys),
  ("src.intron_graph:IntronGraph.collapse_vertex:for:self.incoming_edges[to_collapse]", .intKeys),
  ("src.intron_graph:IntronGraph.collapse_vertex:for:self.outgoing_edges[to_collapse]", .intKeys),
  ("src.intron_graph:IntronGraph.get_connected_component:for:self.incoming_edges[intron]", .intKeys),
  ("src.intron_graph:IntronGraph.get_connected_component:for:self.outgoing_edges[intron]", .intKeys),
  ("src.intron_graph:IntronGraph.get_incoming:for:self.incoming_edges[intron] => sorted(res)", .intKeys),
  ("src.intron_graph:IntronGraph.get_outgoing:for:self.outgoing_edges[intron] => sorted(res)", .intKeys),
  ("src.intron_graph:IntronGraph.get_overlapping_component_max_coverage:comp:processed_introns", .intKeys),
  ("src.intron_graph:IntronGraph.get_overlapping_component_max_coverage:for:all_vertices => for:processed_introns ; max((self.intron_collector.clustered_introns[i] for i in processed_introns))", .intKeys),
  ("src.intron_graph:IntronGraph.get_overlapping_component_max_coverage:for:self.incoming_edges[intron]", .intKeys),
  ("src.intron_graph:IntronGraph.get_overlapping_component_max_coverage:for:self.outgoing_edges[intron]", .intKeys),
  ("src.intron_graph:IntronGraph.is_end_internal:for:self.outgoing_edges[intron]", .intKeys),
  ("src.intron_graph:IntronGraph.is_monointron:comp:self.incoming_edges[v]", .intKeys),
  ("src.intron_graph:IntronGraph.is_monointron:comp:self.outgoing_edges[v]", .intKeys),
  ("src.intron_graph:IntronGraph.is_start_internal:for:self.incoming_edges[intron]", .intKeys),
  ("src.intron_graph:IntronGraph.print_graph:comp:self.incoming_edges[intron]", .debugOnly),
  ("src.intron_graph:IntronGraph.print_graph:comp:self.outgoing_edges[intron]", .debugOnly),
  ("src.intron_graph:IntronGraph.remove_isolates:for:isolated", .intKeys),
  ("src.intron_graph:IntronGraph.remove_isolates:for:to_remove", .intKeys),
  ("src.intron_graph:IntronGraph.remove_singleton_dead_ends:comp:self.incoming_edges[current_intron]", .intKeys),
  ("src.intron_graph:IntronGraph.remove_singleton_dead_ends:comp:self.outgoing_edges[current_intron]", .intKeys),
  ("src.intron_graph:IntronGraph.signleton_dead_end:list:self.outgoing_edges[v]", .intKeys),
  ("src.intron_graph:IntronGraph.signleton_dead_start:list:self.incoming_edges[v]", .intKeys),
  ("src.long_read_assigner:LongReadAssigner.classify_assignment:comp:all_event_types", .quantifier),
  ("src.long_read_counter:AssignedFeatureCounter.add_read_info:for:feature_ids", .commutative),
  ("src.long_read_counter:AssignedFeatureCounter.add_read_info:list:feature_ids", .singleton),
  ("src.long_read_counter:AssignedFeatureCounter.dump:filter:self.all_features", .sortedAfter),
  ("src.long_read_counter:AssignedFeatureCounter.dump_grouped:for:all_features", .sortedBefore),
  ("src.long_read_counter:AssignedFeatureCounter.dump_ungrouped:for:all_features", .sortedBefore)]

/-- run-dependent primitives.  `hash(path)` names the BAM that IsoQuant writes when it aligns FASTQ input itself
    (needs minimap2): an intermediate file under `aux/`, no output file contains it.
    `load_indexed_reference:uuid.uuid4` (after /repo commit eab0ef3) names the temporary file under which the FASTA index is
    built; the file is renamed to `<reference>.fai` before anything reads it and the name reaches no output.
    `gtf2db:uuid.uuid4` (repair of audit2 C20-G2, fix_db_built_atomically.patch) names the temporary file under which the
    annotation database is built; it is renamed to `<output>/<annotation>.db` before anything opens it, the name reaches no
    output (listed ahead of the commit: the obligation is a subset test) -/
def handled_nondeterminism : List String := ["src.dataset_processor:load_indexed_reference:uuid.uuid4", "src.gtf2db:gtf2db:uuid.uuid4", "src.read_mapper:align_fasta:hash"]

/-- readers of `.assignment_id`: copy / (de)serialise, and the equality test of the loader -/
def handled_assignment_id_readers : List String := [
  "src.dataset_processor:ReadAssignmentLoader.get_next",
  "src.isoform_assignment:BasicReadAssignment.__getstate__",
  "src.isoform_assignment:BasicReadAssignment.__init__",
  "src.isoform_assignment:BasicReadAssignment.serialize",
  "src.isoform_assignment:ReadAssignment.serialize"]

/-- functions that touch the FeatureInfo objects: they read chr/start/end/strand/type/gene_ids, never `.id`
    (after /repo commit a8ffd5c the rows are keyed by the feature itself) -/
def handled_feature_info_readers : List String := [
  "src.long_read_counter:ExonCounter.add_read_info",
  "src.long_read_counter:IntronCounter.add_read_info"]

def subsetB (a b : List String) : Bool := a.all (fun x => b.contains x)

/-- `a` is a subsequence of `b` (hence a subset): linear walk for the long tables, both of which are kept in
    the generator's sorted order -/
def subseqB : List String → List String → Bool
  | [], _ => true
  | _ :: _, [] => false
  | x :: xs, y :: ys => if x == y then subseqB xs ys else subseqB (x :: xs) ys

def unhandled (a b : List String) : List String := a.filter (fun x => !b.contains x)

end IsoVerif.Model.C06Inv
