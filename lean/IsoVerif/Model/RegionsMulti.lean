/-
C05 (growth) — an experiment made of SEVERAL BAM files, both memory modes.  Core Lean only.

Composition of the two existing models:
* `Model/BamMerge.lean` (C12): `BAMOnlineMerger._set / get` — the k-way merge on the key
  `(reference_start, reference_end, bam_index)`, `fetch`;
* `Model/Regions.lean` (C05): `add_alignment`, `alignment_is_not_adjacent`, `split_coverage_regions`, `fill_index`,
  `get_alignments`, the statistics counting.

What is new here is the code between them (`src/alignment_processor.py`, `src/dataset_processor.py`):
* the merger yields `(bam_index, alignment)`; `AlignmentCollector.__init__` builds ONE merger over
  `fetch(chr, 0, get_reference_length(chr) + 1)` of every file (length taken from the FIRST file) — the cluster scan
  (`scanStream`);
* `InMemoryAlignmentStorage` keeps the pairs as they arrive (`MStore.pairs`) and slices that list with its two bin
  indices (`MStore.memGet`); `BAMAlignmentStorage.get_alignments(region)` builds a NEW merger over
  `fetch(chr, region[0], region[1] + 1)` of every file (`regionStream`) — so in default mode the file index of an
  alignment is recomputed by the second merger;
* the per-chromosome statistics are added up over chromosomes (`EnumStats.merge`) and `count_unaligned_reads` adds
  `bam.unmapped` of every file (`experimentStats`);
* `read_groupper.get_group_id(alignment, self.bam_merger.bam_pairs[bam_index][1])` with the file-name grouper
  (`fileGroup`).

Records.  A record of a BAM file is C12's `(reference_start, reference_end, tag)`; the tag stands for the rest of the
pysam record and `rest : Nat → Aln` reads it off (`full`).  Every tuple of files of full records is of this form
(`tagFiles`, `restOf`; theorem `Props.C05Multi.tagging_faithful`), and the driver uses exactly that construction.
-/
import IsoVerif.Model.Regions
import IsoVerif.Model.BamMerge

namespace IsoVerif.Model.RegionsMulti
open IsoVerif.Gen IsoVerif.Model IsoVerif.Model.Regions

/-! ### records -/

/-- the full alignment of a record: coordinates from the record, everything else from its tag -/
def full (rest : Nat → Aln) (b : C12.Aln) : Aln := { rest b.tag with start := b.start, stop := b.stop }

/-- what the merger yields and the storages keep: `(bam_index, alignment)` -/
abbrev FAln := Nat × Aln

def label (rest : Nat → Aln) (e : C12.Entry) : FAln := (e.1, full rest e.2)

/-- `BAMOnlineMerger(bam_pairs, chr_id, r.1, r.2, …).get()`: every file is fetched on `[r.1, r.2 + 1)` and the k
    iterators are merged; an empty iterator (`StopIteration` at priming) contributes nothing and does not stop the
    priming of the later files -/
def regionStream (rest : Nat → Aln) (files : List (List C12.Aln)) (r : Iv) : List FAln :=
  (C12.merge (files.map (C12.fetch r))).map (label rest)

/-- the merger of `AlignmentCollector.__init__`: region `(0, get_reference_length(chr_id))` of the first file -/
def scanStream (rest : Nat → Aln) (files : List (List C12.Aln)) (L : Int) : List FAln :=
  regionStream rest files (0, L)

/-! ### storages holding `(bam_index, alignment)` pairs -/

structure MStore where
  base : Store          -- region, coverage_dict, counter, the two bin-index dictionaries (they ignore bam_index)
  pairs : List FAln     -- `alignment_storage` of the in-memory storage, in arrival order

def MStore.empty : MStore := ⟨Store.empty, []⟩

/-- `add_alignment(bam_index, alignment)` -/
def MStore.add (s : MStore) (e : FAln) : MStore := ⟨s.base.add e.2, s.pairs ++ [e]⟩

/-! ### `AlignmentCollector.process` over the merged stream -/

structure MPState where
  store : MStore
  out : List MStore
  stats : Stats

def MPState.init : MPState := ⟨MStore.empty, [], fun _ => 0⟩

/-- one iteration of `for bam_index, alignment in self.bam_merger.get()` -/
def mProcessStep (st : MPState) (e : FAln) : MPState :=
  if notAdjacent st.store.base.region e.2 then
    ⟨MStore.empty.add e, st.out ++ [st.store], statStep st.stats e.2⟩
  else
    ⟨st.store.add e, st.out, statStep st.stats e.2⟩

def mProcessFinish (st : MPState) : List MStore :=
  if st.store.base.region.isSome then st.out ++ [st.store] else st.out

def mProcessStores (l : List FAln) : List MStore := mProcessFinish (l.foldl mProcessStep MPState.init)
def mProcessStats (l : List FAln) : Stats := (l.foldl mProcessStep MPState.init).stats

/-! ### `get_alignments` of the two storages -/

/-- `InMemoryAlignmentStorage.get_alignments(region)`: the stored pairs, or the slice
    `[alignment_end_index[start_bin], alignment_start_index[end_bin + 1])` of them filtered by overlap -/
def MStore.memGet (s : MStore) (r : Option Iv) : Option (List FAln) :=
  match r with
  | none => some s.pairs
  | some r =>
    if some r = s.base.region then some s.pairs
    else match s.base.fillIndex with
      | none => none
      | some s' =>
        match s'.endIdx.get (bin r.1), s'.startIdx.get (bin r.2 + 1) with
        | some si, some ei =>
          if ei ≤ s.pairs.length then
            some (((s.pairs.take ei).drop si).filter (fun e => overlaps r e.2.iv))
          else none
        | _, _ => none

/-- `storage.get_alignments(region)`; default mode: `BAMOnlineMerger(bam_pairs, chr_id, region[0], region[1],
    multiple_iterators=True).get()` with `region = self.region` when none is given -/
def getAlignmentsM (m : Mode) (rest : Nat → Aln) (files : List (List C12.Aln)) (s : MStore) (r : Option Iv) :
    Option (List FAln) :=
  match m with
  | .memory => s.memGet r
  | .bam => match (match r with | none => s.base.region | some r => some r) with
    | none => none
    | some r => some (regionStream rest files r)

def mapRegionsM (get : Iv → Option (List FAln)) : List Iv → Option (List (Iv × List FAln))
  | [] => some []
  | r :: rs => match get r, mapRegionsM get rs with
    | some x, some xs => some ((r, x) :: xs)
    | _, _ => none

/-- `forward_alignments(storage)` -/
def forwardM (m : Mode) (rest : Nat → Aln) (files : List (List C12.Aln)) (s : MStore) :
    Option (List (Iv × List FAln)) :=
  match s.base.region with
  | none => none
  | some R =>
    match splitCoverageRegions R s.base.alns.length s.base.cov with
    | none => none
    | some [_] => (getAlignmentsM m rest files s none).map (fun x => [(R, x)])
    | some regs => mapRegionsM (fun r => getAlignmentsM m rest files s (some r)) regs

def collectStoresM (f : MStore → Option (List (Iv × List FAln))) : List MStore → Option (List (Iv × List FAln))
  | [] => some []
  | s :: ss => match f s, collectStoresM f ss with
    | some x, some xs => some (x ++ xs)
    | _, _ => none

/-- everything `AlignmentCollector.process` hands to `process_alignments_in_region` for one chromosome of an
    experiment of `files.length` BAM files: `(region, [(bam_index, alignment)])` in order -/
def collectM (m : Mode) (rest : Nat → Aln) (files : List (List C12.Aln)) (L : Int) :
    Option (List (Iv × List FAln)) :=
  collectStoresM (forwardM m rest files) (mProcessStores (scanStream rest files L))

/-- `alignment_stat_counter` of the collector after `process()` -/
def chromStats (rest : Nat → Aln) (files : List (List C12.Aln)) (L : Int) : Stats :=
  mProcessStats (scanStream rest files L)

/-! ### statistics of the experiment (`DatasetProcessor.collect_reads`) -/

/-- `EnumStats.merge` -/
def statsMerge (a b : Stats) : Stats := fun t => a t + b t

/-- `count_unaligned_reads`: `alignment_stat_counter.add(AlignmentType.unaligned, bam.unmapped)` for every file -/
def addUnaligned (s : Stats) (unmapped : List Nat) : Stats :=
  unmapped.foldl (fun s u => fun t => if t = AlignmentType.unaligned then s t + u else s t) s

/-- the counter printed after "Alignments collected": per-chromosome counters merged in `get_chr_list` order, then the
    unaligned reads of every file -/
def experimentStats (rest : Nat → Aln) (chroms : List (List (List C12.Aln) × Int)) (unmapped : List Nat) : Stats :=
  addUnaligned (chroms.foldl (fun s c => statsMerge s (chromStats rest c.1 c.2)) (fun _ => 0)) unmapped

/-! ### read group by file name -/

/-- `read_groupper.get_group_id(alignment, self.bam_merger.bam_pairs[bam_index][1])` for `FileNameGrouper`
    (`none` = `IndexError`); `readable` = `readable_names_dict` -/
def fileGroup (names : List String) (readable : String → Option String) (i : Nat) : Option String :=
  match names[i]? with
  | none => none
  | some f =>
    match readable f with
    | some n => some n
    | none => if f = "" then some "NA" else some f

/-! ### every tuple of files of full records is of the tagged form -/

def tagList (n : Nat) : List Aln → List C12.Aln
  | [] => []
  | a :: t => ⟨a.start, a.stop, n⟩ :: tagList (n + 1) t

/-- number the records of all files consecutively -/
def tagFiles (n : Nat) : List (List Aln) → List (List C12.Aln)
  | [] => []
  | f :: fs => tagList n f :: tagFiles (n + f.length) fs

def restOf (flat : Array Aln) (t : Nat) : Aln := flat[t]?.getD default

/-- the collector on files of full records -/
def collectFiles (m : Mode) (files : List (List Aln)) (L : Int) : Option (List (Iv × List FAln)) :=
  collectM m (restOf files.flatten.toArray) (tagFiles 0 files) L

def chromStatsFiles (files : List (List Aln)) (L : Int) : Stats :=
  chromStats (restOf files.flatten.toArray) (tagFiles 0 files) L

end IsoVerif.Model.RegionsMulti
