/-
Executable model of the read-to-isoform assignment (property C01):
  src/gene_info.py           GeneInfo.from_models (gene model from an isoform list)
  src/long_read_profiles.py  CombinedProfileConstructor.construct_profiles (on top of Model/Profiles.lean)
  src/long_read_assigner.py  LongReadAssigner: find_containing/overlapping/matching_isoforms, match_consistent
                             (_spliced/_unspliced), resolve_by_nucleotide_score (exact rationals),
                             categorize_correct_splice_match / _unspliced_match, categorize_exon_elongation_subtype,
                             check_read_ends, verify_read_ends_for_assignment, classify_assignment,
                             select_similar_isoforms, detect_inconsistensies, select_best_among_inconsistent,
                             match_inconsistent, assign_to_isoform
  src/polya_verification.py  PolyAVerifier.verify_read_ends and everything below it, shift_polya / shift_polyt
  src/common.py              has_overlapping_features, equal_profiles_in_range, difference_in_present_features
JunctionComparator.compare_junctions: its result (one event list per isoform) is an INPUT of `matchInconsistent` /
`assignToIsoform` (`cj`) in this file; the theorems of Props/C01, C01Path, C01Far quantify over it.  The comparator itself
is modelled in Model/JunctionCompare.lean (`compareJunctions`); `assignReadM` there is `assignRead` with `cj` := the model.

Core Lean only.  Isoform ids are positions in the isoform list (the harness names isoforms so that the string order of
the ids is the list order; every place where the code iterates a `set` of ids ends in a `sorted(...)`).
`none` of the outer `Option` = the real code raises (IndexError / AssertionError / ZeroDivisionError).
-/
import IsoVerif.Gen.Prims
import IsoVerif.Gen.Enums
import IsoVerif.Gen.EventClasses
import IsoVerif.Model.Interval
import IsoVerif.Model.Profiles

namespace IsoVerif.Model.C01
open IsoVerif.Gen IsoVerif.Model

/-! ### parameters (the `args` fields the assigner reads; `isoquant.py set_matching_options`) -/

inductive Strand where
  | plus | minus | other
  deriving DecidableEq, Repr, Inhabited

/-- `AmbiguityResolvingMethod` (the four methods; `minimal_score = -0.5`, `top_scored_factor = 1.5` are below) -/
inductive Resolve where
  | none | monoexon_only | monoexon_and_fsm | all
  deriving DecidableEq, Repr, Inhabited

structure Params where
  delta : Int
  minor_exon_extension : Int
  major_exon_extension : Int
  min_abs_exon_overlap : Int
  apa_delta : Int
  minimal_exon_overlap : Int
  minimal_intron_absence_overlap : Int
  max_fake_terminal_exon_len : Int
  max_missed_exon_len : Int
  resolve_ambiguous : Resolve
  deriving Repr

/-! ### error-monad list helpers -/

/-- `List.filterM` in the error monad, evaluated left to right -/
def filterOpt {α} (f : α → Option Bool) : List α → Option (List α)
  | [] => some []
  | x :: xs =>
    match f x with
    | none => none
    | some b =>
      match filterOpt f xs with
      | none => none
      | some r => some (if b then x :: r else r)

def mapOpt {α β} (f : α → Option β) : List α → Option (List β)
  | [] => some []
  | x :: xs =>
    match f x with
    | none => none
    | some b =>
      match mapOpt f xs with
      | none => none
      | some r => some (b :: r)

/-! ### gene model: `GeneInfo.from_models` -/

structure Isoform where
  exons : List Iv
  strand : Strand
  deriving Repr

/-- lexicographic `<` on tuples (Python tuple order) -/
def ivLt (a b : Iv) : Bool := decide (a.1 < b.1) || (decide (a.1 = b.1) && decide (a.2 < b.2))

def insertIv (x : Iv) : List Iv → List Iv
  | [] => [x]
  | y :: ys => if ivLt x y then x :: y :: ys else if x = y then y :: ys else y :: insertIv x ys

/-- `sorted(list(set(l)))` -/
def sortDedupIv : List Iv → List Iv
  | [] => []
  | x :: xs => insertIv x (sortDedupIv xs)

/-- `(l[0][0], l[-1][1])`; `none` = IndexError on the empty list -/
def regionOf (l : List Iv) : Option Iv :=
  match l.head?, l.getLast? with
  | some f, some t => some (f.1, t.2)
  | _, _ => none

/-- everything the assigner reads about one isoform -/
structure IsoInfo where
  id : Nat
  exons : List Iv
  introns : List Iv            -- all_isoforms_introns[id]
  region : Iv                  -- transcript_region(id)
  strand : Strand
  intronProf : List Int        -- intron_profiles.profiles[id]
  intronRange : Int × Int      -- intron_profiles.profile_ranges[id]
  splitProf : List Int         -- split_exon_profiles.profiles[id]
  splitRange : Int × Int
  deriving Repr

structure Gene where
  start : Int
  stop : Int
  introns : List Iv            -- intron_profiles.features
  exons : List Iv              -- exon_profiles.features
  splitExons : List Iv         -- split_exon_profiles.features
  isos : List IsoInfo
  deriving Repr

def mkIso (introns split : List Iv) (m : Isoform) (id : Nat) : Option IsoInfo :=
  match regionOf m.exons with
  | none => none
  | some reg =>
    let intr := junctionsFromBlocks m.exons
    let ip := setProfiles introns intr reg (fun a b => equal_ranges a b 0)
    let sp := setProfiles split m.exons reg (fun a b => contains a b)
    some { id := id, exons := m.exons, introns := intr, region := reg, strand := m.strand,
           intronProf := ip.1, intronRange := ip.2, splitProf := sp.1, splitRange := sp.2 }

def mkIsos (introns split : List Iv) : List Isoform → Nat → Option (List IsoInfo)
  | [], _ => some []
  | m :: ms, i =>
    match mkIso introns split m i, mkIsos introns split ms (i + 1) with
    | some a, some r => some (a :: r)
    | _, _ => none

/-- `GeneInfo.from_models`; `none` = the constructor (or the first use of the object) raises:
    empty isoform list, an isoform without exons, `split_exons` IndexError -/
def Gene.fromModels (ms : List Isoform) : Option Gene :=
  match mapOpt (fun m => regionOf m.exons) ms with
  | none => none
  | some [] => none
  | some (r0 :: regs) =>
    let start := regs.foldl (fun s r => min s r.1) r0.1
    let stop := regs.foldl (fun s r => max s r.2) r0.2
    let introns := sortDedupIv (ms.flatMap (fun m => junctionsFromBlocks m.exons))
    let exons := sortDedupIv (ms.flatMap (fun m => m.exons))
    match IsoVerif.Model.splitExons exons with
    | none => none
    | some split =>
      match mkIsos introns split ms 0 with
      | none => none
      | some isos => some { start := start, stop := stop, introns := introns, exons := exons,
                            splitExons := split, isos := isos }

/-! ### read profiles: `CombinedProfileConstructor.construct_profiles` -/

structure PolyA where
  extA : Int
  extT : Int
  intA : Int
  intT : Int
  deriving Repr

structure ReadProf where
  blocks : List Iv             -- read_split_exon_profile.read_features
  region : Iv                  -- (blocks[0][0], blocks[-1][1])
  introns : List Iv            -- read_intron_profile.read_features
  intron : ProfileResult
  split : ProfileResult
  polya : PolyA

def constructProfiles (g : Gene) (p : Params) (blocks : List Iv) (pa : PolyA) : Option ReadProf :=
  match regionOf blocks with
  | none => none
  | some reg =>
    let ri := junctionsFromBlocks blocks
    let ip := constructOverlapping g.introns (g.start, g.stop) (fun a b => equal_ranges a b p.delta)
      (fun a b => overlaps_at_least a b p.minimal_intron_absence_overlap) p.delta ri reg pa.extA pa.extT
    match constructNonOverlapping g.splitExons
        (fun a b => overlaps_at_least_when_overlap a b p.minimal_exon_overlap) p.delta blocks pa.extA pa.extT with
    | none => none
    | some sp => some { blocks := blocks, region := reg, introns := ri, intron := ip, split := sp, polya := pa }

/-! ### profile comparison helpers of src/common.py -/

/-- `for i in range(s, s + n): if p(i): return True` / `return False`; `p` may raise -/
def anyRange (p : Int → Option Bool) (s : Int) : Nat → Option Bool
  | 0 => some false
  | n + 1 =>
    match p s with
    | none => none
    | some true => some true
    | some false => anyRange p (s + 1) n

/-- `for i in range(s, s + n): if not p(i): return False` / `return True` -/
def allRange (p : Int → Option Bool) (s : Int) : Nat → Option Bool
  | 0 => some true
  | n + 1 =>
    match p s with
    | none => none
    | some false => some false
    | some true => allRange p (s + 1) n

/-- `has_overlapping_features(profile1, profile2, profile_range)` -/
def hasOverlappingFeatures (p1 p2 : List Int) (rng : Int × Int) : Option Bool :=
  if p1.length ≠ p2.length then none
  else anyRange (fun i =>
    match pyGet? p1 i, pyGet? p2 i with
    | some a, some b => some (a == 1 && b == 1)
    | _, _ => none) rng.1 (rng.2 - rng.1).toNat

/-- `equal_profiles_in_range(isoform_profile, read_profile, profile_range)` -/
def equalProfilesInRange (iso read : List Int) (rng : Int × Int) : Option Bool :=
  allRange (fun i =>
    match pyGet? read i with
    | none => none
    | some b =>
      if b = 0 then some true
      else match pyGet? iso i with
        | none => none
        | some a => some (a == b)) rng.1 (rng.2 - rng.1).toNat

/-- loop of `difference_in_present_features` (diff_limit = -1: the `break` can never fire before the end) -/
def diffLoop (p1 p2 : List Int) (s : Int) : Nat → Option Int
  | 0 => some 0
  | n + 1 =>
    match pyGet? p2 s with
    | none => none
    | some b =>
      if b = 0 then diffLoop p1 p2 (s + 1) n
      else match pyGet? p1 s with
        | none => none
        | some a =>
          if a = 0 then diffLoop p1 p2 (s + 1) n
          else (diffLoop p1 p2 (s + 1) n).map (fun d => d + (if a ≠ b then 1 else 0))

def differenceInPresentFeatures (p1 p2 : List Int) (rng : Int × Int) : Option Int :=
  if p1.length ≠ p2.length then none else diffLoop p1 p2 rng.1 (rng.2 - rng.1).toNat

/-! ### events, matches, assignments -/

def undefRegion : Int × Int := ((smc_undefined_region.1 : Nat), (smc_undefined_region.2 : Nat))
def absentPos : Int := (smc_absent_position : Nat)

structure Event where
  ty : MatchEventSubtype
  isoRegion : Int × Int := undefRegion
  readRegion : Int × Int := undefRegion
  info : Int := 0
  deriving Repr, DecidableEq

structure IsoMatch where
  iso : Option Nat                     -- assigned_transcript
  cls : MatchClassification
  events : List Event                  -- match_subclassifications
  penaltyNum : Int := 0                -- penalty_score as a fraction
  penaltyDen : Int := 1
  deriving Repr

structure Assignment where
  ty : ReadAssignmentType
  isoMatches : List IsoMatch
  deriving Repr

/-- `IsoformMatch.__init__` with a *list* of events: `none` events are dropped -/
def mkMatchList (cls : MatchClassification) (id : Nat) (evs : List Event) : IsoMatch :=
  { iso := some id, cls := cls, events := evs.filter (fun e => e.ty != MatchEventSubtype.none) }

/-- `IsoformMatch.__init__` with a single event -/
def mkMatchOne (cls : MatchClassification) (id : Nat) (e : Event) : IsoMatch :=
  { iso := some id, cls := cls, events := [e] }

/-- `IsoformMatch.add_subclassification` -/
def addSub (evs : List Event) (e : Event) : List Event :=
  match evs with
  | [x] => if x.ty = MatchEventSubtype.undefined ∨ x.ty = MatchEventSubtype.none then [e] else [x, e]
  | _ => evs ++ [e]

/-! ### `classify_assignment` (tables generated from src/isoform_assignment.py) -/

def classifyEvents (ambiguous : Bool) (tys : List MatchEventSubtype) : ReadAssignmentType :=
  if tys.all (fun e => e.is_consistent) then
    (if ambiguous then ReadAssignmentType.ambiguous else ReadAssignmentType.unique)
  else if tys.any (fun e => e.is_major_inconsistency) then
    (if ambiguous then ReadAssignmentType.inconsistent_ambiguous
     else if tys.any (fun e => e.is_intronic_inconsistency) then ReadAssignmentType.inconsistent
     else ReadAssignmentType.inconsistent_non_intronic)
  else if tys.any (fun e => e.is_minor_error) then
    (if ambiguous then ReadAssignmentType.ambiguous else ReadAssignmentType.unique_minor_difference)
  else ReadAssignmentType.noninformative

/-- `classify_assignment(best_isoforms, read_matches)`: `ms` = the event lists of the selected isoforms -/
def classifyAssignment (ms : List (List Event)) : ReadAssignmentType :=
  classifyEvents (decide (ms.length > 1)) (ms.flatMap (fun evs => evs.map (·.ty)))

/-! ### candidate selection -/

/-- `find_containing_isoforms` -/
def findContaining (p : Params) (rp : ReadProf) (hint : List IsoInfo) : List IsoInfo :=
  hint.filter (fun I => contains_approx I.region rp.region p.min_abs_exon_overlap)

/-- `find_overlapping_isoforms` -/
def findOverlapping (rp : ReadProf) (hint : List IsoInfo) : Option (List IsoInfo) :=
  filterOpt (fun I => hasOverlappingFeatures I.splitProf rp.split.gene
    (overlap_intervals rp.split.range I.splitRange)) hint

/-- `find_matching_isoforms(read_intron_profile, intron_profiles.profiles, hint)` -/
def findMatchingIntron (rp : ReadProf) (hint : List IsoInfo) : Option (List IsoInfo) :=
  filterOpt (fun I => equalProfilesInRange I.intronProf rp.intron.gene rp.intron.range) hint

/-- `find_matching_isoforms(read_split_exon_profile, split_exon_profiles.profiles, hint)` -/
def findMatchingSplit (rp : ReadProf) (hint : List IsoInfo) : Option (List IsoInfo) :=
  filterOpt (fun I => equalProfilesInRange I.splitProf rp.split.gene rp.split.range) hint

/-! ### nucleotide scores (exact rationals; the code computes the same quotients in floats) -/

def ratOf (p : Int × Int) : Rat := (p.1 : Rat) / (p.2 : Rat)

def extendedRegion (p : Params) (I : IsoInfo) : Option Iv :=
  (regionOf I.exons).map (fun r => (r.1 - p.minor_exon_extension, r.2 + p.minor_exon_extension))

/-- `jaccard_based_nucleotide_score` -/
def jaccardScore (p : Params) (rp : ReadProf) (I : IsoInfo) : Option Rat :=
  match jaccardSweep rp.blocks I.exons, extendedRegion p I with
  | some js, some ext =>
    match extraExonPercentage ext rp.blocks with
    | some fl => some (ratOf js - ratOf fl)
    | none => none
  | _, _ => none

/-- `coverage_based_nucleotide_score` -/
def coverageScore (p : Params) (rp : ReadProf) (I : IsoInfo) : Option Rat :=
  match readCoverageFraction rp.blocks I.exons, extendedRegion p I with
  | some cv, some ext =>
    match extraExonPercentage ext rp.blocks with
    | some fl => some (ratOf cv - ratOf fl)
    | none => none
  | _, _ => none

def minimalScore : Rat := (-1 : Rat) / 2      -- AmbiguityResolvingMethod.minimal_score
def topScoredFactor : Rat := (3 : Rat) / 2    -- AmbiguityResolvingMethod.top_scored_factor

def maxRat : List Rat → Option Rat
  | [] => none
  | x :: xs => match maxRat xs with
    | none => some x
    | some m => some (if x ≥ m then x else m)

/-- `resolve_by_nucleotide_score`; `factor = none` is `top_scored_factor=0`.
    The result is `sorted` by id in the code: the model keeps the list (= id) order. -/
def resolveByScore (score : IsoInfo → Option Rat) (factor : Option Rat) (matched : List IsoInfo) :
    Option (List IsoInfo) :=
  if matched.isEmpty then some []
  else
    match mapOpt (fun I => (score I).map (fun s => (I, s))) matched with
    | none => none
    | some scores =>
      match maxRat (scores.map (·.2)) with
      | none => none
      | some best =>
        match factor with
        | none => some ((scores.filter (fun x => x.2 ≥ minimalScore)).map (·.1))
        | some f => some ((scores.filter (fun x => x.2 * f ≥ best && x.2 ≥ minimalScore)).map (·.1))

/-! ### match categorisation -/

/-- `is_fsm` -/
def isFsm (rp : ReadProf) (I : IsoInfo) : Option Bool :=
  (regionOf I.introns).map (fun r => contains rp.region r)

/-- `detect_ism_subtype` -/
def detectIsmSubtype (rp : ReadProf) (I : IsoInfo) : Option MatchEventSubtype :=
  (regionOf I.introns).map (fun r =>
    let lt := decide (r.1 < rp.region.1)
    let rt := decide (r.2 > rp.region.2)
    if lt && rt then MatchEventSubtype.ism_internal
    else if lt then MatchEventSubtype.ism_left
    else if rt then MatchEventSubtype.ism_right
    else MatchEventSubtype.none)

/-- `categorize_correct_splice_match`: classification and the single event -/
def categorizeSplice (rp : ReadProf) (I : IsoInfo) : Option (MatchClassification × Event) :=
  if rp.intron.read.length = 0 ∨ I.introns.length = 0 then
    some (MatchClassification.mono_exon_match, { ty := MatchEventSubtype.mono_exon_match })
  else
    match isFsm rp I with
    | none => none
    | some true => some (MatchClassification.full_splice_match, { ty := MatchEventSubtype.fsm })
    | some false =>
      (detectIsmSubtype rp I).map (fun t => (MatchClassification.incomplete_splice_match, { ty := t }))

def spliceMatch (rp : ReadProf) (I : IsoInfo) : Option IsoMatch :=
  (categorizeSplice rp I).map (fun ce => mkMatchOne ce.1 I.id ce.2)

/-- `MatchClassification.get_mono_exon_classification`; `none` = IndexError on an empty list -/
def monoExonClassification (evs : List Event) : Option MatchClassification :=
  if evs.any (fun e => e.ty = .alternative_polya_site_left ∨ e.ty = .alternative_polya_site_right ∨
      e.ty = .internal_polya_left ∨ e.ty = .internal_polya_right) then some .novel_not_in_catalog
  else if evs.any (fun e => e.ty = .unspliced_intron_retention) then some .novel_in_catalog
  else if evs.any (fun e => e.ty = .incomplete_intron_retention_left ∨ e.ty = .incomplete_intron_retention_right) then
    some .genic
  else
    match evs with
    | [] => none
    | e :: _ =>
      if e.ty = .fake_micro_intron_retention then some .incomplete_splice_match
      else if e.ty = .mono_exon_match then some .mono_exon_match
      else if e.ty = .mono_exonic then some .incomplete_splice_match
      else some .undefined

/-- `categorize_correct_unspliced_match` -/
def unsplicedMatch (I : IsoInfo) : Option IsoMatch :=
  let evs : List Event :=
    if I.exons.length = 1 then [{ ty := MatchEventSubtype.mono_exon_match }] else [{ ty := MatchEventSubtype.mono_exonic }]
  (monoExonClassification evs).map (fun c => mkMatchList c I.id evs)

/-- `MatchClassification.get_inconsistency_classification` -/
def inconsistencyClassification (evs : List Event) : MatchClassification :=
  if evs.any (fun e => nnic_event_types.contains e.ty) then .novel_not_in_catalog
  else if evs.any (fun e => nic_event_types.contains e.ty) then .novel_in_catalog
  else .undefined

/-! ### `categorize_exon_elongation_subtype` -/

/-- first loop: smallest `i ≥ from` (< len) with both profiles = 1, else −1.
    `iso`/`read` are the suffixes starting at `i`. -/
def commonFirst : List Int → List Int → Int → Int
  | a :: as, b :: bs, i => if a = 1 ∧ b = 1 then i else commonFirst as bs (i + 1)
  | _, _, _ => -1

/-- second loop: `for i in range(from, -1, -1)`; `none` = IndexError -/
def commonLast (iso read : List Int) : Nat → Int → Option Int
  | 0, _ => some (-1)
  | n + 1, i =>
    match pyGet? iso i, pyGet? read i with
    | some a, some b => if a = 1 ∧ b = 1 then some i else commonLast iso read n (i - 1)
    | _, _ => none

/-- events of one read end. `extra` = number of read bases beyond the isoform's split exon -/
def endEvents (p : Params) (terminal : Bool) (extra : Int)
    (precise plain major minor : MatchEventSubtype) : List Event :=
  if terminal then
    (if iabs extra ≤ p.minor_exon_extension then
       [{ ty := (if iabs extra ≤ p.delta then precise else plain), info := extra }] else [])
    ++ (if extra > p.minor_exon_extension then [{ ty := major, info := extra }]
        else if extra > p.delta then [{ ty := minor, info := extra }] else [])
  else if p.minor_exon_extension ≥ extra ∧ extra > p.delta then [{ ty := minor, info := extra }]
  else []

/-- the read exon whose overhang `categorize_exon_elongation_subtype` measures at one end of the read (repair of audit
    finding C01-G1, `fix_fake_terminal_elongation.patch`): a short outermost exon (at most `max_fake_terminal_exon_len`) that
    does not overlap the common split exon `s` may be excused as a fake terminal exon by the junction comparator; the read's
    overhang over the isoform end is then the one of the NEXT exon (`read_features[1]` / `read_features[-2]`, present only
    when the read has more than one exon) -/
def measuredExon (p : Params) (outer : Iv) (next : Option Iv) (s : Iv) : Iv :=
  match next with
  | some nx => if !(overlaps outer s) && decide (interval_len outer ≤ p.max_fake_terminal_exon_len) then nx else outer
  | none => outer

def elongationEvents (g : Gene) (p : Params) (rp : ReadProf) (I : IsoInfo) : Option (List Event) :=
  let isoFirst := I.splitRange.1
  let isoLast := I.splitRange.2 - 1
  let from1 := max isoFirst rp.split.range.1
  -- range(from1, len): from1 ≥ 0 by construction of the ranges; a negative start would wrap in Python
  if from1 < 0 then none else
  let cf := commonFirst (I.splitProf.drop from1.toNat) (rp.split.gene.drop from1.toNat) from1
  -- the first loop indexes both profiles up to len(split_exons): they must be long enough
  if I.splitProf.length < g.splitExons.length ∧ cf = -1 then none else
  if rp.split.gene.length < g.splitExons.length ∧ cf = -1 then none else
  let from2 := min isoLast (rp.split.range.2 - 1)
  match commonLast I.splitProf rp.split.gene (from2 + 1).toNat from2 with
  | none => none
  | some cl =>
    match rp.blocks.head?, rp.blocks.getLast?, pyGet? g.splitExons cf, pyGet? g.splitExons cl with
    | some fr, some lr, some sf, some sl =>
      let left := if overlaps (measuredExon p fr rp.blocks[1]? sf) sf then
          endEvents p (decide (cf = isoFirst)) (sf.1 - (measuredExon p fr rp.blocks[1]? sf).1)
            .terminal_site_match_left_precise .terminal_site_match_left .major_exon_elongation_left .exon_elongation_left
        else []
      let right := if overlaps (measuredExon p lr rp.blocks.reverse[1]? sl) sl then
          endEvents p (decide (cl = isoLast)) ((measuredExon p lr rp.blocks.reverse[1]? sl).2 - sl.2)
            .terminal_site_match_right_precise .terminal_site_match_right .major_exon_elongation_right .exon_elongation_right
        else []
      some (left ++ right)
    | _, _, _, _ => none

/-- `categorize_exon_elongation_subtype` BEFORE the repair (audit finding C01-G1): the overhang is always measured on the
    outermost read exon, so a short outermost exon outside the isoform hides any overhang of the next exon
    (`Props/C01FakeTerminal.lean: elongationEventsOrig_witness`) -/
def elongationEventsOrig (g : Gene) (p : Params) (rp : ReadProf) (I : IsoInfo) : Option (List Event) :=
  let isoFirst := I.splitRange.1
  let isoLast := I.splitRange.2 - 1
  let from1 := max isoFirst rp.split.range.1
  if from1 < 0 then none else
  let cf := commonFirst (I.splitProf.drop from1.toNat) (rp.split.gene.drop from1.toNat) from1
  if I.splitProf.length < g.splitExons.length ∧ cf = -1 then none else
  if rp.split.gene.length < g.splitExons.length ∧ cf = -1 then none else
  let from2 := min isoLast (rp.split.range.2 - 1)
  match commonLast I.splitProf rp.split.gene (from2 + 1).toNat from2 with
  | none => none
  | some cl =>
    match rp.blocks.head?, rp.blocks.getLast?, pyGet? g.splitExons cf, pyGet? g.splitExons cl with
    | some fr, some lr, some sf, some sl =>
      let left := if overlaps fr sf then
          endEvents p (decide (cf = isoFirst)) (sf.1 - fr.1)
            .terminal_site_match_left_precise .terminal_site_match_left .major_exon_elongation_left .exon_elongation_left
        else []
      let right := if overlaps lr sl then
          endEvents p (decide (cl = isoLast)) (lr.2 - sl.2)
            .terminal_site_match_right_precise .terminal_site_match_right .major_exon_elongation_right .exon_elongation_right
        else []
      some (left ++ right)
    | _, _, _, _ => none

/-! ### polyA verification (src/polya_verification.py) -/

/-- loop of `shift_polya` over the last `exon_count` exons, last first -/
def shiftPolyaLoop (pos : Int) : List Iv → Int → Int
  | [], d => d
  | e :: es, d =>
    if e.1 > pos then shiftPolyaLoop pos es d
    else if d = 0 then shiftPolyaLoop pos es (d + (pos - e.1))
    else shiftPolyaLoop pos es (d + interval_len e)

/-- `shift_polya` -/
def shiftPolya (exons : List Iv) (count : Nat) (pos : Int) : Option Int :=
  if count = 0 ∨ count = exons.length ∨ pos = -1 then some pos
  else if count > exons.length then none
  else
    match pyGet? exons (-(count : Int) - 1) with
    | none => none
    | some b => some (b.2 + shiftPolyaLoop pos (exons.reverse.take count) 0)

def shiftPolytLoop (pos : Int) : List Iv → Int → Int
  | [], d => d
  | e :: es, d =>
    if e.2 < pos then shiftPolytLoop pos es d
    else if d = 0 then shiftPolytLoop pos es (d + (e.2 - pos))
    else shiftPolytLoop pos es (d + interval_len e)

/-- `shift_polyt` -/
def shiftPolyt (exons : List Iv) (count : Nat) (pos : Int) : Option Int :=
  if count = 0 ∨ count = exons.length ∨ pos = -1 then some pos
  else if count > exons.length then none
  else
    match exons[count]? with
    | none => none
    | some b => some (b.1 - shiftPolytLoop pos (exons.take count) 0)

/-- `abs(end - pos) if pos != -1 else math.inf` (`none` = inf) -/
def distOrInf (stop pos : Int) : Option Int := if pos ≠ -1 then some (iabs (stop - pos)) else none

def leInf : Option Int → Option Int → Bool
  | some a, some b => decide (a ≤ b)
  | some _, none => true
  | none, some _ => false
  | none, none => true

/-- `check_if_close`: `some events'` when the site is close, `none` = returns None -/
def checkIfClose (p : Params) (stop ext int : Int) (evs : List Event) (ty : MatchEventSubtype) : Option (List Event) :=
  let de := distOrInf stop ext
  let di := distOrInf stop int
  if leInf di (some p.apa_delta) && leInf di de then some (evs ++ [{ ty := ty, info := int }])
  else if leInf de (some p.apa_delta) && !(leInf di de) then some (evs ++ [{ ty := ty, info := ext }])
  else none

/-- index of the last event whose type is one of two (the loop overwrites `event_to_remove`) -/
def lastIndexOf (evs : List Event) (t1 t2 : MatchEventSubtype) : Option Nat :=
  (evs.zipIdx.filter (fun (e, _) => e.ty = t1 ∨ e.ty = t2)).getLast?.map (·.2)

/-- `del matching_events[event_to_remove]` for the last event of one of two types (no-op when there is none) -/
def eraseLastOf (evs : List Event) (t1 t2 : MatchEventSubtype) : List Event :=
  match lastIndexOf evs t1 t2 with
  | none => evs
  | some i => evs.eraseIdx i

def countTy (evs : List Event) (t : MatchEventSubtype) : Nat := (evs.filter (fun e => e.ty = t)).length

/-- the `while` of `detect_reference_exons_beyond_polya`, on the reversed exon list -/
def countBeyond (pos : Int) : List Iv → Nat
  | [] => 0
  | e :: es => if e.1 ≥ pos then 1 + countBeyond pos es else 0

/-- `min(a, b)` where `none` is `math.inf` -/
def minInf : Option Int → Option Int → Option Int
  | some a, some b => some (min a b)
  | some a, none => some a
  | none, some b => some b
  | none, none => none

/-- the two tests of `detect_reference_exons_*` on the distance to the closest polyA/T position (`none` = `math.inf`:
    `inf <= x` and `abs(t - inf) <= x` are both False) -/
def missedTerminalOk (p : Params) (tlen : Int) : Option Int → Bool
  | none => false
  | some d => decide ((tlen ≤ p.max_fake_terminal_exon_len ∧ d ≤ p.max_fake_terminal_exon_len) ∨
      (tlen ≤ p.max_missed_exon_len ∧ iabs (tlen - d) ≤ p.delta))

/-- `detect_reference_exons_beyond_polya` -> (events, external, internal).
    Since the fix of the sentinel distance an ABSENT position (−1) is infinitely far (`distOrInf`, as in `check_if_close`);
    the earlier behaviour is `detectBeyondPolyaBuggy`. -/
def detectBeyondPolya (p : Params) (iso : List Iv) (ext int : Int) (evs : List Event) :
    Option (List Event × Int × Int) :=
  let pos := if int ≠ -1 then int else ext
  let c := countBeyond pos iso.reverse
  if c = iso.length ∨ c = 0 then some (evs, ext, int)
  else
    match pyGet? iso (-(c : Int) - 1), iso.getLast? with
    | some b, some lastE =>
      let tlen := intervalsTotalLength (iso.drop (iso.length - c))
      let d := minInf (distOrInf b.2 ext) (distOrInf b.2 int)
      if missedTerminalOk p tlen d then
        let n : Int := iso.length
        let add := (List.range c).map (fun (i : Nat) =>
          ({ ty := .terminal_exon_misalignment_right, isoRegion := (n - 2 - i, n - 2 - i) } : Event))
        some (evs ++ add, lastE.2, lastE.2)
      else some (evs, ext, int)
    | _, _ => none

/-- the code before the fix: `abs(exon_end - pos)` also for the sentinel −1, so near the chromosome start the distance to
    coordinate −1 could win the `min` (`detectBeyondPolyaBuggy_witness`) -/
def detectBeyondPolyaBuggy (p : Params) (iso : List Iv) (ext int : Int) (evs : List Event) :
    Option (List Event × Int × Int) :=
  let pos := if int ≠ -1 then int else ext
  let c := countBeyond pos iso.reverse
  if c = iso.length ∨ c = 0 then some (evs, ext, int)
  else
    match pyGet? iso (-(c : Int) - 1), iso.getLast? with
    | some b, some lastE =>
      let tlen := intervalsTotalLength (iso.drop (iso.length - c))
      let d := min (iabs (b.2 - ext)) (iabs (b.2 - int))
      if (tlen ≤ p.max_fake_terminal_exon_len ∧ d ≤ p.max_fake_terminal_exon_len) ∨
         (tlen ≤ p.max_missed_exon_len ∧ iabs (tlen - d) ≤ p.delta) then
        let n : Int := iso.length
        let add := (List.range c).map (fun (i : Nat) =>
          ({ ty := .terminal_exon_misalignment_right, isoRegion := (n - 2 - i, n - 2 - i) } : Event))
        some (evs ++ add, lastE.2, lastE.2)
      else some (evs, ext, int)
    | _, _ => none

def countBefore (pos : Int) : List Iv → Nat
  | [] => 0
  | e :: es => if e.2 ≤ pos then 1 + countBefore pos es else 0

/-- `detect_reference_exons_before_polyt` (absent position = infinitely far, see `detectBeyondPolya`) -/
def detectBeforePolyt (p : Params) (iso : List Iv) (ext int : Int) (evs : List Event) :
    Option (List Event × Int × Int) :=
  let pos := if int ≠ -1 then int else ext
  let c := countBefore pos iso
  if c = 0 ∨ c = iso.length then some (evs, ext, int)
  else
    match iso[c]?, iso.head? with
    | some b, some firstE =>
      let tlen := intervalsTotalLength (iso.take c)
      let d := minInf (distOrInf b.1 ext) (distOrInf b.1 int)
      if missedTerminalOk p tlen d then
        let add := (List.range c).map (fun (i : Nat) =>
          ({ ty := .terminal_exon_misalignment_left, isoRegion := ((i : Int), (i : Int)) } : Event))
        some (evs ++ add, firstE.1, firstE.1)
      else some (evs, ext, int)
    | _, _ => none

/-- `detect_reference_exons_before_polyt` before the fix -/
def detectBeforePolytBuggy (p : Params) (iso : List Iv) (ext int : Int) (evs : List Event) :
    Option (List Event × Int × Int) :=
  let pos := if int ≠ -1 then int else ext
  let c := countBefore pos iso
  if c = 0 ∨ c = iso.length then some (evs, ext, int)
  else
    match iso[c]?, iso.head? with
    | some b, some firstE =>
      let tlen := intervalsTotalLength (iso.take c)
      let d := min (iabs (b.1 - ext)) (iabs (b.1 - int))
      if (tlen ≤ p.max_fake_terminal_exon_len ∧ d ≤ p.max_fake_terminal_exon_len) ∨
         (tlen ≤ p.max_missed_exon_len ∧ iabs (tlen - d) ≤ p.delta) then
        let add := (List.range c).map (fun (i : Nat) =>
          ({ ty := .terminal_exon_misalignment_left, isoRegion := ((i : Int), (i : Int)) } : Event))
        some (evs ++ add, firstE.1, firstE.1)
      else some (evs, ext, int)
    | _, _ => none

/-- `verify_polya` -/
def verifyPolya (p : Params) (iso read : List Iv) (pa : PolyA) (evs0 : List Event) : Option (List Event) :=
  match iso.getLast? with
  | none => none
  | some lastE =>
    let isoEnd := lastE.2
    let fake := countTy evs0 .fake_terminal_exon_right
    let mis := countTy evs0 .terminal_exon_misalignment_right
    let evs := eraseLastOf evs0 .major_exon_elongation_right .exon_elongation_right
    match checkIfClose p isoEnd pa.extA pa.intA evs .correct_polya_site_right with
    | some r => some r
    | none =>
      if fake ≥ read.length then none     -- assert fake_terminal_exon_count < len(read_exons)
      else
        match shiftPolya read fake pa.extA, shiftPolya read fake pa.intA with
        | some ext1, some int1 =>
          let step : Option (List Event × Int × Int) :=
            if mis > 0 then some (evs, isoEnd, isoEnd) else detectBeyondPolya p iso ext1 int1 evs
          match step with
          | none => none
          | some (evs2, ext2, int2) =>
            match checkIfClose p isoEnd ext2 int2 evs2 .correct_polya_site_right with
            | some r => some r
            | none =>
              let pos := if int2 = -1 then ext2 else int2
              if iabs (pos - isoEnd) > p.apa_delta then
                some (evs2 ++ [{ ty := .alternative_polya_site_right, info := pos }])
              else some (evs2 ++ [{ ty := .correct_polya_site_right, info := pos }])
        | _, _ => none

/-- `verify_polyt` -/
def verifyPolyt (p : Params) (iso read : List Iv) (pa : PolyA) (evs0 : List Event) : Option (List Event) :=
  match iso.head? with
  | none => none
  | some firstE =>
    let isoStart := firstE.1
    let fake := countTy evs0 .fake_terminal_exon_left
    let mis := countTy evs0 .terminal_exon_misalignment_left
    let evs := eraseLastOf evs0 .major_exon_elongation_left .exon_elongation_left
    match checkIfClose p isoStart pa.extT pa.intT evs .correct_polya_site_left with
    | some r => some r
    | none =>
      if fake ≥ read.length then none
      else
        match shiftPolyt read fake pa.extT, shiftPolyt read fake pa.intT with
        | some ext1, some int1 =>
          let step : Option (List Event × Int × Int) :=
            if mis > 0 then some (evs, isoStart, isoStart) else detectBeforePolyt p iso ext1 int1 evs
          match step with
          | none => none
          | some (evs2, ext2, int2) =>
            match checkIfClose p isoStart ext2 int2 evs2 .correct_polya_site_left with
            | some r => some r
            | none =>
              let pos := if int2 = -1 then ext2 else int2
              if iabs (pos - isoStart) > p.apa_delta then
                some (evs2 ++ [{ ty := .alternative_polya_site_left, info := pos }])
              else some (evs2 ++ [{ ty := .correct_polya_site_left, info := pos }])
        | _, _ => none

/-- `check_internal_polya` / `check_internal_polyt`: (events, is_internal) -/
def checkInternal (pos : Int) (evs : List Event) (incomplete internal : MatchEventSubtype) : List Event × Bool :=
  if pos = -1 then (evs, false)
  else
    match evs.find? (fun e => e.ty = incomplete) with
    | some e => (evs ++ [{ ty := internal, isoRegion := e.isoRegion, info := pos }], true)
    | none => (evs, false)

/-- `PolyAVerifier.verify_read_ends` (isoform_id is not None) -/
def verifyReadEnds (p : Params) (rp : ReadProf) (I : IsoInfo) (evs : List Event) : Option (List Event) :=
  let r : Option (List Event) :=
    match I.strand with
    | .plus =>
      let (e1, internal) := checkInternal rp.polya.intA evs .incomplete_intron_retention_right .internal_polya_right
      if !internal && (rp.polya.extA ≠ -1 || rp.polya.intA ≠ -1) then verifyPolya p I.exons rp.blocks rp.polya e1
      else some e1
    | .minus =>
      let (e1, internal) := checkInternal rp.polya.intT evs .incomplete_intron_retention_left .internal_polya_left
      if !internal && (rp.polya.extT ≠ -1 || rp.polya.intT ≠ -1) then verifyPolyt p I.exons rp.blocks rp.polya e1
      else some e1
    | .other => some evs
  r.map (fun e => if e.isEmpty then [{ ty := MatchEventSubtype.none }] else e)

/-! ### the consistent path -/

/-- `check_read_ends`: adds the elongation events of every match and updates the type, match after match -/
def checkReadEnds (g : Gene) (p : Params) (rp : ReadProf) :
    List (IsoInfo × IsoMatch) → ReadAssignmentType → Option (List (IsoInfo × IsoMatch) × ReadAssignmentType)
  | [], ty => some ([], ty)
  | (I, m) :: rest, ty =>
    match elongationEvents g p rp I with
    | none => none
    | some el =>
      let m' := { m with events := el.foldl addSub m.events }
      let ty' :=
        if el.any (fun e => e.ty.is_major_elongation) then
          (if !ty.is_inconsistent then ReadAssignmentType.inconsistent_non_intronic else ty)
        else if el.any (fun e => e.ty.is_minor_elongation) then
          (if ty = ReadAssignmentType.unique then ReadAssignmentType.unique_minor_difference else ty)
        else ty
      match checkReadEnds g p rp rest ty' with
      | none => none
      | some (r, t) => some ((I, m') :: r, t)

/-- `verify_read_ends_for_assignment` -/
def verifyEndsForAssignment (p : Params) (rp : ReadProf) (ms : List (IsoInfo × IsoMatch)) :
    Option (List (IsoInfo × IsoMatch) × ReadAssignmentType) :=
  match mapOpt (fun (Im : IsoInfo × IsoMatch) =>
      (verifyReadEnds p rp Im.1 Im.2.events).map (fun e => (Im.1, { Im.2 with events := e }))) ms with
  | none => none
  | some ms' => some (ms', classifyAssignment (ms'.map (·.2.events)))

/-- the isoform selection of `match_consistent_spliced` (before categorisation) -/
def selectSpliced (p : Params) (rp : ReadProf) (consistent : List IsoInfo) : Option (List IsoInfo) :=
  let step1 : Option (List IsoInfo) :=
    if consistent.length > 1 then
      (findMatchingSplit rp consistent).map (fun em => if em.length ≠ 0 then em else consistent)
    else some consistent
  match step1 with
  | none => none
  | some matched =>
    if matched.length > 1 then
      match p.resolve_ambiguous with
      | .all => resolveByScore (jaccardScore p rp) (some topScoredFactor) matched
      | .monoexon_and_fsm =>
        match anyOpt (isFsm rp) matched with
        | none => none
        | some true => resolveByScore (jaccardScore p rp) (some topScoredFactor) matched
        | some false => some matched
      | _ => some matched
    else some matched
where
  /-- `any(f(x) for x in l)` with `f` possibly raising -/
  anyOpt (f : IsoInfo → Option Bool) : List IsoInfo → Option Bool
    | [] => some false
    | x :: xs => match f x with
      | none => none
      | some true => some true
      | some false => anyOpt f xs

/-- the isoform selection of `match_consistent_unspliced` -/
def selectUnspliced (p : Params) (rp : ReadProf) (consistent : List IsoInfo) : Option (List IsoInfo) :=
  if consistent.length > 1 ∧ p.resolve_ambiguous ≠ Resolve.none then
    resolveByScore (jaccardScore p rp) (some topScoredFactor) consistent
  else some consistent

/-- candidate isoforms of `match_consistent`: containing, overlapping, intron profile equal in the read's range.
    `some none` = the function returns None before the matching step. -/
def consistentIsoforms (g : Gene) (p : Params) (rp : ReadProf) : Option (Option (List IsoInfo)) :=
  let containing := findContaining p rp g.isos
  if containing.isEmpty then some none
  else
    match findOverlapping rp containing with
    | none => none
    | some ov =>
      if ov.isEmpty then some none
      else (findMatchingIntron rp ov).map some

/-- `match_consistent`: `some none` = returns None (the caller falls back to `match_inconsistent`) -/
def matchConsistent (g : Gene) (p : Params) (rp : ReadProf) : Option (Option Assignment) :=
  match consistentIsoforms g p rp with
  | none => none
  | some none => some none
  | some (some consistent) =>
    let spliced := !rp.intron.read.isEmpty
    match (if spliced then selectSpliced p rp consistent else selectUnspliced p rp consistent) with
    | none => none
    | some matched =>
      if matched.isEmpty then some none
      else
        match mapOpt (fun I => ((if spliced then spliceMatch rp I else unsplicedMatch I)).map (fun m => (I, m))) matched with
        | none => none
        | some ms =>
          let ty0 := if matched.length = 1 then ReadAssignmentType.unique else ReadAssignmentType.ambiguous
          match checkReadEnds g p rp ms ty0 with
          | none => none
          | some (ms1, _) =>
            match verifyEndsForAssignment p rp ms1 with
            | none => none
            | some (ms2, ty2) =>
              if ty2.is_inconsistent then some none
              else some (some { ty := ty2, isoMatches := ms2.map (·.2) })

/-! ### the inconsistent path (`compare_junctions` is the input `cj`; modelled in Model/JunctionCompare.lean) -/

/-- `select_similar_isoforms`; `some []` = returns None / nothing -/
def selectSimilar (g : Gene) (p : Params) (rp : ReadProf) : Option (List IsoInfo) :=
  match findOverlapping rp g.isos with
  | none => none
  | some ov =>
    if ov.isEmpty then some []
    else
      match resolveByScore (coverageScore p rp) none ov with
      | none => none
      | some sig =>
        if sig.isEmpty then some []
        else
          match mapOpt (fun I => (differenceInPresentFeatures I.intronProf rp.intron.gene rp.intron.range).map
                  (fun d => (I, d))) sig with
          | none => none
          | some diffs =>
            let cands := diffs.map (fun (I, d) =>
              let el : Int := if rp.region.1 + p.delta < I.region.1 then 1 else 0
              let er : Int := if rp.region.2 - p.delta > I.region.2 then 1 else 0
              (I, d + er + el))
            match minList (cands.map (·.2)) with
            | none => none
            | some best => some ((cands.filter (fun x => x.2 ≤ best + 3)).map (·.1))

/-- `len(matching_events) == 1 and matching_events[0].event_type == MatchEventSubtype.undefined` -/
def isUndefinedOnly : List Event → Bool
  | [e] => decide (e.ty = MatchEventSubtype.undefined)
  | _ => false

/-- `detect_inconsistensies`: (isoform, events) in id order; isoforms whose comparison is `[undefined]` are skipped -/
def detectInconsistencies (g : Gene) (p : Params) (rp : ReadProf) (cj : Nat → Option (List Event)) :
    List IsoInfo → Option (List (IsoInfo × List Event))
  | [] => some []
  | I :: rest =>
    match cj I.id with
    | none => none            -- compare_junctions raises
    | some ev =>
      if isUndefinedOnly ev then
        detectInconsistencies g p rp cj rest
      else
        match elongationEvents g p rp I with
        | none => none
        | some el =>
          match verifyReadEnds p rp I (ev ++ el), detectInconsistencies g p rp cj rest with
          | some evs, some r => some ((I, evs) :: r)
          | _, _ => none

/-- `elongation_cost` (exact) -/
def elongationCost (p : Params) (len : Int) : Option Rat :=
  match event_cost_hundredths .exon_elongation_left, event_cost_hundredths .major_exon_elongation_left with
  | some mn, some mx =>
    let mnr : Rat := (mn : Rat) / 100
    let mxr : Rat := (mx : Rat) / 100
    if len ≤ p.minor_exon_extension then some mnr
    else if len ≥ p.major_exon_extension then some mxr
    else if p.major_exon_extension - p.minor_exon_extension = 0 then none
    else some (mnr + (mxr - mnr) * ((len - p.minor_exon_extension : Int) : Rat) /
                 ((p.major_exon_extension - p.minor_exon_extension : Int) : Rat))
  | _, _ => none

def eventCount (e : Event) : Int :=
  if e.isoRegion ≠ undefRegion ∧ e.isoRegion.1 ≠ absentPos ∧ e.isoRegion.2 ≠ absentPos ∧
      (e.ty = .exon_skipping_known ∨ e.ty = .exon_skipping_novel) then
    e.isoRegion.2 - e.isoRegion.1 + 1
  else if e.readRegion ≠ undefRegion ∧ e.readRegion.1 ≠ absentPos ∧ e.readRegion.2 ≠ absentPos then
    if e.ty = .exon_gain_novel ∨ e.ty = .exon_gain_known ∨ e.ty = .mutually_exclusive_exons_novel ∨
       e.ty = .mutually_exclusive_exons_known ∨ e.ty = .exon_detach_known ∨ e.ty = .exon_detach_novel then
      e.readRegion.2 - e.readRegion.1 + 1 - 1
    else if e.ty = .intron_retention ∨ e.ty = .unspliced_intron_retention ∨ e.ty = .fake_micro_intron_retention ∨
       e.ty = .incomplete_intron_retention_left ∨ e.ty = .incomplete_intron_retention_right then 1
    else e.readRegion.2 - e.readRegion.1 + 1
  else 1

/-- cost of one event; `none` = KeyError / ZeroDivisionError -/
def eventCost (p : Params) (e : Event) : Option Rat :=
  match event_cost_hundredths e.ty with
  | none => none
  | some c =>
    if e.ty = .major_exon_elongation_left ∨ e.ty = .major_exon_elongation_right ∨
       e.ty = .exon_elongation_right ∨ e.ty = .exon_elongation_left then
      (elongationCost p e.info).map (fun c' => c' * (eventCount e : Rat))
    else some (((c : Rat) / 100) * (eventCount e : Rat))

def penaltyOf (p : Params) : List Event → Option Rat
  | [] => some 0
  | e :: es => match eventCost p e, penaltyOf p es with
    | some a, some b => some (a + b)
    | _, _ => none

def minRat : List Rat → Option Rat
  | [] => none
  | x :: xs => match minRat xs with
    | none => some x
    | some m => some (if x ≤ m then x else m)

def penaltyTieEps : Rat := (1 : Rat) / 1000000

/-- `select_best_among_inconsistent` -> (best isoforms, min penalty) -/
def selectBestAmongInconsistent (p : Params) (rp : ReadProf) (rm : List (IsoInfo × List Event)) :
    Option (List (IsoInfo × List Event) × Rat) :=
  match mapOpt (fun (Ie : IsoInfo × List Event) => (penaltyOf p Ie.2).map (fun s => (Ie, s))) rm with
  | none => none
  | some scored =>
    match minRat (scored.map (·.2)) with
    | none => none
    | some mn =>
      -- `x[1] - min_penalty_score < 1e-6` (e3a7729: float sums that differ only by rounding are tied)
      let best := (scored.filter (fun x => x.2 - mn < penaltyTieEps)).map (·.1)
      if best.length > 1 then
        match resolveByScore (coverageScore p rp) (some topScoredFactor) (best.map (·.1)) with
        | none => none
        | some keep => some (best.filter (fun Ie => keep.any (fun K => K.id = Ie.1.id)), mn)
      else some (best, mn)

/-- `match_inconsistent` (quick_mode off) -/
def matchInconsistent (g : Gene) (p : Params) (rp : ReadProf) (cj : Nat → Option (List Event)) : Option Assignment :=
  match selectSimilar g p rp with
  | none => none
  | some cands =>
    if cands.isEmpty then
      some { ty := .noninformative, isoMatches := [{ iso := none, cls := .genic, events := [] }] }
    else
      -- `sorted(matched_isoforms)`: candidates come out ordered by (diff, id); re-sort by id
      let sorted := g.isos.filter (fun I => cands.any (fun C => C.id = I.id))
      match detectInconsistencies g p rp cj sorted with
      | none => none
      | some rm =>
        if rm.isEmpty then some { ty := .noninformative, isoMatches := [] }
        else
          match selectBestAmongInconsistent p rp rm with
          | none => none
          | some (best, pen) =>
            if best.isEmpty then some { ty := .noninformative, isoMatches := [] }
            else
              let ty := classifyAssignment (best.map (·.2))
              if rp.intron.read.isEmpty then
                (mapOpt (fun (Ie : IsoInfo × List Event) =>
                  (monoExonClassification Ie.2).map (fun c => mkMatchList c Ie.1.id Ie.2)) best).map
                  (fun ms => { ty := ty, isoMatches := ms })
              else if ty.is_inconsistent then
                some { ty := ty, isoMatches := best.map (fun Ie =>
                  { mkMatchList (inconsistencyClassification Ie.2) Ie.1.id Ie.2 with
                    penaltyNum := pen.num, penaltyDen := pen.den }) }
              else
                (mapOpt (fun (Ie : IsoInfo × List Event) =>
                  (spliceMatch rp Ie.1).map (fun m =>
                    { m with events := (Ie.2.filter (fun e => e.ty != MatchEventSubtype.none)).foldl addSub m.events })) best).map
                  (fun ms => { ty := ty, isoMatches := ms })

/-! ### `assign_to_isoform` -/

inductive Path where
  | intergenic | noninformative | inconsistent | consistent | fallback
  deriving DecidableEq, Repr

/-- which branch of `assign_to_isoform` is taken before any matching (`fallback` is decided later) -/
def dispatch (g : Gene) (rp : ReadProf) : Path :=
  if g.exons.isEmpty then .intergenic
  else if rp.split.read.all (fun e => e ≠ 1) ∨ rp.split.gene.all (fun e => e = 0 ∨ e = -2) then .noninformative
  else if rp.intron.read.any (fun e => e = -1) ∨ rp.split.read.any (fun e => e = -1) then .inconsistent
  else if rp.intron.read.any (fun e => e = 0) ∨ rp.split.read.any (fun e => e = 0) then .inconsistent
  else .consistent

/-- the `noninformative` branch -/
def noninformativeAssignment (g : Gene) (rp : ReadProf) : Option Assignment :=
  match regionOf g.splitExons with
  | none => none
  | some gr =>
    let cls : MatchClassification :=
      if !overlaps rp.region gr then .intergenic
      else if rp.split.gene.all (fun e => e ≠ 1) then .genic_intron
      else .genic
    some { ty := .noninformative, isoMatches := [{ iso := none, cls := cls, events := [] }] }

/-- `assign_to_isoform`: the assignment and the path that produced it -/
def assignToIsoform (g : Gene) (p : Params) (rp : ReadProf) (cj : Nat → Option (List Event)) : Option (Assignment × Path) :=
  match dispatch g rp with
  | .intergenic => some ({ ty := .intergenic, isoMatches := [{ iso := none, cls := .intergenic, events := [] }] }, .intergenic)
  | .noninformative => (noninformativeAssignment g rp).map (fun a => (a, .noninformative))
  | .inconsistent => (matchInconsistent g p rp cj).map (fun a => (a, .inconsistent))
  | _ =>
    match matchConsistent g p rp with
    | none => none
    | some (some a) => some (a, .consistent)
    | some none => (matchInconsistent g p rp cj).map (fun a => (a, .fallback))

/-- end to end: annotation, parameters, alignment blocks, polyA positions, comparator output -/
def assignRead (ms : List Isoform) (p : Params) (blocks : List Iv) (pa : PolyA) (cj : Nat → Option (List Event)) :
    Option (Assignment × Path) :=
  match Gene.fromModels ms with
  | none => none
  | some g =>
    match constructProfiles g p blocks pa with
    | none => none
    | some rp => assignToIsoform g p rp cj

end IsoVerif.Model.C01
