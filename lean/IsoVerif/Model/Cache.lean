/-
C20 — executable model of the per-user JSON cache protocol of IsoQuant
($HOME/.config/IsoQuant/{db,index,bed,alignment}_config.json).

Code modelled (see docs/C20.md for the line-by-line map):
  isoquant.py        set_configs_directory
  src/gtf2db.py      load_config / store_config (fixed protocol), convert_db, find_converted_db
  src/read_mapper.py find_stored_index/bed/alignment, store_index/bed/alignment
and, as `…Orig` programs, the protocol of the tree before the `fix:` commit (`open(...,'w')`; `json.dump`).

Core Lean only.  The file system is modelled at the level POSIX gives to the code:
  * a directory maps a config-file id to an inode; an inode holds bytes;
  * `open(path,'w')` truncates the inode the name points to (creates one if absent) and keeps a descriptor;
  * buffered data reaches the inode at `close`: the whole buffer lands at offset 0 *over whatever is there*
    (`overlay`) – a second writer that opened earlier still writes its full buffer;
  * `os.replace(tmp, path)` atomically points the name to a fresh inode holding the complete buffer
    (descriptors of other processes keep pointing to the old, now anonymous, inode);
  * `open(path,'r'); read(); json.load` is one step at the time of the read.
`json.dump`/`json.load` are an external (`Codec`): the theorems assume only the laws `Codec.Lawful`
(self-delimiting serialisation), the driver instantiates the real JSON text, `toyCodec` proves the laws
satisfiable and is used for the `decide` witnesses.

A process is a list of atomic instructions; an interleaving is a list of process ids (each occurrence lets
that process perform its next instruction; ids of finished / crashed processes are no-ops), so
`∀ sched : List Nat` ranges over every merge of the processes' step lists, for any number of processes.
-/
namespace IsoVerif.Model.C20

abbrev Path := Nat
abbrev Key := Nat

/-- one cache entry: `genedb|index_filename|bed_filename|alignment_fpath`, the mtime of the source
    (`gtf_mtime|reference_mtime|fastq_mtime`), the mtime of the target (`db_mtime|index_mtime|bed_mtime|bam_mtime`),
    a tag (`complete_db` flag | `kmer_size`) and further dependency mtimes (alignment: `index_mtime`, `ann_mtime`) -/
structure Entry where
  kind : Nat          -- which cache the entry belongs to (decides its JSON field names): 0 db, 1 index, 2 bed, 3 alignment
  target : Path
  srcM : Nat
  tgtM : Nat
  tag : Nat
  aux : List Nat
deriving DecidableEq, Repr

/-- a Python dict (insertion ordered) -/
abbrev Cache := List (Key × Entry)

/-- `d.get(k)` -/
def cfind : Cache → Key → Option Entry
  | [], _ => none
  | (k', e) :: r, k => if k' = k then some e else cfind r k

/-- `d[k] = e` (an existing key keeps its position) -/
def cset : Cache → Key → Entry → Cache
  | [], k, e => [(k, e)]
  | (k', e') :: r, k, e => if k' = k then (k, e) :: r else (k', e') :: cset r k e

/-- `json.dump` / `json.load` on the dict (an external; see `Lawful`) -/
structure Codec (β : Type) where
  ser : Cache → List β
  parse : List β → Option Cache

/-- what the theorems assume about the serialisation format (true of JSON text produced by `json.dump` for a
    dict: the text of an object is self-delimiting, the empty string is not a document, and a document followed
    by the non-empty tail of another document is not a document).  Monitored at run time on every content that
    arises in the correspondence runs. -/
structure Codec.Lawful {β : Type} (cd : Codec β) : Prop where
  parse_prefix : ∀ d t d', cd.parse (cd.ser d ++ t) = some d' → ∀ x ∈ d', x ∈ d
  parse_nil : cd.parse [] = none
  parse_tail : ∀ d1 d2 t, t ≠ [] → t <:+ cd.ser d2 → cd.parse (cd.ser d1 ++ t) = none

/-- a buffer written at offset 0 over the existing bytes -/
def overlay {β : Type} (buf old : List β) : List β := buf ++ old.drop buf.length

/-- the static description of one cache client (one lookup/store cycle) -/
structure Client where
  file : Nat          -- which config file: 0 db, 1 index, 2 bed, 3 alignment
  key : Key           -- dict key (db: absolute GTF path; index: reference path; bed: genedb path; alignment: composite)
  src : Path          -- file whose mtime is stored as source mtime
  aux : List Path     -- further files whose mtimes are stored and compared (alignment: index, annotation)
  target : Path       -- the file this run would produce itself (inside its own output folder)
  tag : Nat           -- complete_genedb flag / k-mer size
deriving DecidableEq, Repr

/-- ghost record of one production (conversion / indexing / alignment) actually performed -/
structure Conv where
  client : Client
  srcM0 : Nat        -- mtime of the source when the conversion started (what was actually converted)
  srcM : Nat         -- mtime of the source as stat'ed after the conversion (what the entry records)
  auxM : List Nat
  tgtM : Nat
deriving DecidableEq, Repr

def Conv.entry (c : Conv) : Entry :=
  { kind := c.client.file, target := c.client.target, srcM := c.srcM, tgtM := c.tgtM, tag := c.client.tag, aux := c.auxM }

/-- one complete lookup result of a run: which artefact (path @ mtime) it goes on to use, for which source
    (path @ mtime); `hit` = taken from the cache -/
structure Result where
  client : Client
  target : Path
  srcM : Nat
  tgtM : Nat
  auxM : List Nat
  hit : Bool
deriving DecidableEq, Repr

structure World (β : Type) where
  names : Nat → Option Nat          -- config file id → inode
  inodes : Nat → List β             -- inode → bytes
  nextInode : Nat
  mtime : Path → Option Nat         -- data files (GTF, db, reference, index, …): none = absent
  clock : Nat
  convs : List Conv                 -- ghost: productions performed so far
  obs : List (Nat × Option (List β))  -- ghost: what every `load` observed (none = file absent)
  stored : List (List β)            -- ghost: every complete buffer handed to a store

def upd {α : Type} (f : Nat → α) (k : Nat) (v : α) : Nat → α := fun x => if x = k then v else f x

/-- content reachable through the name (none = absent) -/
def World.content {β : Type} (w : World β) (f : Nat) : Option (List β) := (w.names f).map w.inodes

inductive Instr where
  /-- `os.path.exists(config)`: when it exists skip the next `skip` instructions -/
  | existsQ (f : Nat) (skip : Nat)
  /-- `open(config, 'w')` -/
  | openW (f : Nat)
  /-- `json.dump(...)`; `close()` on the descriptor of `openW`; `empty` = the literal `{}` -/
  | writeBuf (f : Nat) (empty : Bool)
  /-- `store_config`: temp file + `os.replace` -/
  | replaceBuf (f : Nat) (empty : Bool)
  /-- `open(config,'r'); json.load`; `tolerant` = missing / unparsable file is an empty dict;
      `apply` = the pending new entry is put into the loaded dict (the `store_*` functions re-read first) -/
  | load (f : Nat) (tolerant : Bool) (apply : Bool)
  /-- `find_converted_db` / the body of `find_stored_*`: on a hit record the result and skip `skip` instructions -/
  | lookup (c : Client) (skip : Nat)
  /-- run the conversion into the own target, stat source / target, build the new entry;
      `applyNow` = put it into the dict loaded earlier (`convert_db`), else keep it pending -/
  | produce (c : Client) (applyNow : Bool)
deriving DecidableEq, Repr

/-- instructions of the fixed protocol: no in-place truncation / write of a shared file -/
def Instr.atomic : Instr → Bool
  | .openW _ => false
  | .writeBuf _ _ => false
  | _ => true

structure Proc where
  todo : List Instr
  dict : Nat → Cache                     -- local variable holding the loaded dict, per config file
  pending : Nat → Option (Key × Entry)   -- entry computed by `produce`, not yet in a dict
  fd : Nat → Option Nat                  -- open write descriptor (inode), per config file
  results : List Result
  crashed : Bool

def Proc.init (prog : List Instr) : Proc :=
  { todo := prog, dict := fun _ => [], pending := fun _ => none, fd := fun _ => none, results := [], crashed := false }

def Proc.finished (p : Proc) : Bool := p.todo.isEmpty && !p.crashed

/-- `find_converted_db` / `find_stored_*` on the loaded dict and the current file system -/
def lookupHit {β : Type} (w : World β) (d : Cache) (c : Client) : Option Entry :=
  match cfind d c.key with
  | none => none
  | some e =>
    if e.kind = c.file ∧ w.mtime c.src = some e.srcM ∧ w.mtime e.target = some e.tgtM ∧ e.tag = c.tag ∧
       c.aux.map w.mtime = e.aux.map some then some e else none

def allSome : List (Option Nat) → Option (List Nat)
  | [] => some []
  | none :: _ => none
  | some a :: r => (allSome r).map (a :: ·)

/-- `open(config,'r'); json.load`: none = the file is absent or its bytes are not a document -/
def loadDict {β : Type} (cd : Codec β) (w : World β) (f : Nat) : Option Cache :=
  match w.content f with
  | none => none
  | some bytes => cd.parse bytes

/-- `d[key] = entry` of the `store_*` functions after re-reading the file -/
def applyPending (d : Cache) (apply : Bool) (pend : Option (Key × Entry)) : Cache :=
  match apply, pend with
  | true, some (k, e) => cset d k e
  | _, _ => d

/-- one atomic step of one process -/
def stepProc {β : Type} (cd : Codec β) (w : World β) (p : Proc) : World β × Proc :=
  if p.crashed then (w, p) else
  match p.todo with
  | [] => (w, p)
  | .existsQ f k :: rest =>
    (w, { p with todo := if (w.names f).isSome then rest.drop k else rest })
  | .openW f :: rest =>
    match w.names f with
    | some i => ({ w with inodes := upd w.inodes i [] }, { p with todo := rest, fd := upd p.fd f (some i) })
    | none =>
      ({ w with names := upd w.names f (some w.nextInode), inodes := upd w.inodes w.nextInode [],
                nextInode := w.nextInode + 1 },
       { p with todo := rest, fd := upd p.fd f (some w.nextInode) })
  | .writeBuf f empty :: rest =>
    match p.fd f with
    | none => (w, { p with crashed := true })      -- no descriptor: not a program of the code base
    | some i =>
      let buf := cd.ser (if empty then [] else p.dict f)
      ({ w with inodes := upd w.inodes i (overlay buf (w.inodes i)), stored := buf :: w.stored },
       { p with todo := rest, fd := upd p.fd f none })
  | .replaceBuf f empty :: rest =>
    let buf := cd.ser (if empty then [] else p.dict f)
    ({ w with names := upd w.names f (some w.nextInode), inodes := upd w.inodes w.nextInode buf,
              nextInode := w.nextInode + 1, stored := buf :: w.stored },
     { p with todo := rest })
  | .load f tolerant apply :: rest =>
    let w' := { w with obs := (f, w.content f) :: w.obs }
    let parsed := loadDict cd w f
    if parsed.isNone ∧ tolerant = false then
      (w', { p with crashed := true })                   -- FileNotFoundError / JSONDecodeError
    else
      (w', { p with todo := rest, dict := upd p.dict f (applyPending (parsed.getD []) apply (p.pending f)),
                    pending := if apply then upd p.pending f none else p.pending })
  | .lookup c k :: rest =>
    match lookupHit w (p.dict c.file) c with
    | some e =>
      (w, { p with todo := rest.drop k,
                   results := { client := c, target := e.target, srcM := e.srcM, tgtM := e.tgtM,
                                auxM := e.aux, hit := true } :: p.results })
    | none => (w, { p with todo := rest })
  | .produce c applyNow :: rest =>
    match w.mtime c.src, allSome (c.aux.map w.mtime) with
    | some sm, some _ =>
      let mt' := upd w.mtime c.target (some w.clock)
      -- the code stats source and target *after* the conversion
      match mt' c.src, allSome (c.aux.map mt') with
      | some sm', some am' =>
        let cv : Conv := { client := c, srcM0 := sm, srcM := sm', auxM := am', tgtM := w.clock }
        let w' := { w with mtime := mt', clock := w.clock + 1, convs := cv :: w.convs }
        let e : Entry := { kind := c.file, target := c.target, srcM := sm', tgtM := w.clock, tag := c.tag, aux := am' }
        (w', { p with todo := rest,
                      dict := if applyNow then upd p.dict c.file (cset (p.dict c.file) c.key e) else p.dict,
                      pending := if applyNow then p.pending else upd p.pending c.file (some (c.key, e)),
                      results := { client := c, target := c.target, srcM := sm', tgtM := w.clock, auxM := am',
                                   hit := false } :: p.results })
      | _, _ => ({ w with mtime := mt', clock := w.clock + 1 }, { p with crashed := true })
    | _, _ => (w, { p with crashed := true })               -- source missing: the conversion itself fails

structure Sys (β : Type) where
  world : World β
  procs : List Proc

def stepSys {β : Type} (cd : Codec β) (s : Sys β) (pid : Nat) : Sys β :=
  match s.procs[pid]? with
  | none => s
  | some p =>
    let r := stepProc cd s.world p
    { world := r.1, procs := s.procs.set pid r.2 }

/-- run an interleaving -/
def run {β : Type} (cd : Codec β) (s : Sys β) (sched : List Nat) : Sys β := sched.foldl (stepSys cd) s

/-- let process `pid` perform `n` further steps -/
def stepN {β : Type} (cd : Codec β) (s : Sys β) (pid : Nat) : Nat → Sys β
  | 0 => s
  | n + 1 => stepN cd (stepSys cd s pid) pid n

/-- after the interleaving, let every process run to its end, in pid order (each needs at most `todo.length` steps) -/
def drainFrom {β : Type} (cd : Codec β) (s : Sys β) : Nat → Nat → Sys β
  | _, 0 => s
  | pid, n + 1 =>
    let k := match s.procs[pid]? with
      | some p => p.todo.length
      | none => 0
    drainFrom cd (stepN cd s pid k) (pid + 1) n

def drain {β : Type} (cd : Codec β) (s : Sys β) : Sys β := drainFrom cd s 0 s.procs.length

/-! ### the programs of the code base -/

def configFiles : List Nat := [0, 1, 2, 3]

/-- `set_configs_directory` -/
def setupFixed : List Instr := configFiles.flatMap (fun f => [.existsQ f 1, .replaceBuf f true])

/-- `convert_db` (gtf2db direction) as called by `convert_gtf_to_db` -/
def dbFixed (c : Client) (cleanStart : Bool) : List Instr :=
  [.load c.file true false] ++ (if cleanStart then [] else [.lookup c 2]) ++
  [.produce c true, .replaceBuf c.file false]

/-- `find_stored_X`; on a miss `X = make(); store_X` (index, bed, alignment caches of src/read_mapper.py) -/
def storeFixed (c : Client) (doLookup : Bool) : List Instr :=
  (if doLookup then [.load c.file true false, .lookup c 3] else []) ++
  [.produce c false, .load c.file true true, .replaceBuf c.file false]

/-- protocol of the tree before the fix (kept for the witnesses) -/
def setupOrig : List Instr := configFiles.flatMap (fun f => [.existsQ f 2, .openW f, .writeBuf f true])

def dbOrig (c : Client) (cleanStart : Bool) : List Instr :=
  [.load c.file false false] ++ (if cleanStart then [] else [.lookup c 3]) ++
  [.produce c true, .openW c.file, .writeBuf c.file false]

def storeOrig (c : Client) (doLookup : Bool) : List Instr :=
  (if doLookup then [.load c.file false false, .lookup c 4] else []) ++
  [.produce c false, .load c.file false true, .openW c.file, .writeBuf c.file false]

/-- description of one IsoQuant run as far as the caches are concerned -/
structure RunCfg where
  db : Option (Client × Bool)          -- GTF annotation given: client, --clean_start
  stores : List (Client × Bool)        -- fastq input: index, bed, one alignment client per read file (with doLookup)
deriving Repr

def progFixed (r : RunCfg) : List Instr :=
  setupFixed ++ (match r.db with | some (c, cs) => dbFixed c cs | none => []) ++
  r.stores.flatMap (fun x => storeFixed x.1 x.2)

def progOrig (r : RunCfg) : List Instr :=
  setupOrig ++ (match r.db with | some (c, cs) => dbOrig c cs | none => []) ++
  r.stores.flatMap (fun x => storeOrig x.1 x.2)

/-- an empty file system with the given data-file mtimes -/
def World.fresh {β : Type} (mt : Path → Option Nat) (clock : Nat) : World β :=
  { names := fun _ => none, inodes := fun _ => [], nextInode := 0, mtime := mt, clock := clock,
    convs := [], obs := [], stored := [] }

def Sys.start {β : Type} (w : World β) (progs : List (List Instr)) : Sys β :=
  { world := w, procs := progs.map Proc.init }

/-- every place of the code base that touches a config file (inventory regenerated from /repo into
    `IsoVerif.Gen.cache_access_sites`), with the model instruction that represents it -/
def modelledSites : List (String × String) := [
  ("isoquant.py:set_configs_directory:os.path.exists:config_path", "existsQ f 1"),
  ("isoquant.py:set_configs_directory:store_config:config_path", "replaceBuf f true"),
  ("src/gtf2db.py:convert_db:load_config:db_config_path", "load 0 true false"),
  ("src/gtf2db.py:convert_db:store_config:db_config_path", "replaceBuf 0 false"),
  ("src/gtf2db.py:load_config:open:r", "load (open-r; read; json.load; tolerant)"),
  ("src/gtf2db.py:store_config:tempfile.mkstemp", "replaceBuf (private temp file in the config folder)"),
  ("src/gtf2db.py:store_config:os.fdopen", "replaceBuf (json.dump into the private temp file)"),
  ("src/gtf2db.py:store_config:os.replace", "replaceBuf (atomic rename)"),
  ("src/read_mapper.py:find_stored_index:load_config:index_config_path", "load 1 true false"),
  ("src/read_mapper.py:store_index:load_config:index_config_path", "load 1 true true"),
  ("src/read_mapper.py:store_index:store_config:index_config_path", "replaceBuf 1 false"),
  ("src/read_mapper.py:find_stored_bed:load_config:bed_config_path", "load 2 true false"),
  ("src/read_mapper.py:store_bed:load_config:bed_config_path", "load 2 true true"),
  ("src/read_mapper.py:store_bed:store_config:bed_config_path", "replaceBuf 2 false"),
  ("src/read_mapper.py:find_stored_alignment:load_config:alignment_config_path", "load 3 true false"),
  ("src/read_mapper.py:store_alignment:load_config:alignment_config_path", "load 3 true true"),
  ("src/read_mapper.py:store_alignment:store_config:alignment_config_path", "replaceBuf 3 false")
]

/-! ### the artefact a run took stays the one it took (Props/C20Stable.lean)

A `Result` records path @ mtime of the artefact at the moment the run took it (cache hit or own production); the run
re-opens that *path* for the rest of its life.  `stable` says the file at the path is still that version. -/

/-- the file at the result's path is still the version (path @ mtime) the run took -/
def Result.stable {β : Type} (w : World β) (r : Result) : Prop := w.mtime r.target = some r.tgtM

instance {β : Type} (w : World β) (r : Result) : Decidable (r.stable w) := by
  unfold Result.stable; exact inferInstance

/-- every result of every process is, in this state, still the file version the process took -/
def ResultsStableAt {β : Type} (s : Sys β) : Prop := ∀ p ∈ s.procs, ∀ r ∈ p.results, r.stable s.world

instance {β : Type} (s : Sys β) : Decidable (ResultsStableAt s) := by
  unfold ResultsStableAt; exact inferInstance

/-- the path an instruction (re)writes when it is executed -/
def Instr.produces : Instr → Option Path
  | .produce c _ => some c.target
  | _ => none

/-- targets of the productions still ahead in an instruction list (with multiplicity; a production behind a `lookup`
    counts although a hit would skip it: whether it is skipped depends on the interleaving) -/
def pendingOf (l : List Instr) : List Path := l.filterMap Instr.produces

/-- … of a process (a crashed process performs nothing any more) -/
def Proc.toProduce (p : Proc) : List Path := if p.crashed then [] else pendingOf p.todo

/-- … of the whole system -/
def Sys.toProduce {β : Type} (s : Sys β) : List Path := s.procs.flatMap Proc.toProduce

/-- Every path is the target of at most one pending production in the whole system, and no pending production targets a
    path that a logged production wrote (every entry of every cache – config files, loaded dicts, pending entries – is
    the entry of a logged production, invariant `SInv`; so this covers "the target of an entry of an initial cache") or
    that an existing result refers to.  Decidable; the class it excludes is exactly the one of
    `shared_target_overwrite_witness`: a run produces into a path another run may have taken from the cache. -/
def PrivateTargets {β : Type} (s : Sys β) : Prop :=
  s.toProduce.Nodup ∧
  (∀ t ∈ s.toProduce, ∀ cv ∈ s.world.convs, cv.client.target ≠ t) ∧
  (∀ t ∈ s.toProduce, ∀ p ∈ s.procs, ∀ r ∈ p.results, r.target ≠ t)

instance {β : Type} (s : Sys β) : Decidable (PrivateTargets s) := by
  unfold PrivateTargets; exact inferInstance

/-! ### a concrete lawful codec (length-prefixed records) -/

def encEntry (x : Key × Entry) : List Nat :=
  [x.1, x.2.kind, x.2.target, x.2.srcM, x.2.tgtM, x.2.tag, x.2.aux.length] ++ x.2.aux

def encAll : Cache → List Nat
  | [] => []
  | x :: r => encEntry x ++ encAll r

def parseEntries : Nat → List Nat → Option (Cache × List Nat)
  | 0, r => some ([], r)
  | n + 1, k :: kd :: t :: sm :: tm :: tg :: al :: r =>
    if al ≤ r.length then
      match parseEntries n (r.drop al) with
      | some (d, rest) => some ((k, { kind := kd, target := t, srcM := sm, tgtM := tm, tag := tg, aux := r.take al }) :: d, rest)
      | none => none
    else none
  | _ + 1, _ => none

def toySer (d : Cache) : List Nat := d.length :: encAll d

def toyParse : List Nat → Option Cache
  | [] => none
  | n :: r =>
    match parseEntries n r with
    | some (d, []) => some d
    | _ => none

def toyCodec : Codec Nat := { ser := toySer, parse := toyParse }

end IsoVerif.Model.C20
